"""C11 -- variable groups map indices to identifiers bijectively, names aligned
(plus the allocation-history part of C10: a new group never gets an identifier that
an earlier clause mentions).

Correspondence: for random group shapes (empty ranges, empty graphs, 1-4 block
dimensions, non powers of two) the real group objects of cnfgen (created on CNF and
OPB formulas, after a random number of anonymous variables) are compared with the
extracted Coq model coq/Vars.v: size, identifier range, enumeration of indices,
every index -> id and every +-id -> index, labels, wildcard patterns, probes outside
the domain (implementation raises ValueError  <=>  model says None; any other
exception is a failing input).  Random histories interleave group creation, clause
insertion (checked and unchecked) and update_variable_number; after every step the
variable count, the group offsets, the clause list and the label list are compared,
and the property itself is evaluated on the implementation (name of variable i =
label of its group for its index / default name; new identifiers above every
variable mentioned so far).

Large streams (notes/LARGE_STREAMS.md), run first as a corpus: groups created after 255..1000 anonymous
variables (identifiers beyond 256/257), new_mapping(n, m) with m in 128/129/130/300, edge groups of
bipartite / sparse / simple / directed graphs with a hub of degree 129/130 on either side whose edges
were inserted in random order before the group is created (every index -> id -> index round trip,
wildcard patterns through the hubs must enumerate in identifier order), blocks / words / binary
mappings whose sizes sit on 16/17, 128/129, 256/257, singleton variables at identifiers 256..1001,
and histories that mix such groups with raises of the variable count."""
import io
import itertools
import random

from lib import cmd, Sym, is_error, import_impl

META = dict(
    technique='Coq theorems about an executable model of the variable groups and the manager history machine '
              '(mixed radix, ranking, prefix sums + bisect, bit arithmetic, fold_left invariants) + extracted-model differential check',
    category='proof',
    text='Machine-checked theorems state for every group shape, offset, index and literal that identifiers are off+1..off+size in '
         'enumeration order, that index->id and id->index are mutually inverse (sign-insensitive) and reject everything else, and for '
         'every history of group creations / clause insertions / raises of the variable count that the variable count bounds every '
         'mentioned variable (under the stated side condition), that new identifiers are fresh, and that the label list has one entry '
         'per variable; name alignment is refuted for the code as it is (singleton after anonymous variables) and proved under the '
         'exact side condition and for the repaired enumeration.  The model is tied to cnfgen by exact comparison on random shapes and histories.',
    note='Trusted: Coq kernel, extraction, OCaml driver, the harness. Graph arguments are given to the model as sorted neighbour lists '
         '(what cnfgen graph objects expose; C16). str.format is modelled for automatic-numbering placeholders only; '
         'ceil(log(m,2)) is modelled exactly (float agreement measured for m < 2^29).',
    design_ref='5/C11',
)
RULE = ('one case = one group shape on one formula class (stream groups-*), one probe, one pattern, or one history; '
        'non-trivial = the group has at least one variable / the history has at least two operations')
TRUSTED = ['graph objects of cnfgen expose sorted duplicate-free neighbour lists (checked on every generated graph, property C16)',
           'Python str.format for automatic-numbering placeholders; float log2 for m < 2^29']

# model variants (fixD2, fixD3, fixD34); the first is the code as it is
VARIANTS = [(a, b, c) for c in (False, True) for b in (False, True) for a in (False, True)]
WORDKIND = {'combinations': 'new_combinations', 'combinations_with_replacement': 'new_combinations_with_replacement',
            'permutations': 'new_permutations', 'words': 'new_words'}
ALPHA = ['x', 'p_', 'e(', ')', ',', '[', ']', '=', ' ', 'v', '{', '}', '_{', '}}', '', '', 'Z', '-', '{}', 'q.', '#']


# --------------------------------------------------------------------------
# shapes
# --------------------------------------------------------------------------
def rand_piece(rng):
    return ''.join(rng.choice(ALPHA) for _ in range(rng.randint(0, 3)))


def rand_fmt(rng, arity, allow_too_many=True):
    """literal pieces of a format string; #placeholders = len(pieces)-1"""
    r = rng.random()
    if r < 0.80:
        nph = arity
    elif r < 0.92:
        nph = rng.randint(0, arity)
    elif allow_too_many:
        nph = arity + 1
    else:
        nph = arity
    return [rand_piece(rng) for _ in range(nph + 1)]


def py_fmt(pieces):
    return '{}'.join(p.replace('{', '{{').replace('}', '}}') for p in pieces)


def rand_bip(rng, maxl=5, maxr=5):
    L, R = rng.randint(0, maxl), rng.randint(0, maxr)
    dens = rng.choice([0.0, 0.2, 0.5, 0.8, 1.0])
    edges = sorted({(u, v) for u in range(1, L + 1) for v in range(1, R + 1) if rng.random() < dens})
    return L, R, edges


def rand_shape(rng, tier):
    """a JSON-able shape description"""
    big = tier != 'quick'
    k = rng.choice(['single', 'block', 'block', 'words', 'words', 'bip', 'sparse', 'di', 'graph', 'umap', 'binmap'])
    if k == 'single':
        return dict(kind='single')
    if k == 'block':
        d = rng.choice([1, 1, 2, 2, 3, 3, 4, 0])
        mx = {0: 0, 1: 9, 2: 5, 3: 4, 4: 3}[d]
        rs = [rng.choice([0, 1, 2, 3, mx, rng.randint(0, mx)]) if rng.random() < 0.9 else -1 for _ in range(d)]
        rs = [r if (r >= 0 or rng.random() < 0.5) else 1 for r in rs]
        return dict(kind='block', ranges=rs)
    if k == 'words':
        wk = rng.choice(['combinations', 'permutations', 'words', 'combinations', 'permutations', 'words',
                         'combinations_with_replacement'])
        n = rng.choice([0, 1, 2, 3, 4, 5, 5 if not big else 6])
        kk = rng.choice([0, 1, 2, 2, 3, 3, 4 if n <= 4 else 2])
        if wk == 'words' and n ** kk > 300:
            kk = 2
        if rng.random() < 0.04:
            n = -1
        if rng.random() < 0.04:
            kk = -1
        return dict(kind='words', wordtype=wk, n=n, k=kk)
    if k in ('bip', 'sparse'):
        L, R, edges = rand_bip(rng, 5 if not big else 7, 5 if not big else 7)
        return dict(kind=k, L=L, R=R, edges=[list(e) for e in edges])
    if k == 'di':
        n = rng.randint(0, 5 if not big else 7)
        dens = rng.choice([0.0, 0.2, 0.5, 0.9])
        edges = sorted({(u, v) for u in range(1, n + 1) for v in range(1, n + 1) if rng.random() < dens})
        return dict(kind='di', n=n, edges=[list(e) for e in edges], sortby=rng.choice(['pred', 'succ']))
    if k == 'graph':
        n = rng.randint(0, 6 if not big else 8)
        dens = rng.choice([0.0, 0.2, 0.5, 0.9, 1.0])
        edges = sorted({(u, v) for u in range(1, n + 1) for v in range(u + 1, n + 1) if rng.random() < dens})
        return dict(kind='graph', n=n, edges=[list(e) for e in edges])
    if k == 'umap':
        n, m = rng.randint(0, 5), rng.randint(0, 6)
        if rng.random() < 0.04:
            n = -1
        if rng.random() < 0.04:
            m = -2
        return dict(kind='umap', n=n, m=m)
    n = rng.choice([1, 1, 2, 3, 4, 0]) if rng.random() < 0.95 else -1
    m = rng.choice([1, 2, 3, 4, 5, 6, 7, 8, 9, 13, 16, 17, 31, 33, 0])
    return dict(kind='binmap', n=n, m=m)


def arity_of(sh):
    k = sh['kind']
    if k == 'single':
        return 0
    if k == 'block':
        return len(sh['ranges'])
    if k == 'words':
        return 1            # one placeholder for the whole word
    return 2


def index_arity(sh):
    k = sh['kind']
    if k == 'single':
        return 0
    if k == 'block':
        return len(sh['ranges'])
    if k == 'words':
        return max(sh['k'], 0)
    return 2


def adj_lists(n_left, edges, key=0):
    adj = [[] for _ in range(n_left)]
    for e in edges:
        adj[e[key] - 1].append(e[1 - key])
    return [sorted(a) for a in adj]


def shape_sx(sh):
    k = sh['kind']
    if k == 'single':
        return [Sym('single')]
    if k == 'block':
        return [Sym('block'), list(sh['ranges'])]
    if k == 'words':
        return [Sym('words'), sh['wordtype'], sh['n'], sh['k']]
    if k in ('bip', 'sparse'):
        return [Sym('bip'), adj_lists(sh['L'], sh['edges']), sh['R']]
    if k == 'di':
        return [Sym('di'), adj_lists(sh['n'], sh['edges']), sh['sortby'] == 'succ']
    if k == 'graph':
        full = [[] for _ in range(sh['n'])]
        for u, v in sh['edges']:
            full[u - 1].append(v)
            full[v - 1].append(u)
        return [Sym('graph'), [sorted(a) for a in full]]
    if k == 'umap':
        return [Sym('umap'), sh['n'], sh['m']]
    if k == 'binmap':
        return [Sym('binmap'), sh['n'], sh['m']]
    raise ValueError(k)


def group_sx(sh, pieces):
    return [shape_sx(sh), list(pieces)]


def check_graph_views(G, sh):
    """the neighbour lists the model receives are what the graph object exposes"""
    k = sh['kind']
    if k in ('bip', 'sparse'):
        return [list(G.right_neighbors(u)) for u in range(1, sh['L'] + 1)] == adj_lists(sh['L'], sh['edges'])
    if k == 'di':
        return [list(G.successors(u)) for u in range(1, sh['n'] + 1)] == adj_lists(sh['n'], sh['edges'])
    if k == 'graph':
        return [list(G.neighbors(u)) for u in range(1, sh['n'] + 1)] == shape_sx(sh)[1]
    return True


def build_group(F, sh, pieces):
    """create the group on formula F through the documented new_* call; returns the group object"""
    from cnfgen.graphs import Graph, BipartiteGraph, DirectedGraph
    lab = py_fmt(pieces)
    k = sh['kind']
    if k == 'single':
        F.new_variable(label=pieces[0])
        return F._groups[-1]
    if k == 'block':
        return F.new_block(*sh['ranges'], label=lab)
    if k == 'words':
        return getattr(F, WORDKIND[sh['wordtype']])(sh['n'], sh['k'], label=lab)
    if k in ('bip', 'sparse'):
        G = BipartiteGraph(sh['L'], sh['R'])
        for u, v in sh['edges']:
            G.add_edge(u, v)
        assert check_graph_views(G, sh)
        return F.new_bipartite_edges(G, label=lab) if k == 'bip' else F.new_sparse_mapping(G, label=lab)
    if k == 'di':
        G = DirectedGraph(sh['n'])
        for u, v in sh['edges']:
            G.add_edge(u, v)
        assert check_graph_views(G, sh)
        return F.new_digraph_edges(G, label=lab, sortby=sh['sortby'])
    if k == 'graph':
        G = Graph(sh['n'])
        for u, v in sh['edges']:
            G.add_edge(u, v)
        assert check_graph_views(G, sh)
        return F.new_graph_edges(G, label=lab)
    if k == 'umap':
        return F.new_mapping(sh['n'], sh['m'], label=lab)
    if k == 'binmap':
        return F.new_binary_mapping(sh['n'], sh['m'], label=lab)
    raise ValueError(k)


def exc_class(e):
    return type(e).__name__


def as_list(x):
    """indices come back as tuples or lists"""
    return [list(t) for t in x]


def observe(thunk):
    """('ok', value) | ('ValueError',) | ('exc', class, message)"""
    try:
        return ('ok', thunk())
    except ValueError:
        return ('ValueError',)
    except Exception as e:  # noqa
        return ('exc', exc_class(e), str(e)[:160])


def ids_of_call(g, sh, pat):
    """list of ids of g(*pat) (an int for a full index)"""
    if sh['kind'] == 'single':
        if pat:
            raise ValueError('singleton called with an index')   # g(1) is a TypeError of Python's call protocol: not probed
        return [g()]
    r = g(*pat)
    if isinstance(r, int):
        return [r]
    return list(r)


# --------------------------------------------------------------------------
# stream 1: groups
# --------------------------------------------------------------------------
def probe_indices(rng, sh, valid, count):
    """index tuples in and just outside the domain"""
    ar = index_arity(sh)
    out = []
    box = 2
    for t in valid:
        for x in t:
            box = max(box, x + 1)
    for _ in range(count):
        r = rng.random()
        if valid and r < 0.45:
            t = list(rng.choice(valid))
            if t:
                j = rng.randrange(len(t))
                t[j] += rng.choice([-1, 1, 1, 2, -2])
        elif valid and r < 0.6:
            t = list(rng.choice(valid))
            if rng.random() < 0.5 and t:
                t.pop(rng.randrange(len(t)))
            else:
                t.insert(rng.randint(0, len(t)), rng.randint(0, box))
        elif valid and r < 0.7:
            t = list(rng.choice(valid))[::-1]
        else:
            t = [rng.randint(-1, box) for _ in range(ar if rng.random() < 0.9 else rng.randint(0, 4))]
        out.append(t)
    return out


def patterns_for(rng, sh, valid, count):
    ar = index_arity(sh)
    pats = [[]]
    if ar == 0:
        return pats + [[1], [None]]
    pats.append([None] * ar)
    for _ in range(count):
        r = rng.random()
        if valid and r < 0.75:
            t = list(rng.choice(valid))
        else:
            t = [rng.randint(-1, 7) for _ in range(ar)]
        mask = [rng.random() < 0.5 for _ in range(len(t))]
        p = [None if mk else x for x, mk in zip(t, mask)]
        if rng.random() < 0.08:
            p = p + [None]
        if rng.random() < 0.08 and p:
            p = p[:-1]
        pats.append(p)
    return pats


def run_groups(ctx, F_classes, ncases, given=None, rng=None, stream='groups'):
    """given: list of (shape, offset, extra wildcard patterns) run instead of random shapes (the large corpus)"""
    rng = rng or ctx.rng
    cases = []
    reqs = []

    def ask(r):
        reqs.append(r)
        return len(reqs) - 1

    for ci in range(ncases if given is None else len(given)):
        extra_patterns = []
        if given is None:
            sh = rand_shape(rng, ctx.tier)
        else:
            sh, goff, extra_patterns = given[ci]
        cname, C = F_classes[ci % 2]
        pieces = rand_fmt(rng, arity_of(sh), allow_too_many=(sh['kind'] != 'binmap'))
        if sh['kind'] == 'single':
            pieces = [rand_piece(rng) or 'X']
        off = rng.choice([0, 0, 1, 3, 7, rng.randint(0, 40)])
        if given is not None:
            off = goff
            # a large case is never spent on a label with the wrong number of placeholders (creation would be refused)
            if sh['kind'] != 'single':
                pieces = [rand_piece(rng) for _ in range(arity_of(sh) + 1)]
            if rng.random() < 0.7:
                pieces = {0: pieces, 1: ['p_{', '}'], 2: ['e(', ',', ')']}.get(arity_of(sh), pieces)
        descr = dict(cls=cname, shape=sh, label_pieces=pieces, label=py_fmt(pieces), anonymous_before=off)
        if given is None:
            ctx.tally('group kind', sh['kind'] + ('/' + sh['wordtype'] if sh['kind'] == 'words' else ''))
            ctx.tally('offset', off if off < 8 else '8+')
        else:
            ctx.tally('large: group kind', sh['kind'] + ('/' + sh['wordtype'] if sh['kind'] == 'words' else ''))
            ctx.tally('large: anonymous variables before the group', off)
            if 'edges' in sh:
                deg = {}
                for e in sh['edges']:
                    deg[('l', e[0])] = deg.get(('l', e[0]), 0) + 1
                    deg[('r', e[1])] = deg.get(('r', e[1]), 0) + 1
                ctx.tally('large: longest adjacency list', max(list(deg.values()) + [0]))
                ctx.tally('large: edges inserted in sorted order', sh['edges'] == sorted(sh['edges']))
        case = dict(descr=descr, sh=sh, off=off, pieces=pieces, stream=stream)
        cases.append(case)
        case['q_describe'] = ask(cmd('group_describe', False, group_sx(sh, pieces), off))
        case['q_describe_fixed'] = ask(cmd('group_describe', True, group_sx(sh, pieces), off))
        F = C()
        F.update_variable_number(off)
        try:
            g = build_group(F, sh, pieces)
            case['created'] = ('ok',)
        except ValueError:
            case['created'] = ('ValueError',)
            continue
        except Exception as e:  # noqa
            case['created'] = ('exc', exc_class(e), str(e)[:160])
            continue
        n = len(g)
        if given is None:
            ctx.tally('group size', n if n < 10 else ('10-49' if n < 50 else '50+'))
        else:
            ctx.tally('large: group size', n)
        case['size'] = n
        case['ids'] = list(g.ids)
        case['numvar'] = F.number_of_variables()
        case['indices'] = observe(lambda: as_list(g.indices()))
        case['all_ids'] = observe(lambda: ids_of_call(g, sh, []))
        if sh['kind'] == 'single':
            case['labels'] = observe(lambda: [g.label()])
        else:
            case['labels'] = observe(lambda: list(g.label()))
        valid = case['indices'][1] if case['indices'][0] == 'ok' else []
        # every index -> id -> index, positive and negative literal, membership, label
        fwd = []
        if sh['kind'] != 'single':
            for t in valid:
                if len(t) == 0:
                    fwd.append((t, observe(lambda: ids_of_call(g, sh, [])[0]), observe(lambda: next(iter(g.label())))))
                else:
                    fwd.append((t, observe(lambda: g(*t)), observe(lambda: g.label(*t))))
        else:
            fwd.append(([], observe(lambda: g()), observe(lambda: g.label())))
        case['fwd'] = fwd
        back = []
        lo, hi = off + 1, off + n
        probes = list(range(lo, hi + 1)) + [lo - 1, hi + 1, 0, hi + 2 + rng.randint(0, 5), max(0, lo - 2)]
        # large groups: the implementation is asked about every identifier (the property itself is evaluated on all of
        # them); the model is asked densely around the thresholds only (its cost per question grows with the group)
        asked = None
        if given is not None and n > 250:
            asked = dense_ids(off, n, sh.get('m') or (sh.get('ranges') or [0])[-1])
        for v in probes:
            for lit in (v, -v):
                qi = ask(cmd('group_to_index', shape_sx(sh), off, lit)) if (asked is None or v in asked or not (lo <= v <= hi)) else None
                back.append((lit, observe(lambda: list(g.to_index(lit))), qi, observe(lambda: lit in g)))
        case['back'] = back
        # probes in and outside the index domain
        prb = []
        for t in probe_indices(rng, sh, valid, 12 if ctx.tier == 'quick' else 30):
            if sh['kind'] == 'single' and t:
                obs = observe(lambda: list(g.indices(*t)) and 0)
                prb.append((t, obs, ask(cmd('group_pattern', shape_sx(sh), off, t)), 'indices'))
                continue
            if not t and sh['kind'] not in ('single',) and index_arity(sh) != 0:
                continue    # g() is the projection on all indices, compared above
            prb.append((t, observe(lambda: ids_of_call(g, sh, t)[0]), ask(cmd('group_to_id', shape_sx(sh), off, t)), 'call'))
        case['probes'] = prb
        # wildcard patterns
        pts = []
        for p in patterns_for(rng, sh, valid, 8 if ctx.tier == 'quick' else 20) + [list(x) for x in extra_patterns]:
            q = ask(cmd('group_pattern', shape_sx(sh), off, [Sym('none') if x is None else x for x in p]))
            oi = observe(lambda: as_list(g.indices(*p)))
            if sh['kind'] == 'single' and p:
                oc = oi if oi[0] != 'ok' else ('ok', None)
            else:
                oc = observe(lambda: ids_of_call(g, sh, p))
            pts.append((p, oi, oc, q))
            ctx.tally('pattern wildcards', sum(1 for x in p if x is None))
        case['patterns'] = pts

    replies = ctx.model.batch(reqs)
    for case in cases:
        compare_group(ctx, case, replies)


def viol_corr(ctx, what, descr, impl, model, site, cls='differs', theorem='VarsFacts'):
    ctx.disagreements_checked += 1
    ctx.violation('correspondence', what + ' (coq/Vars.v no longer describes the code; theorems C11_* do not cover it)',
                  dict(input=descr, implementation=impl, model=model, correspondence='Vars.v <-> cnfgen/formula/variables.py', theorem=theorem),
                  False, site=site, cls=cls)


def viol_cex(ctx, what, descr, detail, site, cls):
    ctx.disagreements_checked += 1
    ctx.violation('counterexample', what, dict(input=descr, observed=detail), True, site=site, cls=cls)


def compare_group(ctx, case, replies):
    sh, off, descr = case['sh'], case['off'], case['descr']
    kind = sh['kind']
    site = 'group-' + kind
    rep = replies[case['q_describe']]
    rep_fixed = replies[case['q_describe_fixed']]
    key = (descr['cls'], str(sh), descr['label'], off)
    gstream = case.get('stream', 'groups') + '-' + descr['cls']
    if is_error(rep):
        ctx.count(gstream, key, False, sample=descr)
        ctx.violation('correspondence', 'model error', dict(input=descr, model=rep), False, site='model-error', cls=site)
        return
    model_created = rep[0]
    impl_created = case['created']
    # --- creation outcome
    if impl_created[0] != 'ok':
        ctx.count(gstream, key, False, sample=descr)
        if impl_created[0] == 'ValueError':
            if model_created != 'ValueError':
                viol_corr(ctx, 'group creation raises ValueError where the model creates the group', descr, list(impl_created), rep[0], site,
                          'creation')
            return
        # any other exception on group creation is a failing input of the property (the group cannot be built)
        if model_created == 'Crash' and impl_created[1] == 'UnboundLocalError':
            viol_cex(ctx, 'new_combinations_with_replacement cannot create its group: %s' % impl_created[1], descr,
                     list(impl_created), 'new_combinations_with_replacement', 'raises-UnboundLocalError')
        else:
            viol_cex(ctx, 'group creation raised %s' % impl_created[1], descr, list(impl_created), site, 'raises-' + impl_created[1])
        return
    if model_created != 'created':
        ctx.count(gstream, key, False, sample=descr)
        if model_created == 'Crash' and rep_fixed[0] == 'created':
            rep = rep_fixed     # the defect D2 is repaired in this tree: compare with the repaired model, say nothing
        else:
            viol_corr(ctx, 'the group is created where the model predicts %s' % model_created, descr, 'created', rep[0], site, 'creation')
            return
    _, msize, mindices, mids, mlabels = rep
    n = case['size']
    ctx.count(gstream, key, n > 0, sample=descr)
    mids = [x[1] if isinstance(x, list) else None for x in mids]
    problems = []
    if n != msize:
        problems.append(('size', n, msize))
    if case['ids'] != list(range(off + 1, off + n + 1)):
        viol_cex(ctx, 'the group does not occupy the contiguous range after the declared variables', descr,
                 dict(ids=case['ids'], expected=[off + 1, off + n]), site, 'range')
    if n > 0 and case['numvar'] != off + n:
        viol_cex(ctx, 'number_of_variables() after creation is not offset+size', descr, dict(numvar=case['numvar'], expected=off + n), site, 'numvar')
    if case['indices'] != ('ok', mindices):
        problems.append(('indices', case['indices'], mindices))
    if case['all_ids'] != ('ok', mids):
        problems.append(('ids', case['all_ids'], mids))
    if case['labels'] != ('ok', mlabels):
        problems.append(('labels', case['labels'], mlabels))
    # the property itself on the implementation: ids in enumeration order are off+1.. ; both conversions invert each other
    if case['indices'][0] == 'ok' and case['all_ids'] != ('ok', list(range(off + 1, off + n + 1))):
        viol_cex(ctx, 'indices() is not enumerated in identifier order', descr, dict(ids=case['all_ids']), site, 'order')
    for j, (t, oid, olab) in enumerate(case['fwd']):
        want = off + 1 + j
        if oid != ('ok', want):
            viol_cex(ctx, 'index -> identifier is wrong for a legal index', descr, dict(index=t, got=list(oid), expected=want), site, 'to_id')
            break
        if j < len(mlabels) and olab != ('ok', mlabels[j]):
            problems.append(('label', t, olab, mlabels[j]))
    for lit, oidx, q, omem in case['back']:
        m = replies[q] if q is not None else None
        m = m[1] if isinstance(m, list) else None
        inside = off + 1 <= abs(lit) <= off + n
        if omem != ('ok', inside):
            viol_cex(ctx, '`lit in group` is wrong', descr, dict(lit=lit, got=list(omem), expected=inside), site, 'contains')
            break
        if oidx[0] == 'exc':
            viol_cex(ctx, 'to_index raised %s (only ValueError is allowed)' % oidx[1], descr, dict(lit=lit, got=list(oidx)), site, 'to_index-raises-' + oidx[1])
            break
        if inside:
            j = abs(lit) - off - 1
            want = case['indices'][1][j] if case['indices'][0] == 'ok' and j < len(case['indices'][1]) else None
            if oidx != ('ok', want):
                viol_cex(ctx, 'identifier -> index does not invert index -> identifier', descr, dict(lit=lit, got=list(oidx), expected=want), site, 'to_index')
                break
        elif oidx[0] == 'ok':
            viol_cex(ctx, 'to_index accepts a literal outside the group', descr, dict(lit=lit, got=list(oidx)), site, 'to_index-accepts')
            break
        got = oidx[1] if oidx[0] == 'ok' else None
        if q is not None and got != m:
            problems.append(('to_index', lit, list(oidx), m))
    for t, obs, q, how in case['probes']:
        m = replies[q]
        if how == 'call':
            m = m[1] if isinstance(m, list) else None
            if obs[0] == 'exc':
                viol_cex(ctx, 'index probe raised %s (only ValueError is allowed)' % obs[1], descr, dict(index=t, got=list(obs)), site, 'to_id-raises-' + obs[1])
                break
            got = obs[1] if obs[0] == 'ok' else None
        else:
            m = 'some' if isinstance(m, list) else None
            if obs[0] == 'exc':
                viol_cex(ctx, 'index probe raised %s (only ValueError is allowed)' % obs[1], descr, dict(index=t, got=list(obs)), site, 'indices-raises-' + obs[1])
                break
            got = 'some' if obs[0] == 'ok' else None
        ctx.count('probes', None, False)
        ctx.tally('probe verdict', 'rejected' if m is None else 'accepted')
        # the property itself: an accepted index is a legal index (for simple graphs up to the order of the end points)
        if how == 'call' and obs[0] == 'ok' and case['indices'][0] == 'ok':
            canon = sorted(t) if kind == 'graph' else list(t)
            legal = case['indices'][1]
            if canon not in legal:
                viol_cex(ctx, 'an index outside the domain of the group is accepted', descr, dict(index=t, got=obs[1], legal=legal[:20]), site, 'accepts-outside-domain')
                break
            if obs[1] != off + 1 + legal.index(canon):
                viol_cex(ctx, 'index -> identifier is wrong', descr, dict(index=t, got=obs[1], expected=off + 1 + legal.index(canon)), site, 'to_id')
                break
        if got != m:
            problems.append(('probe', t, list(obs), m))
    for p, oi, oc, q in case['patterns']:
        m = replies[q]
        ctx.count('patterns', None, False)
        if oi[0] == 'exc' or oc[0] == 'exc':
            bad = oi if oi[0] == 'exc' else oc
            viol_cex(ctx, 'pattern raised %s (only ValueError is allowed)' % bad[1], descr, dict(pattern=p, got=list(bad)), site, 'pattern-raises-' + bad[1])
            break
        if isinstance(m, list):
            mi, mid = m[1]
            mid = [x[1] if isinstance(x, list) else None for x in mid]
            if oi != ('ok', mi):
                problems.append(('pattern-indices', p, list(oi), mi))
            if kind == 'single':
                continue
            if oc != ('ok', mid):
                problems.append(('pattern-ids', p, list(oc), mid))
            # the property itself: ids of a pattern are increasing (order-preserving sub-enumeration)
            if oc[0] == 'ok' and any(a >= b for a, b in zip(oc[1], oc[1][1:])):
                viol_cex(ctx, 'a wildcard pattern is not enumerated in identifier order', descr, dict(pattern=p, ids=oc[1]), site, 'pattern-order')
        else:
            if oi[0] == 'ok':
                problems.append(('pattern-indices', p, list(oi), None))
            if kind != 'single' and oc[0] == 'ok':
                problems.append(('pattern-ids', p, list(oc), None))
    if problems:
        viol_corr(ctx, 'group %s differs from the model in: %s' % (kind, ', '.join(sorted({p[0] for p in problems}))), descr,
                  [list(map(str, p)) for p in problems[:6]], 'see implementation field', site, 'differs')


# --------------------------------------------------------------------------
# stream 2: histories
# --------------------------------------------------------------------------
def small_shape(rng):
    while True:
        sh = rand_shape(rng, 'quick')
        k = sh['kind']
        if k == 'block' and len(sh['ranges']) > 3:
            continue
        if k == 'words' and sh['n'] > 4:
            continue
        return sh


def rand_history(rng, tier):
    ops = []
    est = 0     # rough estimate of the variable count, to aim literals
    L = rng.choice([0, 1, 2, 3, 4, 5, 6, 8, 10, 12 if tier == 'quick' else 20])
    for _ in range(L):
        r = rng.random()
        if r < 0.45:
            sh = small_shape(rng) if rng.random() < 0.7 else dict(kind='single')
            pieces = rand_fmt(rng, arity_of(sh), allow_too_many=(sh['kind'] != 'binmap'))
            if sh['kind'] == 'single':
                pieces = [rng.choice(['X', 'Y', 'y_1', 'x1', 'x2', 'x4', 'a b', rand_piece(rng) or 'Z'])]
            ops.append(dict(op='new', shape=sh, pieces=pieces))
            est += 3
        elif r < 0.8:
            n = rng.choice([0, 1, 2, 3, 4])
            hi = max(1, est + rng.choice([0, 0, 0, 2, 5]))
            c = [rng.choice([1, -1]) * rng.randint(1, hi) for _ in range(n)]
            if c and rng.random() < 0.06:
                c[rng.randrange(len(c))] = 0
            chk = rng.random() < 0.55
            ops.append(dict(op='clause', lits=c, check=chk))
            if chk and c:
                est = max(est, max(abs(x) for x in c))
        else:
            k = rng.choice([0, 1, 2, 3, 5, est, est + 1, est + 4, -1 if rng.random() < 0.3 else 2])
            ops.append(dict(op='raise', k=k))
            est = max(est, k)
    return ops


def op_sx(o):
    if o['op'] == 'new':
        return [Sym('new'), group_sx(o['shape'], o['pieces'])]
    if o['op'] == 'clause':
        return [Sym('clause'), list(o['lits']), bool(o['check'])]
    return [Sym('raise'), o['k']]


def impl_clauses(F, cname):
    if cname == 'CNF':
        return [list(c) for c in F]
    out = []
    for c in F:
        out.append([l for (_, l) in c[:-2]])
    return out


def expected_names(F, groups, dflt):
    """name of variable i according to the property: label of its group for its index, else default name"""
    names = []
    for v in range(1, F.number_of_variables() + 1):
        name = dflt.format(v)
        for g in groups:
            if v in g:
                t = g.to_index(v)
                name = g.label(*t) if len(t) > 0 else (g.label() if hasattr(g, 'name') else next(iter(g.label())))
                break
        names.append(name)
    return names


def varname_lines(F, cname):
    out = io.StringIO()
    F.to_file(out, fileformat='dimacs' if cname == 'CNF' else 'opb', export_header=False, export_varnames=True)
    pre = 'c varname ' if cname == 'CNF' else '* varname x'
    names = []
    for ln in out.getvalue().split('\n'):
        if ln.startswith(pre):
            num, _, lab = ln[len(pre):].partition(' ')
            names.append((int(num), lab))
    return names


def run_histories(ctx, F_classes, ncases, given=None, rng=None, stream='histories'):
    rng = rng or ctx.rng
    hs = []
    reqs = []
    todo = list(given) if given is not None else [None] * ncases
    for hi, pre in enumerate(todo):
        ops = pre if pre is not None else rand_history(rng, ctx.tier)
        cname, C = F_classes[hi % 2]
        dflt_pieces = ['x', ''] if rng.random() < 0.7 else rand_fmt(rng, 1, allow_too_many=False)
        dflt = py_fmt(dflt_pieces)
        pfx = '' if stream == 'histories' else 'large: '
        ctx.tally(pfx + 'history length', len(ops))
        for o in ops:
            ctx.tally(pfx + 'history op', o['op'] + ('/checked' if o.get('check') else '') +
                      ('/' + o['shape']['kind'] if o['op'] == 'new' else ''))
        for flags in VARIANTS:
            reqs.append(cmd('history_run', flags[0], flags[1], flags[2], dflt_pieces, [op_sx(o) for o in ops]))
        # ---- implementation
        F = C()
        steps = []
        maxmention = 0
        side_ok = True            # every unchecked insertion so far had its literals in range
        rejected = False
        events = []
        for si, o in enumerate(ops):
            if o['op'] == 'new':
                try:
                    g = build_group(F, o['shape'], o['pieces'])
                    out = ['allocated', g.ids.start - 1]
                    if len(g) > 0 and g.ids.start <= maxmention and side_ok:
                        events.append(('reuse', si, g.ids.start, maxmention, rejected))
                except ValueError:
                    out = ['ValueError']
                except Exception as e:  # noqa
                    out = ['exc', exc_class(e), str(e)[:160]]
            elif o['op'] == 'clause':
                if not o['check'] and any(l == 0 or abs(l) > F.number_of_variables() for l in o['lits']):
                    side_ok = False
                try:
                    F.add_clause(list(o['lits']), check=o['check'])
                    out = ['done']
                except ValueError:
                    out = ['ValueError']
                    rejected = True
                except Exception as e:  # noqa
                    out = ['exc', exc_class(e), str(e)[:160]]
            else:
                try:
                    F.update_variable_number(o['k'])
                    out = ['done']
                except ValueError:
                    out = ['ValueError']
                except Exception as e:  # noqa
                    out = ['exc', exc_class(e), str(e)[:160]]
            cl = impl_clauses(F, cname)
            maxmention = max([maxmention] + [abs(l) for c in cl for l in c])
            labels = observe(lambda: list(F.all_variable_labels(default_label_format=dflt)))
            want = observe(lambda: expected_names(F, F._groups, dflt))
            steps.append(dict(out=out, numvar=F.number_of_variables(), offsets=[g.ids.start - 1 for g in F._groups],
                              labels=labels, want=want, clauses=cl))
        vn = observe(lambda: varname_lines(F, cname))
        dl = observe(lambda: list(F.all_variable_labels()))
        # the same unchanged object asked again with other default formats (what a second writer does: DIMACS varname lines use the
        # default of the signature, LaTeX its own): every request must name variable i by the format of THAT request
        import inspect as _inspect
        sig_default = _inspect.signature(F.all_variable_labels).parameters['default_label_format'].default
        again = []
        for fmt in (sig_default, 'q<{}>', dflt):
            again.append((fmt, observe(lambda fmt=fmt: list(F.all_variable_labels(default_label_format=fmt))),
                          observe(lambda fmt=fmt: expected_names(F, F._groups, fmt))))
        hs.append(dict(descr=dict(cls=cname, default_label_format=dflt, ops=ops), steps=steps, events=events, varnames=vn, default_labels=dl, again=again,
                       nops=len(ops), stream=stream))
    replies = ctx.model.batch(reqs)
    nv = len(VARIANTS)
    for i, h in enumerate(hs):
        compare_history(ctx, h, replies[nv * i:nv * i + nv])


def shrink_ops_for_labels(descr, upto):
    d = dict(descr)
    d['ops'] = descr['ops'][:upto + 1]
    return d


def compare_history(ctx, h, reps):
    rep = reps[0]
    descr = h['descr']
    key = (descr['cls'], str(descr['ops']), descr['default_label_format'])
    ctx.count(h.get('stream', 'histories') + '-' + descr['cls'], key, h['nops'] >= 2, sample=descr)
    if is_error(rep):
        ctx.violation('correspondence', 'model error', dict(input=descr, model=rep), False, site='model-error', cls='history')
        return
    # the property itself, on the implementation
    for ev in h['events']:
        _, si, begin, mx, rejected = ev
        viol_cex(ctx, 'a new group got identifier %d although an earlier clause mentions variable %d' % (begin, mx),
                 shrink_ops_for_labels(descr, si), dict(first_new_id=begin, largest_mentioned=mx), 'add_clause',
                 'rejected-clause-kept' if rejected else 'reuse')
    reported_labels = False
    for si, st in enumerate(h['steps']):
        if st['out'][0] == 'exc':
            o = descr['ops'][si]
            if o['op'] == 'new' and o['shape'].get('wordtype') == 'combinations_with_replacement' and st['out'][1] == 'UnboundLocalError':
                viol_cex(ctx, 'new_combinations_with_replacement cannot create its group: UnboundLocalError', shrink_ops_for_labels(descr, si),
                         st['out'], 'new_combinations_with_replacement', 'raises-UnboundLocalError')
            else:
                viol_cex(ctx, 'operation raised %s' % st['out'][1], shrink_ops_for_labels(descr, si), st['out'], 'history-' + o['op'],
                         'raises-' + st['out'][1])
        if reported_labels:
            continue
        if st['labels'][0] != 'ok':
            viol_cex(ctx, 'all_variable_labels raised', shrink_ops_for_labels(descr, si), list(st['labels']), 'all_variable_labels', 'raises')
            reported_labels = True
        elif st['want'][0] == 'ok' and st['labels'][1] != st['want'][1]:
            labs, want = st['labels'][1], st['want'][1]
            # classify: a singleton group created after anonymous variables?
            cls = 'other'
            if len(labs) == len(want):
                cls = 'singleton-after-gap'
            viol_cex(ctx, 'the i-th reported name is not the name of variable i', shrink_ops_for_labels(descr, si),
                     dict(reported=labs, names_of_variables=want), 'all_variable_labels', cls)
            reported_labels = True
        if st['labels'][0] == 'ok' and len(st['labels'][1]) != st['numvar']:
            viol_cex(ctx, 'the number of reported names is not the number of variables', shrink_ops_for_labels(descr, si),
                     dict(reported=st['labels'][1], numvar=st['numvar']), 'all_variable_labels', 'length')
    if h['varnames'][0] == 'ok' and h['steps']:
        last = h['steps'][-1]
        if h['default_labels'][0] == 'ok' and h['varnames'][1] != list(enumerate(h['default_labels'][1], start=1)) \
                and not any('\n' in s for s in h['default_labels'][1]):
            viol_cex(ctx, 'the varname lines of the output differ from all_variable_labels', descr,
                     dict(lines=h['varnames'][1], labels=h['default_labels'][1]), 'varnames', 'differs')
    elif h['varnames'][0] == 'exc':
        viol_cex(ctx, 'writing the varname lines raised %s' % h['varnames'][1], descr, list(h['varnames']), 'varnames', 'raises')
    if not reported_labels:
        for fmt, got, want in h.get('again', ()):
            if got[0] == 'ok' and want[0] == 'ok' and got[1] != want[1]:
                viol_cex(ctx, 'names requested again from the unchanged formula with default_label_format=%r are not the names of the '
                              'variables under that format (earlier requests used %r and the default)' % (fmt, descr['default_label_format']),
                         descr, dict(reported=got[1], names_of_variables=want[1], default_label_format=fmt), 'all_variable_labels', 'second-request')
                break
    # correspondence with the model, step by step
    # the code as it is first; a tree in which some of the known defects (D2, D3, D34) are repaired agrees with
    # the corresponding model variant and raises no alarm
    first = None
    for r in reps:
        diff = history_diff(h, r)
        if diff is None:
            return
        if first is None:
            first = diff
    ctx.disagreements_checked += 1
    si, field, got, want = first
    ctx.violation('correspondence', 'history step %d: %s differs from the model (coq/Vars.v step/all_variable_labels); '
                  'theorems C11_history_* / C10 freshness no longer cover the code' % (si, field),
                  dict(input=shrink_ops_for_labels(descr, si), field=field, implementation=got, model=want,
                       correspondence='Vars.v step <-> VariablesManager/BaseCNF/BaseOPB'), False, site='history', cls=field)


def history_diff(h, rep):
    if is_error(rep) or len(rep) != len(h['steps']):
        return (0, 'length', len(h['steps']), str(rep)[:100])
    for si, (st, m) in enumerate(zip(h['steps'], rep)):
        mout, mnum, moffs, mlabels, mwant, mclauses = m
        mo = [str(mout[0])] + list(mout[1:])
        io_ = st['out']
        if io_[0] == 'exc':
            io_ = ['Crash'] if io_[1] == 'UnboundLocalError' else io_
        if io_ != mo:
            return (si, 'outcome', st['out'], mo)
        if st['numvar'] != mnum:
            return (si, 'numvar', st['numvar'], mnum)
        if st['offsets'] != moffs:
            return (si, 'offsets', st['offsets'], moffs)
        if st['clauses'] != mclauses:
            return (si, 'clauses', st['clauses'], mclauses)
        if st['labels'] != ('ok', mlabels):
            return (si, 'labels', list(st['labels']), mlabels)
        if st['want'] != ('ok', mwant):
            return (si, 'names-of-variables', list(st['want']), mwant)
    return None


# --------------------------------------------------------------------------
def run_bitlength(ctx, CNF):
    """number of bits of a binary mapping = exact ceil(log2 m) (the code goes through floating point)"""
    ms = sorted({m for k in range(0, 13 if ctx.tier == 'quick' else 16) for m in (2 ** k - 1, 2 ** k, 2 ** k + 1) if m >= 1} | set(range(1, 70)))
    replies = ctx.model.batch([cmd('bitlength', m) for m in ms])
    for m, rep in zip(ms, replies):
        F = CNF()
        f = F.new_binary_mapping(1, m)
        ctx.count('bitlength', m, True, sample=dict(m=m))
        if f.bits() != rep or len(f) != rep:
            viol_cex(ctx, 'a binary mapping into %d values uses %d bits, not ceil(log2 m) = %d' % (m, f.bits(), rep),
                     dict(n=1, m=m), dict(bits=f.bits(), size=len(f)), 'group-binmap', 'bitlength')


def fixed_cases(ctx, F_classes):
    """the two inputs of DESIGN D2 / D3 and the doctest shapes, always run"""
    hs = [
        [dict(op='raise', k=3), dict(op='new', shape=dict(kind='single'), pieces=['X'])],
        [dict(op='new', shape=dict(kind='words', wordtype='combinations_with_replacement', n=3, k=2), pieces=['p_{', '}'])],
        [dict(op='clause', lits=[7, 0], check=True), dict(op='new', shape=dict(kind='single'), pieces=['Y'])],
        [dict(op='new', shape=dict(kind='single'), pieces=['X']), dict(op='new', shape=dict(kind='single'), pieces=['Y']),
         dict(op='new', shape=dict(kind='block', ranges=[2, 3]), pieces=['z_{', ',', '}'])],
        [dict(op='clause', lits=[1, 3, -4], check=False), dict(op='new', shape=dict(kind='umap', n=2, m=2), pieces=['f(', ')=', ''])],
    ]
    return hs


# --------------------------------------------------------------------------
# large corpus: thresholds, hubs, out-of-order insertion, identifiers beyond 256
# --------------------------------------------------------------------------
BIG_OFFSETS = [255, 256, 257, 258, 300, 1000]


def hub_shape(rng, kind, n, D, sparse=30, flip=None):
    """edges of a graph with a hub of degree D on either side, listed in random (non sorted) order -- the order in which
    build_group inserts them before the group is created.  Returns (shape, wildcard patterns through the hubs)"""
    verts = list(range(1, n + 1))
    hu, hv = rng.choice([1, 2, n // 2, n]), rng.choice([1, 3, n // 2 + 1, n])
    if flip is not None:        # hubs at either end of the numbering, on either side
        low, high = rng.choice([1, 2, 3]), rng.choice([n - 2, n - 1, n])
        hu, hv = (low, high) if flip else (high, low)
    if kind == 'graph':
        edges = {(min(hu, w), max(hu, w)) for w in rng.sample([x for x in verts if x != hu], D)}
        while len(edges) < D + sparse:
            u, v = rng.sample(verts, 2)
            edges.add((min(u, v), max(u, v)))
        hv = hu
    else:
        edges = {(hu, w) for w in rng.sample(verts, D)} | {(w, hv) for w in rng.sample(verts, D)}
        target = len(edges) + sparse
        while len(edges) < target:
            edges.add((rng.choice(verts), rng.choice(verts)))
    order = [list(e) for e in edges]
    rng.shuffle(order)
    if kind in ('bip', 'sparse'):
        sh = dict(kind=kind, L=n, R=n, edges=order)
    elif kind == 'graph':
        sh = dict(kind='graph', n=n, edges=order)
    else:
        sh = dict(kind='di', n=n, edges=order, sortby=rng.choice(['pred', 'succ']))
    some = rng.choice(order)
    pats = [[hu, None], [None, hv], [None, hu], [hv, None], [some[0], None], [None, some[1]], [None, None], [n, None], [None, n],
            [n + 1, None], [None, 0]]
    return sh, pats


def dense_ids(off, n, period):
    """identifiers of a large group about which the model is asked: both ends, every threshold (as a position in the group
    and as an absolute identifier), both sides of every row boundary"""
    pos = {0, n - 1}
    for t in (16, 64, 128, 129, 256, 257, 300, 512, 1000, 1024):
        pos |= {t - 2, t - 1, t, t + 1}
        pos |= {t - off - 2, t - off - 1, t - off, t - off + 1}
    if period and period > 0:
        for k in range(0, n + 1, period):
            pos |= {k - 2, k - 1, k, k + 1}
    return {off + 1 + j for j in pos if 0 <= j < n}


def large_group_cases(rng, tier):
    quick = tier == 'quick'
    out = []

    def off():
        return rng.choice(BIG_OFFSETS)
    for (n, m) in [(2, 128), (2, 129), (3, 130), (1, 300), (1, 257)] + ([] if quick else [(1, 128), (4, 129), (2, 300), (3, 300), (129, 2), (257, 1), (17, 16)]):
        out.append((dict(kind='umap', n=n, m=m), off(), [[1, None], [None, m], [None, 128], [None, 129], [n, None], [None, m + 1]]))
    out.append((dict(kind='umap', n=2, m=129), 0, [[2, None], [None, 129]]))
    for rep in range(1 if quick else 4):
        for ki, kind in enumerate(('bip', 'sparse', 'graph', 'di', 'di')):
            n = rng.choice([135, 150, 200, 300])
            sh, pats = hub_shape(rng, kind, n, rng.choice([129, 130]), flip=(ki + rep) % 2 == 0)
            out.append((sh, off() if rng.random() < 0.8 else 0, pats))
        sh, pats = hub_shape(rng, rng.choice(['bip', 'sparse', 'graph', 'di']), rng.choice([20, 70]), 17, sparse=5)
        out.append((sh, off(), pats))
    for o in BIG_OFFSETS:
        out.append((dict(kind='single'), o, []))
    blocks = [[257], [2, 129], [129, 2], [16, 17], [17, 16], [3, 5, 17], [4, 64], [257, 1], [128], [2, 2, 65]]
    words = [('combinations', 17, 2), ('permutations', 17, 2), ('words', 17, 2), ('words', 2, 8), ('combinations_with_replacement', 16, 2),
             ('combinations', 257, 1), ('permutations', 16, 2), ('combinations', 9, 3), ('words', 16, 2)]
    bins = [(1, 257), (2, 1025), (33, 5), (129, 2), (17, 16), (17, 17), (3, 256), (1, 1000)]
    for rs in (rng.sample(blocks, 4) if quick else blocks):
        out.append((dict(kind='block', ranges=rs), off(), [[None] * (len(rs) - 1) + [rs[-1]], [rs[0]] + [None] * (len(rs) - 1)]))
    for (wk, n, k) in (rng.sample(words, 4) if quick else words):
        out.append((dict(kind='words', wordtype=wk, n=n, k=k), off(), [[n] + [None] * (k - 1), [None] * (k - 1) + [n]]))
    for (n, m) in (rng.sample(bins, 3) if quick else bins):
        out.append((dict(kind='binmap', n=n, m=m), off(), [[n, None], [None, 0]]))
    return out


def large_histories(rng, tier):
    single = lambda nm: dict(op='new', shape=dict(kind='single'), pieces=[nm])       # noqa
    hs = [
        [dict(op='raise', k=256), single('X'), single('Y'), dict(op='clause', lits=[257, -258], check=True), dict(op='raise', k=300),
         single('Z'), dict(op='new', shape=dict(kind='block', ranges=[2, 129]), pieces=['b_{', ',', '}']), single('W')],
        [dict(op='raise', k=255), single('A'), single('B'), single('C'), dict(op='clause', lits=[-256, 257, 258], check=True)],
        [dict(op='raise', k=257), single('X')],
        [dict(op='new', shape=dict(kind='umap', n=1, m=65), pieces=['f(', ')=', '']), single('Y'), dict(op='clause', lits=[66, -1], check=True),
         dict(op='raise', k=300), single('Z')],
        [dict(op='clause', lits=[300, -2], check=False), single('X'), dict(op='new', shape=dict(kind='block', ranges=[257]), pieces=['y_', ''])],
        [dict(op='new', shape=dict(kind='block', ranges=[256]), pieces=['y_', '']), single('X'), single('Y'), dict(op='raise', k=513), single('Z')],
    ]
    for _ in range(2 if tier == 'quick' else 12):
        sh, _p = hub_shape(rng, rng.choice(['bip', 'sparse', 'graph']), rng.choice([135, 150]), 129, sparse=10)   # (di: the model's labels need ~25 s)
        hs.append([dict(op='raise', k=rng.choice([0, 255, 256, 257])), dict(op='new', shape=sh, pieces=['e(', ',', ')']), single('S'),
                   dict(op='clause', lits=[rng.choice([1, 256, 257, 300]), -rng.choice([129, 258])], check=True), single('T')])
    return hs


def run(ctx):
    import_impl()
    from cnfgen.formula.cnf import CNF
    from cnfgen.formula.opb import OPB
    F_classes = [('CNF', CNF), ('OPB', OPB)]
    quick = ctx.tier == 'quick'
    # ---- large corpus first (its own generator derived from the seed: the streams below keep their sequence)
    lrng = random.Random('%d-c11-large' % ctx.seed)
    big = large_group_cases(lrng, ctx.tier)
    run_groups(ctx, F_classes, 0, given=big, rng=lrng, stream='groups-large')
    if not quick:
        run_groups(ctx, F_classes[::-1], 0, given=big, rng=lrng, stream='groups-large')
    lh = large_histories(lrng, ctx.tier)
    run_histories(ctx, F_classes, 0, given=lh if quick else [h for h in lh for _ in (0, 1)], rng=lrng, stream='histories-large')
    run_groups(ctx, F_classes, 2400 if quick else 24000)
    run_bitlength(ctx, CNF)
    run_histories(ctx, F_classes, 0, given=[h for h in fixed_cases(ctx, F_classes) for _ in (0, 1)])
    run_histories(ctx, F_classes, 3000 if quick else 30000)
    ctx.exhaustive = False
