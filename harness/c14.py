"""C14 -- graph files round-trip in every supported format; bad files are rejected.

Correspondence between cnfgen/graphs.py (readGraph, writeGraph, the in-house kthlist /
dimacs / matrix readers and writers, normalize_networkx_labels + from_networkx) and the
extracted Coq model coq/GraphIO.v + coq/GText.v.

Streams
  primitives   int(), str.split(), str.strip(), readlines(), split(':'), str(int) on latin-1 strings
  roundtrip    every graph <= 4 vertices (3 for general digraphs) + random graphs up to 30 vertices,
               x every format valid for the type: text written by cnfgen == text written by the model
               (in-house formats); cnfgen reads its own text back to the SAME graph (the property);
               model reader == cnfgen reader; for gml/dot (networkx/pydot are not modelled) the graph
               read back is compared with the model of cnfgen's own step (label sorting + from_networkx)
  mutation     one mutation of a valid file; verdict (graph | exception class) of cnfgen == model;
               an exception other than ValueError, or an accepted graph that is not the one the text
               describes (independent token-level parser below), is a failing input
  random-text  random texts over the alphabet of the formats
  labels       hand-written dot and gml files whose node labels are not 1..n (gaps, any order, ten or more, leading zeros,
               non-numeric names): pydot / networkx parse the file (oracle), cnfgen's own step after them (int() relabelling of
               dot labels, label sorting, from_networkx) is the model gio_dot_normalize / gio_from_nx / gio_bip_from_nx
  bad-format   formats that are not valid for the graph type
  cli          graph argument "<format> <file>", "<file>" (extension) and "save" of the command line
Run first, as a corpus (notes/LARGE_STREAMS.md):
  huge         more than 65536 / 131072 vertices or edges, a vertex of degree 30000, matrix rows and names of more than
               65536 characters, by file name / extension / file object / StringIO.  The model's readers are quadratic:
               the statement is checked directly (read back = written graph; the text, read token by token, describes it)
  thresholds   vertex numbers, degrees, edge counts, name lengths at 15..1025 (gml / dot at 16, 17, 256, 257); reader texts
  shapes       empty sides, isolated vertices, dense graphs, graph OBJECTS from every public constructor / generator /
               conversion (CompleteBipartiteGraph overrides its views), file names with and without a usable extension
               (autodetect), destinations without a name, graph names outside ASCII (also in a C-locale process)
  history      one graph object edited through its API (edges in any order, removals, vertex count raised by several) and
               written after each batch of edits; files read back and edited further
"""
import io
import itertools
import os
import re
import signal
import tempfile

from lib import cmd, outcome, is_error, import_impl, Sym

META = dict(
    technique='Coq theorems on a character-level model of the kthlist/dimacs/matrix readers and writers (write->read identity, '
              'reader soundness, dag acceptance, label-sorting lemma) + extracted-model differential check on texts and graphs',
    category='proof',
    text='Machine-checked theorems state, for every graph of each type and every name without line breaks, that the text the model '
         'writes in kthlist, dimacs and matrix format is read back to the same vertex count, left/right split and edge set, that '
         'every accepted text describes the returned graph, that every reader answers a graph or ValueError on EVERY text, and that a '
         'dag is accepted exactly when all edges increase; the model follows the current code, the four repaired defects are kept as '
         '_as_found_refuted witnesses on the model of the code as found. The model is tied to the code by comparing written texts character by '
         'character and reader verdicts (graph or exception class) on valid, mutated and random texts. gml/dot: networkx and pydot '
         'are an unmodelled oracle; only cnfgen\'s own step after them (int() relabelling of dot labels, label sorting, from_networkx) is '
         'modelled, with an identity theorem for every size, and the round trip is checked at run time.',
    note='Trusted: Coq kernel, extraction, OCaml driver, the harness, networkx/pydot. The model is hand-written; agreement with the '
         'code is checked only on the inputs the run enumerates. Texts are restricted to latin-1; int() beyond 4300 digits not modelled.',
    design_ref='5/C14',
)
RULE = ('one case = one (stream, graph/text, type, format) evaluation; non-trivial when the graph has a vertex or the text is not '
        'empty; distinct = distinct (stream, type, format, text-or-graph) keys')
TRUSTED = ['networkx 3.x and pydot for gml/dot (oracle, results inspected at run time)',
           'graph objects abstracted to (orders, sorted edge list): internals are property C16']

INHOUSE = ('kthlist', 'dimacs', 'matrix')
TYPES = ('simple', 'digraph', 'dag', 'bipartite')
KIND = {'simple': 'simple', 'digraph': 'directed', 'dag': 'directed', 'bipartite': 'bipartite'}


# --------------------------------------------------------------------------
# implementation side
# --------------------------------------------------------------------------
def mk_graph(G, ty, n, r, edges, name):
    if ty == 'bipartite':
        g = G.BipartiteGraph(n, r) if name is None else G.BipartiteGraph(n, r, name)
    elif ty == 'simple':
        g = G.Graph(n) if name is None else G.Graph(n, name)
    else:
        g = G.DirectedGraph(n) if name is None else G.DirectedGraph(n, name)
    for (u, v) in edges:
        g.add_edge(u, v)
    return g


def canon(g):
    """(kind, name, n, r, edges in iteration order)"""
    if g.is_bipartite():
        return ['bipartite', g.name, g.left_order(), g.right_order(), [list(e) for e in g.edges()]]
    if g.is_directed():
        return ['directed', g.name, g.number_of_vertices(), 0, [list(e) for e in g.edges()]]
    return ['simple', g.name, g.number_of_vertices(), 0, [list(e) for e in g.edges()]]


def impl_write(G, g, ty, fmt):
    out = io.StringIO()
    G.writeGraph(g, out, ty, fmt)
    return out.getvalue()


class ReaderTimeout(BaseException):
    pass


def _on_alarm(signum, frame):
    raise ReaderTimeout()


def impl_read(G, text, ty, fmt, limit=60):
    """('ok', canon) | ('exc', class name, message); a reader that does not return within `limit` seconds is
    reported as the exception class 'Timeout' (a failing input of its own) instead of hanging the check"""
    old = signal.signal(signal.SIGALRM, _on_alarm)
    signal.alarm(limit)
    try:
        g = G.readGraph(io.StringIO(text), ty, fmt)
        return ('ok', canon(g))
    except ReaderTimeout:
        return ('exc', 'Timeout', 'readGraph did not return within %d s' % limit)
    except Exception as e:  # noqa
        return ('exc', type(e).__name__, str(e)[:160])
    finally:
        signal.alarm(0)
        signal.signal(signal.SIGALRM, old)


def model_outcome(rep):
    """reply of gio_read -> ('ok', canon) | ('exc', class)"""
    if rep[0] == 'ok':
        k, nm, n, r, es = rep[1]
        return ('ok', [str(k), nm, n, r, [list(e) for e in es]])
    return ('exc', rep[1])


def dag_filter(ty, mod):
    """readGraph's test after any reader: a 'dag' must have increasing edges only"""
    if ty == 'dag' and mod[0] == 'ok' and any(u >= v for u, v in mod[1][4]):
        return ('exc', 'ValueError')
    return mod


def same_graph(a, b, names=True):
    if names:
        return a == b
    return a[0] == b[0] and a[2:] == b[2:]


# --------------------------------------------------------------------------
# independent token-level description of what a text says (used only to decide whether a
# disagreement / an accepted text is a failing input of the PROPERTY)
# --------------------------------------------------------------------------
_INT = re.compile(r'^[+-]?[0-9]+(_[0-9]+)*$')


def described(text, ty, fmt):
    """(n, r, edge set) the text describes under a lenient reading, or None when it describes none.
    bipartite kthlist: L is the largest listed left vertex."""
    try:
        if fmt == 'kthlist':
            n = None
            adj = []
            for ln in text.split('\n'):
                if ln.startswith('c') or not ln.strip():
                    continue
                if ':' not in ln:
                    if n is not None or not _INT.match(ln.strip()):
                        return None
                    n = int(ln.strip())
                    continue
                a, b = ln.split(':')
                toks = b.split()
                if n is None or not _INT.match(a.strip()) or not toks or any(not _INT.match(t) for t in toks) or int(toks[-1]) != 0:
                    return None
                adj.append((int(a), [int(t) for t in toks[:-1]]))
            if n is None:
                return None
            if ty == 'bipartite':
                L = max([a for a, _ in adj], default=0)
                return (L, n - L, {(a, v - L) for a, vs in adj for v in vs})
            if ty == 'simple':
                return (n, 0, {(min(u, a), max(u, a)) for a, vs in adj for u in vs})
            return (n, 0, {(u, a) for a, vs in adj for u in vs})
        if fmt == 'dimacs':
            n = m = None
            es = set()
            cnt = 0
            for ln in text.split('\n'):
                t = ln.split()
                if not t:
                    continue
                if t[0][0] == 'p':
                    if n is not None or t[1] != 'edge' or len(t) != 4:
                        return None
                    n, m = int(t[2]), int(t[3])
                elif t[0][0] == 'e':
                    if n is None or len(t) != 3:
                        return None
                    u, v = int(t[1]), int(t[2])
                    cnt += 1
                    es.add((min(u, v), max(u, v)) if ty == 'simple' else (u, v))
            return None if (n is None or cnt != m) else (n, 0, es)
        if fmt == 'matrix':
            toks = []
            for ln in text.split('\n'):
                t = ln.split()
                if not t or t[0][0] == '#':
                    continue
                toks += [int(x) for x in t]
            n, m = toks[0], toks[1]
            ent = toks[2:]
            if len(ent) != n * m or any(b not in (0, 1) for b in ent):
                return None
            return (n, m, {(k // m + 1, k % m + 1) for k in range(n * m) if ent[k] == 1})
    except Exception:  # noqa
        return None
    return None


def kth_lefts(text):
    out = []
    for l in text.split('\n'):
        if ':' in l and not l.startswith('c'):
            try:
                out.append(int(l.split(':')[0]))
            except ValueError:
                pass
    return out


def consistent(text, ty, fmt, cg):
    """does the accepted graph cg (canon) agree with what the text describes?"""
    d = described(text, ty, fmt)
    if d is None:
        return False
    n, r, es = d
    if ty == 'dag' and any(u >= v for u, v in es):
        return False          # a file declared acyclic may only have increasing edges
    if any(not (1 <= u <= n and 1 <= v <= (r if ty == 'bipartite' else n)) for u, v in es) or (ty == 'simple' and any(u == v for u, v in es)):
        return False
    return cg[2] == n and cg[3] == r and {tuple(e) for e in cg[4]} == es


# --------------------------------------------------------------------------
# generators
# --------------------------------------------------------------------------
def all_small_graphs(ty, quick):
    out = []
    if ty == 'bipartite':
        for L in range(0, 5):
            for R in range(0, 5 - L):
                cells = [(u, v) for u in range(1, L + 1) for v in range(1, R + 1)]
                for bits in range(1 << len(cells)):
                    out.append((L, R, [c for i, c in enumerate(cells) if (bits >> i) & 1]))
        return out
    maxn = 4 if ty in ('simple', 'dag') else 3
    for n in range(0, maxn + 1):
        if ty == 'digraph':
            cells = [(u, v) for u in range(1, n + 1) for v in range(1, n + 1)]
        else:
            cells = [(u, v) for u in range(1, n + 1) for v in range(u + 1, n + 1)]
        for bits in range(1 << len(cells)):
            if quick and ty == 'digraph' and n == 3 and bits % 4 != 1:
                continue
            out.append((n, 0, [c for i, c in enumerate(cells) if (bits >> i) & 1]))
    return out


def random_graph(rng, ty, maxn=30):
    if ty == 'bipartite':
        L, R = rng.randint(0, maxn // 2), rng.randint(0, maxn // 2)
        if rng.random() < 0.3:
            L = rng.randint(10, maxn // 2 + 5)
        p = rng.choice([0.0, 0.1, 0.3, 0.6, 1.0])
        es = [(u, v) for u in range(1, L + 1) for v in range(1, R + 1) if rng.random() < p]
        rng.shuffle(es)
        return (L, R, es)
    n = rng.randint(0, maxn)
    if rng.random() < 0.4:
        n = rng.randint(10, maxn)
    p = rng.choice([0.0, 0.05, 0.2, 0.5, 1.0])
    if ty == 'digraph':
        es = [(u, v) for u in range(1, n + 1) for v in range(1, n + 1) if rng.random() < p * (0.3 if u == v else 1)]
    else:
        es = [(u, v) for u in range(1, n + 1) for v in range(u + 1, n + 1) if rng.random() < p]
        if ty == 'simple':
            es = [e if rng.random() < 0.5 else (e[1], e[0]) for e in es]
    rng.shuffle(es)
    return (n, 0, es)


NAMES = [None, '', 'G', 'a graph  with  spaces', 'hello\n', ' padded ', 'c p e 1 : 0', 'tab\there', 'x' * 40]

JUNK = ['x', '1x', '-', ':', '#', '+3', '1_0', '0', '-1', '1.0', 'e', 'p', 'c', '\xa0', '\xb2', '1:', '_1']


def mutate(rng, text, fmt, n_hint):
    """one mutation; returns (kind, new text)"""
    lines = text.split('\n')
    body = [i for i, l in enumerate(lines) if l.strip()]
    kind = rng.choice(['drop-token', 'junk-token', 'wrong-count', 'out-of-range', 'blank-line', 'comment-line',
                       'truncate', 'dup-line', 'swap-lines', 'crlf', 'ws-line', 'glue',
                       'comment-odd', 'mixed-eol', 'big-number', 'dup-edge', 'self-loop'])

    def pick_line(pred=lambda l: True):
        c = [i for i in body if pred(lines[i])]
        return rng.choice(c) if c else None
    if kind == 'drop-token':
        i = pick_line()
        if i is None:
            return kind, text
        t = lines[i].split(' ')
        t.pop(rng.randrange(len(t)))
        lines[i] = ' '.join(t)
    elif kind == 'junk-token':
        i = pick_line()
        if i is None:
            return kind, rng.choice(JUNK)
        t = lines[i].split(' ')
        j = rng.choice(JUNK)
        if rng.random() < 0.5:
            t.insert(rng.randrange(len(t) + 1), j)
        else:
            t[rng.randrange(len(t))] = j
        lines[i] = ' '.join(t)
    elif kind == 'wrong-count':
        i = pick_line(lambda l: not l.startswith('c') and not l.startswith('e') and ':' not in l)
        if i is None:
            return kind, text
        t = lines[i].split(' ')
        nums = [k for k, x in enumerate(t) if x.isdigit()]
        if nums:
            k = rng.choice(nums)
            t[k] = str(max(0, int(t[k]) + rng.choice([-2, -1, 1, 2])) if rng.random() < 0.8 else -int(t[k]) - 1)
        lines[i] = ' '.join(t)
    elif kind == 'out-of-range':
        i = pick_line(lambda l: l.startswith('e') or ':' in l or fmt == 'matrix')
        if i is None:
            return kind, text
        t = lines[i].split(' ')
        nums = [k for k, x in enumerate(t) if x.isdigit()]
        if nums:
            k = rng.choice(nums)
            t[k] = str(rng.choice([0, n_hint + 1, -1, n_hint + 7, 2, n_hint]))
        lines[i] = ' '.join(t)
    elif kind == 'blank-line':
        lines.insert(rng.randrange(len(lines) + 1), '')
    elif kind == 'ws-line':
        lines.insert(rng.randrange(len(lines) + 1), rng.choice([' ', '\t', '  \t ', '\x0c', '\x1c']))
    elif kind == 'comment-line':
        lines.insert(rng.randrange(len(lines) + 1), rng.choice(['c a comment', '# a comment', 'c', '#', 'c 5', ' c indented', 'cx', '% x']))
    elif kind == 'truncate':
        return kind, text[:rng.randrange(len(text) + 1)]
    elif kind == 'dup-line':
        i = pick_line()
        if i is None:
            return kind, text
        dup = lines[i]
        if rng.random() < 0.5:      # same first token, different rest (a vertex listed twice)
            t = dup.split(' ')
            if len(t) > 3:
                t.pop(rng.randrange(2, len(t) - 1))
            elif ':' in dup and n_hint > 0:
                t.insert(2, str(n_hint))
            dup = ' '.join(t)
        lines.insert(rng.randrange(i + 1, len(lines) + 1) if rng.random() < 0.7 else rng.randrange(len(lines) + 1), dup)
    elif kind == 'swap-lines':
        if len(body) >= 2:
            i, j = rng.sample(body, 2)
            lines[i], lines[j] = lines[j], lines[i]
    elif kind == 'crlf':
        return kind, text.replace('\n', '\r\n')
    elif kind == 'glue':
        i = pick_line()
        if i is not None and i + 1 < len(lines):
            lines[i] = lines[i] + rng.choice([' ', '']) + lines.pop(i + 1)
    elif kind == 'comment-odd':
        # comments where a reader may not expect them: between rows, looking like data, at the end of a data line
        how = rng.choice(['data-like', 'data-like', 'inline', 'before-size', 'last'])
        mark = '#' if fmt == 'matrix' else 'c'
        if how == 'inline':
            i = pick_line()
            if i is not None:
                lines[i] = lines[i] + rng.choice([' ', '\t', '']) + mark + rng.choice(['', ' x', ' 1 2'])
        else:
            c = mark + rng.choice([' 1 : 2 0', ' p edge 3 2', ' e 1 2', ' 3', ' 0 1 0', '\t', mark, ':', ' c', ' ' + str(n_hint)])
            pos = {'data-like': rng.randrange(len(lines) + 1), 'before-size': 0, 'last': len(lines)}[how]
            lines.insert(pos, c)
    elif kind == 'mixed-eol':
        # some lines end with \r\n, some with \n, a lone \r inside a line, a line made of \r only
        out = []
        for l in lines:
            r = rng.random()
            out.append(l + '\r' if r < 0.4 else (l.replace(' ', ' \r', 1) if r < 0.5 else l))
        if rng.random() < 0.3:
            out.insert(rng.randrange(len(out) + 1), '\r')
        return kind, '\n'.join(out)
    elif kind == 'big-number':
        # a vertex number (or the declared size) far beyond the graph; sizes stay small enough to be allocated
        # (the readers allocate / loop over the declared size: "p edge 10**12 0" needs terabytes and the matrix
        #  "10**18 0" loops for ever; such sizes are a resource question, not a parse question, and are not generated)
        i = pick_line(lambda l: not l.startswith('c') and not l.startswith('#'))
        if i is None or (fmt == 'matrix' and body and i == body[0]):
            return kind, text
        t = lines[i].split(' ')
        nums = [k for k, x in enumerate(t) if x.isdigit()]
        if nums:
            k = rng.choice(nums)
            is_size = (fmt == 'kthlist' and ':' not in lines[i]) or (fmt == 'dimacs' and lines[i].startswith('p') and k == 2)
            big = rng.choice([10 ** 18 + 7, 2 ** 64, 10 ** 30, 123456789012345678901234567890])
            t[k] = str(rng.choice([20000, 65536, 99999]) if is_size else big)
        lines[i] = ' '.join(t)
    elif kind == 'dup-edge':
        # the same edge twice (dimacs: the edge count is adjusted half of the time; kthlist: a neighbour repeated in a row)
        if fmt == 'dimacs':
            i = pick_line(lambda l: l.startswith('e'))
            if i is None:
                return kind, text
            t = lines[i].split(' ')
            lines.insert(rng.randrange(i, len(lines) + 1), lines[i] if rng.random() < 0.5 or len(t) != 3 else 'e %s %s' % (t[2], t[1]))
            if rng.random() < 0.5:
                for j, l in enumerate(lines):
                    tp = l.split(' ')
                    if l.startswith('p') and len(tp) == 4 and tp[3].isdigit():
                        lines[j] = ' '.join(tp[:3] + [str(int(tp[3]) + 1)])
        elif fmt == 'kthlist':
            i = pick_line(lambda l: ':' in l and len(l.split(' ')) > 3)
            if i is None:
                return kind, text
            t = lines[i].split(' ')
            t.insert(rng.randrange(2, len(t)), rng.choice(t[2:-1]))
            lines[i] = ' '.join(t)
        else:
            return 'dup-line', '\n'.join(lines[:1] + lines)
    elif kind == 'self-loop':
        # an edge from a vertex to itself (simple: refused; digraph: kept; dag: refused; bipartite kthlist: refused)
        if fmt == 'dimacs':
            v = str(rng.randint(1, max(1, n_hint)))
            lines.insert(rng.randrange(1, len(lines) + 1) if lines else 0, 'e %s %s' % (v, v))
            if rng.random() < 0.7:
                for j, l in enumerate(lines):
                    tp = l.split(' ')
                    if l.startswith('p') and len(tp) == 4 and tp[3].isdigit():
                        lines[j] = ' '.join(tp[:3] + [str(int(tp[3]) + 1)])
        elif fmt == 'kthlist':
            i = pick_line(lambda l: ':' in l and not l.startswith('c'))
            if i is None:
                return kind, text
            t = lines[i].split(' ')
            if t and t[0].isdigit():
                t.insert(rng.randrange(2, max(3, len(t))), t[0])
            lines[i] = ' '.join(t)
        else:
            return kind, text
    return kind, '\n'.join(lines)


def near_valid_text(rng, fmt):
    """a file assembled line by line from plausible pieces (most are accepted)"""
    n = rng.randint(0, 6)
    num = lambda lo, hi: str(rng.randint(lo, hi)) if rng.random() < 0.93 else rng.choice(['0', '-1', str(hi + 1), '+1', '01', '1_0', 'x'])
    lines = []
    if fmt == 'kthlist':
        if rng.random() < 0.5:
            lines.append(rng.choice(['c name', 'c', 'c  ', 'cname']))
        lines.append(str(n) if rng.random() < 0.95 else rng.choice(['', '-2', 'n', '3 3']))
        vs = sorted(rng.sample(range(1, n + 1), rng.randint(0, n))) if rng.random() < 0.9 else [rng.randint(1, n + 1) for _ in range(rng.randint(0, 4))]
        for v in vs:
            nb = [num(1, max(1, n)) for _ in range(rng.randint(0, 3))]
            if rng.random() < 0.7:
                nb = sorted(set(nb), key=lambda x: (len(x), x))
            sep = rng.choice([' : ', ':', ' :', ': ', '\t:\t'])
            lines.append(str(v) + sep + ' '.join(nb + ['0'] if rng.random() < 0.95 else nb))
    elif fmt == 'dimacs':
        m = rng.randint(0, 5)
        if rng.random() < 0.5:
            lines.append(rng.choice(['c name', 'c', 'c two  words']))
        lines.append('p edge %d %d' % (n, m) if rng.random() < 0.9 else rng.choice(['p edge %d' % n, 'p col %d %d' % (n, m), 'p edge %d %d 0' % (n, m), 'p  edge\t%d  %d' % (n, m)]))
        for _ in range(m if rng.random() < 0.85 else rng.randint(0, 6)):
            lines.append('e %s %s' % (num(1, max(1, n)), num(1, max(1, n))))
        if rng.random() < 0.2:
            lines.insert(rng.randrange(len(lines) + 1), rng.choice(['x 1 2', 'n 1 3', 'edge', '%', 'c again', 'p edge 1 0']))
    else:
        L, R = rng.randint(0, 4), rng.randint(0, 4)
        lines.append('%d %d' % (L, R))
        ent = [rng.choice('01') if rng.random() < 0.95 else rng.choice(['2', '-1', 'x', '1_0', '+1']) for _ in range(L * R + (0 if rng.random() < 0.85 else rng.choice([-1, 1])))]
        if rng.random() < 0.7:
            for i in range(L):
                lines.append(' '.join(ent[i * R:(i + 1) * R]))
        else:
            lines.append(' '.join(ent))
        if rng.random() < 0.3:
            lines.insert(rng.randrange(len(lines) + 1), rng.choice(['# c', '#', '', '  ']))
    t = '\n'.join(lines)
    return t + ('\n' if rng.random() < 0.8 else '')


def random_text(rng, fmt):
    if rng.random() < 0.5:
        return near_valid_text(rng, fmt)
    if rng.random() < 0.15:
        return ''.join(rng.choice('0123456789 :cpe#\n\t-+_x\r') for _ in range(rng.randint(0, 25)))
    words = {'kthlist': ['0', '1', '2', '3', '4', ':', '1 :', '2 :', '3 :', ' 0', 'c', 'c x', '', ' ', '5', '-1', 'x', '1:', ':0', '2 : 3 0', '1 : 0', '3 : 1 2 0'],
             'dimacs': ['p', 'edge', 'p edge', 'e', 'c', '0', '1', '2', '3', '4', '-1', 'x', 'col', '', ' ', 'e 1 2', 'e 2 3', 'p edge 3 2', 'p edge 3 1', 'ee', 'px'],
             'matrix': ['0', '1', '2', '3', '0 1', '1 1', '#', '# c', '', ' ', 'x', '-1', '1 0 0', '2 2', '1_0', '+1']}[fmt]
    lines = []
    for _ in range(rng.randint(0, 6)):
        lines.append(' '.join(rng.choice(words) for _ in range(rng.randint(1, 4))))
    t = '\n'.join(lines)
    if rng.random() < 0.7:
        t += '\n'
    return t


def latin1(s):
    return all(ord(c) < 256 for c in s)


SIZE_LIMIT = 200000


def huge_declared_size(text, fmt):
    """the readers allocate (Graph, DirectedGraph) or loop over (matrix) the DECLARED number of vertices: a 9-byte file
    '59225725\n' needs gigabytes and minutes.  That is a resource question, outside the property; such texts are not run."""
    def num(tok):
        try:
            return int(tok)
        except ValueError:
            return None
    try:
        if fmt == 'kthlist':
            for ln in text.split('\n'):
                if ln[:1] != 'c' and ':' not in ln:
                    v = num(ln.strip())
                    if v is not None and v > SIZE_LIMIT:
                        return True
        elif fmt == 'dimacs':
            for ln in text.split('\n'):
                t = ln.split()
                if t and t[0][0] == 'p' and len(t) >= 3:
                    v = num(t[2])
                    if v is not None and v > SIZE_LIMIT:
                        return True
        else:
            toks = []
            for ln in text.split('\n'):
                t = ln.split()
                if t and t[0][0] != '#':
                    toks += t
                if len(toks) >= 2:
                    break
            v = [num(x) for x in toks[:2]]
            if any(x is not None and x > SIZE_LIMIT for x in v):
                return True
            if len(v) == 2 and None not in v and v[0] * v[1] > 10 * SIZE_LIMIT:
                return True
    except Exception:  # noqa
        return False
    return False


# --------------------------------------------------------------------------
# classification of a reader case
# --------------------------------------------------------------------------
def verdict_eq(a, b, names=True):
    return a[0] == b[0] and (same_graph(a[1], b[1], names) if a[0] == 'ok' else a[1] == b[1])


def classify_reader(ctx, stream, text, ty, fmt, got, mod, extra=None, af=None):
    """compare the verdict of cnfgen (got) with the model of the CURRENT code (mod); report failing inputs of the
    property.  af: verdict of the model of the code as found (before the repairs of D6, D7, D8); an implementation
    that sides with it against the current model has lost a repair: the violation carries the site/class of the
    old finding (entries with status 'fixed' suppress nothing)."""
    inp = dict(text=text, graph_type=ty, format=fmt)
    if extra:
        inp.update(extra)
    site = '%s-reader' % fmt
    bsite = site + ('-bipartite' if (fmt == 'kthlist' and ty == 'bipartite') else '')
    rec = dict(input=inp, implementation=list(got), model=list(mod))
    if af is not None:
        rec['model_as_found'] = list(af)
        rec['agrees_with_code_as_found'] = (not verdict_eq(af, mod)) and verdict_eq(got, dag_filter(ty, af))
    # 1. the property itself, on the implementation alone
    if got[0] == 'exc' and got[1] != 'ValueError':
        ctx.disagreements_checked += 1
        ctx.violation('counterexample', 'readGraph raised %s (not ValueError) on a %s text' % (got[1], fmt),
                      rec, True, site=site, cls='raises-' + got[1])
        return
    if got[0] == 'ok' and not consistent(text, ty, fmt, got[1]):
        ctx.disagreements_checked += 1
        d = described(text, ty, fmt)
        cls = 'graph-differs-from-text'
        if fmt == 'kthlist' and ty == 'bipartite' and d is not None:
            lefts = kth_lefts(text)
            if len(set(lefts)) < len(lefts):
                cls = 'duplicate-left-vertex'
        rec['described'] = [d[0], d[1], sorted(d[2])] if d else None
        ctx.violation('counterexample', 'readGraph accepted a %s text but returned a graph that is not the one the text describes' % fmt,
                      rec, True, site=bsite, cls=cls)
        return
    # 2. the model of the current code is demanded: no tolerance
    if verdict_eq(got, mod):
        return
    ctx.disagreements_checked += 1
    if fmt == 'kthlist' and ty == 'bipartite' and got[0] == 'ok' and mod == ('exc', 'ValueError'):
        # a file the format forbids (left vertices must be listed once, in increasing order) is accepted: D8 is back
        lefts = kth_lefts(text)
        if any(a >= b for a, b in zip(lefts, lefts[1:])):
            cls = 'duplicate-left-vertex' if len(set(lefts)) < len(lefts) else 'left-vertices-out-of-order'
            ctx.violation('counterexample', 'readGraph accepted a bipartite kthlist whose left vertices are repeated or out of order (bad file not rejected)',
                          rec, True, site=bsite, cls=cls)
            return
    ctx.violation('correspondence', 'verdict of readGraph differs from the model (GraphIO.v); theorems C14_* no longer cover the code',
                  dict(rec, correspondence='GraphIO.v <-> readGraph/' + fmt), False, site=site, cls='verdict-differs')


# --------------------------------------------------------------------------
# thresholds / huge / shapes / history (notes/LARGE_STREAMS.md)
# --------------------------------------------------------------------------
THRESHOLDS = [15, 16, 17, 63, 64, 65, 127, 128, 129, 255, 256, 257, 258, 300, 1000, 1025]


def threshold_graphs(quick):
    """vertex numbers, degrees, edge counts and name lengths at the threshold values; the graphs stay small (the model's
    readers are quadratic), every in-house format and, for a few sizes, gml and dot"""
    out = []
    for t in THRESHOLDS:
        big = t > 300
        # vertex numbers t-1, t, isolated vertices after them
        out.append(('simple', t, 0, [(1, t), (t, t - 1), (2, t - 1)], 'G', 'vertex-number'))
        out.append(('simple', t + 2, 0, [(t, 1), (3, t)], 'G', 'vertex-number'))
        out.append(('digraph', t, 0, [(t, 1), (t - 1, t), (t, t), (1, t)], 'G', 'vertex-number'))
        out.append(('dag', t, 0, [(1, t), (t - 1, t), (1, 2)], 'G', 'vertex-number'))
        out.append(('bipartite', t, 3, [(t, 1), (t - 1, 3), (1, 2)], 'G', 'vertex-number'))
        out.append(('bipartite', 3, t, [(1, t), (3, t - 1), (2, 1)], 'G', 'vertex-number'))
        if not big:
            out.append(('bipartite', t, t, [(t, t), (1, t), (t, 1), (t - 1, t - 1)], 'G', 'vertex-number'))
        # a vertex of degree t (a long line in kthlist), t edges
        out.append(('simple', t + 1, 0, [(t + 1, i) for i in range(1, t + 1)], 'star', 'degree'))
        out.append(('digraph', t + 1, 0, [(i, 1) for i in range(2, t + 2)] + [(1, 1)], 'in-star', 'degree'))
        out.append(('dag', t + 1, 0, [(i, t + 1) for i in range(1, t + 1)], 'in-star', 'degree'))
        out.append(('bipartite', 2, t, [(1, v) for v in range(1, t + 1)] + [(2, t)], 'left-star', 'degree'))
        out.append(('bipartite', t, 2, [(u, 2) for u in range(1, t + 1)], 'right-star', 'degree'))
        out.append(('simple', t + 1, 0, [(i + 1, i) for i in range(t, 0, -1)], 'path, edges inserted in decreasing order', 'edge-count'))
        # the length of the name
        out.append(('simple', 3, 0, [(1, 3)], 'n' * t, 'name-length'))
        out.append(('bipartite', 2, 2, [(1, 2)], 'a name ' + 'n' * (t - 7), 'name-length'))
    for t in (4096,) if quick else (4096, 8192):      # the model is quadratic in the length of a line: longer names in run_huge
        out.append(('simple', 3, 0, [(1, 3)], 'n' * t, 'name-length'))
        out.append(('dag', 3, 0, [(1, 3)], 'n' * t, 'name-length'))
    return out


def threshold_texts(quick):
    """[(type, format, text, kind)] reader inputs at the threshold sizes"""
    out = []
    for t in [x for x in THRESHOLDS if x <= 300 or not quick or x == 1025]:
        out.append(('simple', 'kthlist', '%d\n%d : %d 0\n' % (t, t, t - 1), 'vertex n'))
        out.append(('simple', 'kthlist', '%d\n%d : %d 0\n' % (t, t + 1, t - 1), 'vertex n+1'))
        out.append(('simple', 'kthlist', '%d\n%d : %d 0\n' % (t, t - 1, t + 1), 'neighbour n+1'))
        out.append(('simple', 'dimacs', 'p edge %d 1\ne %d %d\n' % (t, t, t - 1), 'vertex n'))
        out.append(('simple', 'dimacs', 'p edge %d 1\ne %d %d\n' % (t, t + 1, 1), 'vertex n+1'))
        out.append(('digraph', 'dimacs', 'p edge 3 %d\n%s' % (t, 'e 1 2\n' * t), 'the same edge t times'))
        out.append(('simple', 'dimacs', 'p edge %d %d\n%s' % (t + 1, t, ''.join('e %d %d\n' % (i, i + 1) for i in range(1, t + 1))), 't edges'))
        out.append(('simple', 'dimacs', 'p edge %d %d\n%s' % (t + 1, t - 1, ''.join('e %d %d\n' % (i, i + 1) for i in range(1, t + 1))), 't edges, t-1 declared'))
        out.append(('simple', 'dimacs', 'p edge %d %d\n%s' % (t + 1, t + 1, ''.join('e %d %d\n' % (i, i + 1) for i in range(1, t + 1))), 't edges, t+1 declared'))
        out.append(('bipartite', 'kthlist', '%d\n%d : %d 0\n' % (t + 3, t, t + 3), 'left vertex t'))
        out.append(('bipartite', 'kthlist', '%d\n1 : %s 0\n' % (t + 1, ' '.join(str(v) for v in range(2, t + 2))), 'left vertex of degree t'))
        out.append(('bipartite', 'matrix', '1 %d\n%s\n' % (t, ' '.join('1' if i % 3 == 0 else '0' for i in range(t))), 'row of t entries'))
        out.append(('bipartite', 'matrix', '1 %d\n%s\n' % (t, ' '.join('1' for i in range(t - 1))), 'row of t-1 entries for t columns'))
        out.append(('bipartite', 'matrix', '%d 1\n%s' % (t, '1\n0\n' * (t // 2) + '1\n' * (t % 2)), 't rows'))
        out.append(('dag', 'kthlist', '%d\n%s' % (t, ''.join('%d : %d 0\n' % (i, i - 1) for i in range(2, t + 1))), 'path of t vertices'))
        out.append(('simple', 'kthlist', '%s%d\n%s2 : 1 0\n' % ('c x\n' * t, 2, '\n' * t), 't comment lines, t blank lines'))
        out.append(('simple', 'kthlist', '%s2\n2 :%s1 0\n' % (' ' * t, ' ' * t), 'runs of t blanks'))
        out.append(('simple', 'dimacs', 'p edge %s2 1\ne 2 %s1\n' % ('0' * t, '0' * (t - 1)), 't leading zeros'))
    return out


def star_edges(centre, leaves):
    return [(centre, v) for v in leaves]


def direct_roundtrip(ctx, G, stream, label, ty, fmt, g, via, tmp):
    """the statement of C14 on one large graph, without the model: write, read back, the same orders and edges; and the text,
    read token by token by `described`, describes that graph"""
    cg = canon(g)
    inp = dict(graph=label, graph_type=ty, format=fmt, vertices=cg[2] + cg[3], edges=len(cg[4]), via=via)
    ctx.count(stream, (label, ty, fmt, via), True, sample=inp)
    ctx.tally(stream + ' via', via)
    path = os.path.join(tmp, 'huge.' + fmt)
    try:
        if via == 'StringIO':
            text = impl_write(G, g, ty, fmt)
            back = impl_read(G, text, ty, fmt, limit=300)
        else:
            if via == 'name':
                G.writeGraph(g, path, ty, fmt)
            elif via == 'name-by-extension':
                G.writeGraph(g, path, ty)
            else:
                with open(path, 'w', encoding='utf-8') as f:
                    G.writeGraph(g, f, ty, fmt)
            with open(path, 'r', newline='', encoding='utf-8') as f:
                text = f.read()
            r = outcome(lambda: canon(G.readGraph(path, ty) if via == 'name-by-extension' else G.readGraph(path, ty, fmt)))
            back = ('ok', r[1]) if r[0] == 'ok' else r
    except Exception as e:  # noqa
        ctx.disagreements_checked += 1
        ctx.violation('counterexample', 'writeGraph raised %s on a large valid graph' % type(e).__name__,
                      dict(input=inp, implementation=[type(e).__name__, str(e)[:160]]), True, site=fmt + '-writer', cls='raises-' + type(e).__name__)
        return
    lines = text.split('\n')
    ctx.tally(stream + ' output lines', '>131072' if len(lines) > 131072 else '>65536' if len(lines) > 65536 else '<=65536')
    ctx.tally(stream + ' longest line', '>131072' if max(map(len, lines)) > 131072 else '>65536' if max(map(len, lines)) > 65536 else '<=65536')
    if back[0] != 'ok' or not same_graph(back[1], cg, names=False):
        ctx.disagreements_checked += 1
        why = back[1:] if back[0] != 'ok' else None
        if why is None:
            a, b = back[1], cg
            why = ('orders %r, written %r' % (a[2:4], b[2:4]) if a[2:4] != b[2:4] else '%d edges read, %d written' % (len(a[4]), len(b[4])) if len(a[4]) != len(b[4])
                   else 'edge %r read where %r was written' % next((x, y) for x, y in zip(a[4], b[4]) if x != y))
        ctx.violation('counterexample', 'write then read in %s format does not return the same large %s graph: %s' % (fmt, ty, why),
                      dict(input=inp, text_start=text[:300], text_end=text[-200:], read_back=list(back[:1]) + [str(back[1])[:300]]), True,
                      site=fmt + '-roundtrip', cls='raises-' + back[1] if back[0] == 'exc' else 'graph-changed')
        return
    if fmt in INHOUSE and not consistent(text, ty, fmt, cg):
        ctx.disagreements_checked += 1
        ctx.violation('counterexample', 'the %s text written for a large %s graph does not describe it (independent token-level reading)' % (fmt, ty),
                      dict(input=inp, text_start=text[:300], text_end=text[-200:]), True, site=fmt + '-writer', cls='text-differs-from-graph')


def run_huge(ctx, G, quick, has_dot):
    import time
    t0 = time.time()
    tmp = tempfile.mkdtemp(prefix='c14huge-')
    seed = ctx.rng.randrange(1 << 30) | 1

    def coprime_step(total):
        import math
        step = 1000003 + (seed % 1000) * 2
        while math.gcd(step, total) != 1:
            step += 2
        return step

    def sparse(ty, n, m):
        """m distinct edges on n vertices: the pairs (u, v) are visited in the order p = i * step mod n*n, each once"""
        def f():
            g = G.Graph(n, 'large') if ty == 'simple' else G.DirectedGraph(n, 'large')
            total = n * n
            step = coprime_step(total)
            k = i = 0
            while k < m and i < total:
                p = (i * step) % total
                i += 1
                u, v = 1 + p // n, 1 + p % n
                if u == v:
                    continue
                if ty == 'dag' and u > v:
                    u, v = v, u
                before = g.number_of_edges()
                g.add_edge(u, v)
                k += g.number_of_edges() - before
            return g
        return f

    def bip(L, R, m):
        def f():
            g = G.BipartiteGraph(L, R, 'large')
            total = L * R
            step = coprime_step(total)
            for i in range(min(m, total)):
                p = (i * step) % total
                g.add_edge(1 + p // R, 1 + p % R)
            return g
        return f

    def star(ty, d):
        def f():
            g = G.Graph(d + 3, 'star') if ty == 'simple' else G.DirectedGraph(d + 3, 'star')
            for i in range(d, 0, -1):
                if ty == 'simple':
                    g.add_edge(d + 2, i)
                elif ty == 'dag':
                    g.add_edge(i, d + 2)
                else:
                    g.add_edge(i + 1 if i + 1 != 2 else d + 3, 2)
            return g
        return f

    def named(ty, k):
        def f():
            g = mk_graph(G, ty, 4, 3 if ty == 'bipartite' else 0, [(1, 3), (2, 3)], 'N' * k)
            return g
        return f
    if quick:
        plan = [('70000 vertices, 140000 edges', 'simple', sparse('simple', 70000, 140000), [('kthlist', 'name'), ('dimacs', 'StringIO')]),
                ('131073 vertices, 70000 increasing edges', 'dag', sparse('dag', 131073, 70000), [('dimacs', 'name-by-extension'), ('kthlist', 'fileobj')]),
                ('40000 + 40000 vertices, 70000 edges', 'bipartite', bip(40000, 40000, 70000), [('kthlist', 'name-by-extension')]),
                ('3 x 70000 matrix (rows of 140000 characters)', 'bipartite', bip(3, 70000, 1000), [('matrix', 'name')]),
                ('a vertex of degree 30000', 'simple', star('simple', 30000), [('kthlist', 'fileobj')]),
                ('a vertex of in-degree 30000', 'digraph', star('digraph', 30000), [('kthlist', 'StringIO')]),
                ('name of 70000 characters', 'simple', named('simple', 70000), [('kthlist', 'name'), ('dimacs', 'fileobj')])]
    else:
        allv = ['StringIO', 'name', 'name-by-extension', 'fileobj']
        plan = []
        for ty in ('simple', 'digraph', 'dag'):
            plan.append(('70000 vertices, 140000 edges', ty, sparse(ty, 70000, 140000), [(f, v) for f in ('kthlist', 'dimacs') for v in allv]))
            plan.append(('131073 vertices, 70000 edges', ty, sparse(ty, 131073, 70000), [(f, v) for f in ('kthlist', 'dimacs') for v in allv[:2]]))
            plan.append(('a vertex of (in-)degree 30000', ty, star(ty, 30000), [(f, v) for f in ('kthlist', 'dimacs') for v in allv]))
            plan.append(('a vertex of (in-)degree 140000', ty, star(ty, 140000), [('kthlist', 'name'), ('kthlist', 'StringIO')]))
            plan.append(('name of 70000 characters', ty, named(ty, 70000), [(f, v) for f in ('kthlist', 'dimacs') for v in allv]))
            plan.append(('20000 vertices, 30000 edges', ty, sparse(ty, 20000, 30000), [('gml', 'name'), ('gml', 'StringIO')]))
        plan.append(('40000 + 40000 vertices, 140000 edges', 'bipartite', bip(40000, 40000, 140000), [('kthlist', v) for v in allv]))
        plan.append(('70000 + 3 vertices', 'bipartite', bip(70000, 3, 70000), [('kthlist', v) for v in allv] + [('matrix', 'name')]))
        plan.append(('3 x 70000 matrix (rows of 140000 characters)', 'bipartite', bip(3, 70000, 1000), [('matrix', v) for v in allv] + [('kthlist', 'name')]))
        plan.append(('300 x 300 matrix', 'bipartite', bip(300, 300, 30000), [('matrix', v) for v in allv] + [('gml', 'name')]))
        plan.append(('name of 140000 characters', 'bipartite', named('bipartite', 140000), [('kthlist', v) for v in allv]))
        if has_dot:
            plan.append(('1500 vertices, 1500 edges', 'simple', sparse('simple', 1500, 1500), [('dot', 'name')]))
    for label, ty, mk, todo in plan:
        g = mk()
        for fmt, via in todo:
            direct_roundtrip(ctx, G, 'huge', label, ty, fmt, g, via, tmp)
    for f in os.listdir(tmp):
        os.unlink(os.path.join(tmp, f))
    os.rmdir(tmp)
    ctx.note('huge: %.0f s' % (time.time() - t0))


def run_thresholds(ctx, G, quick, has_dot, formats):
    import time
    t0 = time.time()
    graphs = threshold_graphs(quick)
    inhouse = {ty: [f for f in formats[ty] if f in INHOUSE] for ty in formats}
    run_roundtrip(ctx, G, graphs, has_dot, inhouse, quick, stream='thresholds')
    # gml and dot (networkx / pydot) at a few of the sizes
    small = [g for g in graphs if (g[1] + g[2]) in (16, 17, 18, 256, 257, 258, 259) and g[5] in ('vertex-number', 'degree')]
    ext = {ty: [f for f in formats[ty] if f not in INHOUSE] for ty in formats}
    run_roundtrip(ctx, G, small if not quick else small[::3], has_dot, ext, quick, stream='thresholds', gml_dot_all=True)
    cases = threshold_texts(quick)
    reps = ctx.model.batch([cmd('gio_read', has_dot, Sym(ty), Sym(fmt), t) for (ty, fmt, t, _k) in cases])
    for (ty, fmt, t, kind), rep in zip(cases, reps):
        ctx.count('thresholds-texts', (ty, fmt, t), True, sample=dict(graph_type=ty, format=fmt, kind=kind, text=t[:120]))
        ctx.tally('thresholds text kind', kind)
        if is_error(rep):
            ctx.violation('correspondence', 'model error', dict(input=dict(text=t[:300], graph_type=ty, format=fmt), model=rep), False, site='model-error', cls='thresholds')
            continue
        classify_reader(ctx, 'thresholds-texts', t, ty, fmt, impl_read(G, t, ty, fmt), model_outcome(rep), dict(kind=kind))
    ctx.note('thresholds: %.0f s' % (time.time() - t0))


# --------------------------------------------------------------------------
# shapes: rare graphs; file names that select (or merely resemble) a format; destinations; names outside ASCII
# --------------------------------------------------------------------------
GOOD_NAMES = ['g.kthlist', 'a.gml.kthlist', 'dir.dot/g.dimacs', 'g.dimacs', 'g.matrix', 'g.gml', 'x.y.z.kthlist', 'graph_kthlist.kthlist', 'sp ace.dimacs',
              'α\xe9.kthlist']
BAD_NAMES = ['graph_kthlist', 'kthlist', 'g.kthlist.bak', 'g.kthlistx', 'g.KTHLIST', 'dimacs', 'x_dimacs', 'g.dimacs~', 'noext', 'g.', 'gml', 'xgml',
             'dir.kthlist/g', 'g.kthlist ', 'adjacency_matrix', 'g.txt']


def name_format(name, ty, formats):
    """the format `autodetect` must choose: the extension of the file name when it is a format of this graph type, else none (ValueError)"""
    base = name.rsplit('/', 1)[-1]
    if '.' not in base.lstrip('.'):
        return None
    ext = base.rsplit('.', 1)[1]
    return ext if ext in formats[ty] else None


def shape_graphs():
    out = []
    for t in (0, 1, 16, 257):
        out.append(('bipartite', t, 0, [], 'no right side', 'empty-side'))
        out.append(('bipartite', 0, t, [], 'no left side', 'empty-side'))
        out.append(('simple', t, 0, [], 'isolated vertices only', 'isolated'))
        out.append(('digraph', t, 0, [(v, v) for v in range(1, t + 1)], 'self loops only', 'self-loops'))
        out.append(('dag', t, 0, [], 'isolated vertices only', 'isolated'))
    k = 24
    comp = [(u, v) for u in range(1, k + 1) for v in range(u + 1, k + 1)]
    out.append(('simple', k, 0, [(v, u) for (u, v) in reversed(comp)], 'complete, edges inserted from the last to the first, reversed', 'dense'))
    out.append(('dag', k, 0, list(reversed(comp)), 'transitive tournament', 'dense'))
    out.append(('digraph', k, 0, [(u, v) for u in range(1, k + 1) for v in range(k, 0, -1)], 'complete with loops', 'dense'))
    out.append(('bipartite', 9, 17, [(u, v) for u in range(9, 0, -1) for v in range(17, 0, -1)], 'complete bipartite, inserted backwards', 'dense'))
    out.append(('bipartite', 1, 1, [(1, 1)], 'one edge', 'tiny'))
    out.append(('simple', 2, 0, [(2, 1), (1, 2), (2, 1)], 'the same edge three times in both orientations', 'repeated-edge'))
    out.append(('digraph', 2, 0, [(2, 1), (1, 2), (2, 1)], 'both orientations', 'repeated-edge'))
    out.append(('simple', 40, 0, [(40, 1), (39, 40)], 'edges only at the last vertices', 'isolated'))
    out.append(('simple', 5, 0, [(1, 2)], 'α \xe9 数 name outside ASCII', 'unicode-name'))
    out.append(('bipartite', 2, 2, [(1, 2)], 'caf\xe9', 'unicode-name'))
    out.append(('dag', 5, 0, [(1, 2)], '数', 'unicode-name'))
    return out


def constructor_graphs(G):
    """graph OBJECTS as every public constructor / generator / conversion delivers them (subclasses that override the views,
    objects built without add_edge, objects returned by a reader): [(type, ..., origin, thunk)]"""
    import networkx
    out = []

    def add(ty, label, thunk):
        out.append((ty, None, None, None, None, label, thunk))
    for (L, R) in ((0, 0), (1, 1), (3, 2), (16, 17), (2, 257), (0, 3), (3, 0)):
        add('bipartite', 'CompleteBipartiteGraph', lambda L=L, R=R: G.CompleteBipartiteGraph(L, R))

    def cb_after_add():
        g = G.CompleteBipartiteGraph(3, 4)
        g.add_edge(1, 1)
        return g
    add('bipartite', 'CompleteBipartiteGraph', cb_after_add)
    for n in (0, 1, 2, 5, 17):
        add('simple', 'Graph.complete_graph', lambda n=n: G.Graph.complete_graph(n))
        add('simple', 'Graph.star_graph', lambda n=n: G.Graph.star_graph(n))
        add('simple', 'Graph.empty_graph', lambda n=n: G.Graph.empty_graph(n))
    add('simple', 'Graph.null_graph', lambda: G.Graph.null_graph())
    for h in (0, 1, 3):
        for ty in ('dag', 'digraph'):
            add(ty, 'dag_pyramid', lambda h=h: G.dag_pyramid(h))
            add(ty, 'dag_complete_binary_tree', lambda h=h: G.dag_complete_binary_tree(h))
            add(ty, 'dag_path', lambda h=h: G.dag_path(h + 9))
    add('bipartite', 'bipartite_shift', lambda: G.bipartite_shift(5, 7, [0, 2]))
    add('bipartite', 'bipartite_random_left_regular', lambda: G.bipartite_random_left_regular(4, 6, 2, seed=11))
    add('bipartite', 'bipartite_random_m_edges', lambda: G.bipartite_random_m_edges(4, 5, 7, seed=12))
    add('bipartite', 'bipartite_random_m_edges', lambda: G.bipartite_random_m_edges(4, 5, 19, seed=12))
    add('bipartite', 'bipartite_random_regular', lambda: G.bipartite_random_regular(4, 4, 2, seed=13))
    add('bipartite', 'bipartite_random', lambda: G.bipartite_random(4, 5, 0.5, seed=14))
    add('simple', 'Graph.from_networkx', lambda: G.Graph.from_networkx(networkx.relabel_nodes(networkx.petersen_graph(), lambda v: v + 1)))
    add('simple', 'Graph.from_networkx', lambda: G.Graph.from_networkx(networkx.relabel_nodes(networkx.path_graph(12), lambda v: 12 - v)))
    add('digraph', 'DirectedGraph.from_networkx', lambda: G.DirectedGraph.from_networkx(networkx.relabel_nodes(networkx.gn_graph(12, seed=3), lambda v: v + 1)))

    def bip_nx():
        B = networkx.Graph()
        B.add_nodes_from([1, 2, 3], bipartite=0)
        B.add_nodes_from([4, 5], bipartite=1)
        B.add_edges_from([(1, 4), (3, 5), (2, 4)])
        return G.BipartiteGraph.from_networkx(B)
    add('bipartite', 'BipartiteGraph.from_networkx', bip_nx)

    def split():
        g = G.Graph.complete_graph(5)
        return G.split_random_edges(g, 3, seed=5) or g

    def added():
        g = G.Graph.empty_graph(6)
        return G.add_random_missing_edges(g, 7, seed=6) or g

    def added_b():
        g = G.BipartiteGraph(3, 4)
        return G.add_random_missing_edges(g, 5, seed=7) or g
    add('simple', 'split_random_edges', split)
    add('simple', 'add_random_missing_edges', added)
    add('bipartite', 'add_random_missing_edges', added_b)
    return out


UNICODE_CHILD = r"""# -*- coding: utf-8 -*-
import sys, os, json
d = sys.argv[1]
import cnfgen.graphs as G
res = {}
def canon(g):
    if g.is_bipartite():
        return [g.left_order(), g.right_order(), [list(e) for e in g.edges()]]
    return [g.number_of_vertices(), 0, [list(e) for e in g.edges()]]
for ty, fmt in (('simple', 'kthlist'), ('simple', 'dimacs'), ('simple', 'gml'), ('bipartite', 'kthlist'), ('dag', 'kthlist')):
    if ty == 'bipartite':
        g = G.BipartiteGraph(2, 3, 'α é 数')
        g.add_edge(1, 3); g.add_edge(2, 1)
    elif ty == 'simple':
        g = G.Graph(4, 'α é 数')
        g.add_edge(1, 3); g.add_edge(4, 2)
    else:
        g = G.DirectedGraph(4, 'α é 数')
        g.add_edge(1, 3); g.add_edge(2, 4)
    key = ty + '/' + fmt
    try:
        p = os.path.join(d, ty + '.' + fmt)
        G.writeGraph(g, p, ty)                      # by name, format from the extension
        with open(os.path.join(d, ty + '-obj.' + fmt), 'w', encoding='utf-8') as f:
            G.writeGraph(g, f, ty, fmt)
        res[key] = ['ok', canon(g), canon(G.readGraph(p, ty)), canon(G.readGraph(os.path.join(d, ty + '-obj.' + fmt), ty, fmt))]
    except Exception as e:
        res[key] = ['exc', type(e).__name__, str(e)[:120]]
sys.stdout.write(json.dumps(res))
"""


def run_shapes(ctx, G, quick, has_dot):
    import json
    import subprocess
    import tempfile as tf
    import time
    import lib
    t0 = time.time()
    formats = G.supported_graph_formats()
    run_roundtrip(ctx, G, shape_graphs(), has_dot, formats, quick, stream='shapes', gml_dot_all=True)
    run_roundtrip(ctx, G, constructor_graphs(G), has_dot, formats, quick, stream='shapes', gml_dot_all=True)
    tmp = tempfile.mkdtemp(prefix='c14shapes-')
    graphs = {'simple': mk_graph(G, 'simple', 12, 0, [(1, 12), (3, 2), (11, 10)], 'G'), 'digraph': mk_graph(G, 'digraph', 12, 0, [(12, 1), (3, 3), (10, 11)], 'G'),
              'dag': mk_graph(G, 'dag', 12, 0, [(1, 12), (2, 3), (10, 11)], 'G'), 'bipartite': mk_graph(G, 'bipartite', 11, 12, [(11, 12), (1, 10), (2, 1)], 'G')}
    # ---- file names and autodetect: by name, and through a file object that carries the name
    for ty, g in graphs.items():
        cg = canon(g)
        for nm in GOOD_NAMES + BAD_NAMES:
            want = name_format(nm, ty, formats)
            if want == 'dot' and not has_dot:
                continue
            p = os.path.join(tmp, ty, nm)
            os.makedirs(os.path.dirname(p), exist_ok=True)
            for how in ('name', 'file object'):
                inp = dict(graph_type=ty, file_name=nm, how=how, graph=cg, documented_format=want)
                ctx.count('shapes-file-name', (ty, nm, how), True, sample=inp)
                ctx.tally('shapes file name', 'extension is a format of the type' if want else 'no usable extension')
                if os.path.exists(p):
                    os.unlink(p)

                def write():
                    if how == 'name':
                        G.writeGraph(g, p, ty)
                    else:
                        with open(p, 'w', encoding='utf-8') as f:
                            G.writeGraph(g, f, ty)
                w = outcome(write)
                if want is None:
                    if not (w[0] == 'exc' and w[1] == 'ValueError'):
                        ctx.disagreements_checked += 1
                        ctx.violation('counterexample', 'writeGraph with the file name %r (no extension that is a format of %s graphs) %s; documented: the format '
                                      'is autodetected from the file name EXTENSION, else ValueError' % (nm, ty, 'raised ' + w[1] if w[0] == 'exc' else 'wrote a file'),
                                      dict(input=inp, implementation=[str(x)[:160] for x in w[:3]], written=open(p).read()[:200] if os.path.exists(p) and w[0] == 'ok' else None),
                                      True, site='autodetect', cls='format-guessed-without-extension' if w[0] == 'ok' else 'raises-' + w[1])
                    # reading such a name: write the file with an explicit format first
                    G.writeGraph(g, p, ty, 'kthlist')
                    r = outcome(lambda: canon(G.readGraph(p, ty)))
                    if not (r[0] == 'exc' and r[1] == 'ValueError'):
                        ctx.disagreements_checked += 1
                        ctx.violation('counterexample', 'readGraph with the file name %r (no extension that is a format of %s graphs) %s' %
                                      (nm, ty, 'raised ' + r[1] if r[0] == 'exc' else 'read a graph'), dict(input=inp, implementation=[str(x)[:160] for x in r[:3]]),
                                      True, site='autodetect', cls='format-guessed-without-extension' if r[0] == 'ok' else 'raises-' + r[1])
                    continue
                if w[0] != 'ok':
                    ctx.disagreements_checked += 1
                    ctx.violation('counterexample', 'writeGraph with the file name %r raised %s' % (nm, w[1]), dict(input=inp, implementation=list(w[1:])), True,
                                  site='autodetect', cls='raises-' + w[1])
                    continue
                with open(p, encoding='utf-8') as f:
                    text = f.read()
                # the file is in the format of its extension: the reader of that format gives the graph back, and so does autodetect
                b1 = impl_read(G, text, ty, want)
                b2 = outcome(lambda: canon(G.readGraph(p, ty)))
                if b1[0] != 'ok' or not same_graph(b1[1], cg, names=False) or b2[0] != 'ok' or not same_graph(b2[1], cg, names=False):
                    ctx.disagreements_checked += 1
                    ctx.violation('counterexample', 'the file %r written by writeGraph (format from the extension) is not a %s file of the graph' % (nm, want),
                                  dict(input=inp, text=text[:300], read_with_explicit_format=[str(x)[:200] for x in b1[:2]], autodetect=[str(x)[:200] for x in b2[:2]]),
                                  True, site='autodetect', cls='wrong-format')
    # ---- destinations without a usable name, autodetect: documented ValueError ("specify the format manually")
    g = graphs['simple']
    for label, mk in (('StringIO', io.StringIO), ('tempfile.TemporaryFile (name is a descriptor number)', lambda: tf.TemporaryFile('w+')),
                      ('tempfile.SpooledTemporaryFile (name is None)', lambda: tf.SpooledTemporaryFile(mode='w+'))):
        for fmt in ('autodetect', 'kthlist'):
            f = mk()
            w = outcome(lambda: G.writeGraph(g, f, 'simple', fmt))
            f.seek(0)
            r = outcome(lambda: canon(G.readGraph(f, 'simple', fmt)))
            inp = dict(destination=label, file_format=fmt, graph_type='simple', graph=canon(g))
            ctx.count('shapes-destination', (label, fmt), True, sample=inp)
            if fmt == 'autodetect':
                for what, o in (('writeGraph', w), ('readGraph', r)):
                    if not (o[0] == 'exc' and o[1] == 'ValueError'):
                        ctx.disagreements_checked += 1
                        ctx.violation('counterexample', '%s on <%s> without a format %s; documented: ValueError (the format cannot be guessed)' %
                                      (what, label, 'raised ' + o[1] if o[0] == 'exc' else 'succeeded'), dict(input=inp, implementation=[str(x)[:160] for x in o[:3]]),
                                      True, site='autodetect', cls='file-object-name-not-a-string' if o[0] == 'exc' and o[1] == 'TypeError' else 'no-name-accepted')
            elif w[0] != 'ok' or r[0] != 'ok' or not same_graph(r[1], canon(g), names=False):
                ctx.disagreements_checked += 1
                ctx.violation('counterexample', 'write then read through <%s> with an explicit format fails' % label,
                              dict(input=inp, write=[str(x)[:160] for x in w[:3]], read=[str(x)[:160] for x in r[:3]]), True, site='kthlist-roundtrip', cls='destination')
    # ---- a graph name outside ASCII, files written and read by name in a process whose locale is / is not UTF-8
    script = os.path.join(tmp, 'child.py')
    with open(script, 'w', encoding='utf-8') as f:
        f.write(UNICODE_CHILD)
    for en, extra in (('default', {}), ('C locale, UTF-8 mode off', {'LC_ALL': 'C', 'LANG': 'C', 'PYTHONUTF8': '0', 'PYTHONCOERCECLOCALE': '0'})):
        d = os.path.join(tmp, 'u%d' % len(extra))
        os.makedirs(d)
        env = dict(os.environ, PYTHONPATH=lib.REPO, CNFGEN_VERIF='1')
        env.update(extra)
        r = subprocess.run([lib.PY, '-W', 'ignore', script, d], cwd=lib.REPO, env=env, stdout=subprocess.PIPE, stderr=subprocess.PIPE, timeout=300)
        try:
            res = json.loads(r.stdout.decode('utf-8'))
        except Exception:  # noqa
            res = {}
            ctx.violation('counterexample', 'the process writing graphs with a name outside ASCII (%s) died' % en,
                          dict(input=dict(environment=en), implementation=[r.returncode, r.stderr.decode('utf-8', 'replace')[-300:]]), True, site='unicode-name', cls='process')
        for key, v in res.items():
            inp = dict(graph_name='α \xe9 数', case=key, environment=en)
            ctx.count('shapes-unicode-process', (key, en), True, sample=inp)
            if v[0] != 'ok' or v[2] != v[1] or v[3] != v[1]:
                ctx.disagreements_checked += 1
                ctx.violation('counterexample', 'a graph whose name is outside ASCII does not survive writeGraph / readGraph by file name (%s, process with %s)' % (key, en),
                              dict(input=inp, implementation=v), True, site='unicode-name', cls='raises-' + v[1] if v[0] == 'exc' else 'graph-changed')
                continue
            ty, fmt = key.split('/')
            for fn in (ty + '.' + fmt, ty + '-obj.' + fmt):
                try:
                    with open(os.path.join(d, fn), 'rb') as f:
                        f.read().decode('utf-8')
                except UnicodeDecodeError:
                    ctx.violation('counterexample', 'the graph file %s written by a process with %s is not UTF-8 (documented: written in UTF-8)' % (fn, en),
                                  dict(input=inp), True, site='unicode-name', cls='file-encoding')
    import shutil
    shutil.rmtree(tmp, ignore_errors=True)
    ctx.note('shapes: %.0f s' % (time.time() - t0))


# --------------------------------------------------------------------------
# history: ONE graph object edited through its public API between two writes (edges added in any order, removed, the vertex
# count raised by several units, a file read and the returned object edited), each state written in every in-house format
# --------------------------------------------------------------------------
def run_history(ctx, G, quick, has_dot):
    import random
    import time
    t0 = time.time()
    formats = G.supported_graph_formats()
    inhouse = {ty: [f for f in formats[ty] if f in INHOUSE] for ty in formats}
    items = []
    for run_no in range(24 if quick else 300):
        r = random.Random(ctx.rng.randrange(1 << 30))
        ty = TYPES[run_no % 4]
        n0 = r.choice([0, 1, 3, 8, 14])
        state = dict(g=mk_graph(G, ty, n0, r.choice([0, 2, 9]) if ty == 'bipartite' else 0, [], r.choice(['H', 'history %d' % run_no, None])), log=[])

        def step(state=state, r=r, ty=ty):
            g = state['g']
            for _ in range(r.randint(1, 6)):
                if ty == 'bipartite':
                    L, R = g.left_order(), g.right_order()
                    op = r.choice(['add', 'add', 'add-many', 'reread'])
                else:
                    L = R = g.number_of_vertices()
                    op = r.choice(['add', 'add', 'add-many', 'remove', 'raise', 'raise', 'raise-to-threshold', 'reread'] if ty == 'simple'
                                  else ['add', 'add', 'add-many', 'reread'])
                if op == 'add' and L and R:
                    u, v = r.randint(1, L), r.randint(1, R)
                    if ty == 'dag' and u >= v or ty == 'simple' and u == v:
                        continue
                    g.add_edge(u, v)
                    state['log'].append('add_edge(%d,%d)' % (u, v))
                elif op == 'add-many' and L and R:
                    es = [(r.randint(1, L), r.randint(1, R)) for _ in range(r.randint(2, 9))]
                    es = [(u, v) for u, v in es if not (ty == 'dag' and u >= v or ty == 'simple' and u == v)]
                    g.add_edges_from(es)
                    state['log'].append('add_edges_from(%r)' % (es,))
                elif op == 'remove':
                    es = list(g.edges())
                    if es:
                        u, v = r.choice(es)
                        if r.random() < 0.5:
                            u, v = v, u
                        g.remove_edge(u, v)
                        state['log'].append('remove_edge(%d,%d)' % (u, v))
                elif op == 'raise':
                    k = r.choice([2, 3, 5])
                    g.update_vertex_number(L + k)
                    state['log'].append('update_vertex_number(+%d)' % k)
                elif op == 'raise-to-threshold':
                    t = r.choice([x for x in THRESHOLDS[:10] if x > L] or [L + 2])
                    g.update_vertex_number(t)
                    state['log'].append('update_vertex_number(%d)' % t)
                elif op == 'reread':
                    fmt = r.choice(inhouse[ty])
                    text = impl_write(G, g, ty, fmt)
                    extra = 0
                    if fmt in ('kthlist', 'dimacs') and r.random() < 0.6:
                        # a file as people write them: several comment lines before the data (the object read from it is written again)
                        extra = r.randint(1, 3)
                        text = ''.join('c comment line %d of a hand-written header\n' % (i + 1) for i in range(extra)) + text
                    g = state['g'] = G.readGraph(io.StringIO(text), ty, fmt)
                    state['log'].append('written as %s%s and read back; the object read is edited from here on'
                                        % (fmt, ' with %d more comment lines in front' % extra if extra else ''))
            ctx.tally('history operations before a write', str(len(state['log'])) if len(state['log']) < 10 else '>=10')
            return state['g']
        for _ in range(r.randint(2, 5)):
            items.append((ty, None, None, None, None, 'history', step))
    run_roundtrip(ctx, G, items, has_dot, inhouse, quick, stream='history')
    ctx.note('history: %.0f s' % (time.time() - t0))


# --------------------------------------------------------------------------
def run_roundtrip(ctx, G, graphs, has_dot, formats, quick, stream='roundtrip', budget0=None, gml_dot_all=False):
    """graphs: [(type, n, r, edges, name, origin)] or [(type, None, None, None, None, origin, thunk)] where thunk() returns the
    graph object to write NOW (history stream: the same object comes back, edited).  Returns the jobs (type, format, graph, text, read back)."""
    rng = ctx.rng
    jobs = []     # (ty, fmt, n, r, name, text, got_back, cg)
    reqs = []
    if budget0 is None:
        budget0 = 40 if quick else 400
    gml_dot_budget = {(ty, f): budget0 for ty in TYPES for f in ('gml', 'dot')}
    for item in graphs:
        (ty, n, r, es, name, origin) = item[:6]
        try:
            g = item[6]() if len(item) > 6 else mk_graph(G, ty, n, r, es, name)
            if len(item) > 6:
                n, r = (g.left_order(), g.right_order()) if g.is_bipartite() else (g.number_of_vertices(), 0)
                name = g.name
        except Exception as e:  # noqa
            ctx.violation('counterexample', 'building a valid graph raised %s' % type(e).__name__,
                          dict(input=dict(graph_type=ty, n=n, r=r, edges=es)), True, site='graph-object', cls='raises-' + type(e).__name__)
            continue
        cg = canon(g)
        for fmt in formats[ty]:
            if fmt in ('gml', 'dot'):
                if gml_dot_all or (origin == 'all<=4' and (n + r) < 3):
                    pass
                elif origin == 'all<=4' and rng.random() < (0.9 if quick else 0.5):
                    continue
                if gml_dot_budget[(ty, fmt)] <= 0 and origin != 'fixed' and not gml_dot_all:
                    continue
                gml_dot_budget[(ty, fmt)] -= 1
            ctx.tally(stream + ' format', '%s/%s' % (ty, fmt))
            ctx.tally(stream + ' vertices', '>=10' if (n + r) >= 10 else str(n + r))
            ctx.tally(stream + ' origin', origin)
            w = outcome(impl_write, G, g, ty, fmt)
            if w[0] != 'ok':
                ctx.count(stream, (ty, fmt, n, r, tuple(map(tuple, cg[4])), name), n + r > 0)
                ctx.violation('counterexample', 'writeGraph raised %s on a valid graph' % w[1],
                              dict(input=dict(graph=cg, graph_type=ty, format=fmt), implementation=list(w[1:])), True,
                              site=fmt + '-writer', cls='raises-' + w[1])
                continue
            text = w[1]
            back = impl_read(G, text, ty, fmt)
            jobs.append((ty, fmt, cg, text, back))
            mname = cg[1] if latin1(cg[1] or '') else 'G'       # names are not compared for gml / dot
            if fmt in INHOUSE and not latin1(cg[1] or ''):
                reqs += [cmd('gt_print', 0), cmd('gt_print', 0)]      # a name outside latin-1 is outside the model: round trip only
            elif fmt in INHOUSE:
                reqs.append(cmd('gio_write', has_dot, Sym(ty), Sym(fmt), [Sym(cg[0]), cg[1], cg[2], cg[3], cg[4]]))
                reqs.append(cmd('gio_read', has_dot, Sym(ty), Sym(fmt), text) if latin1(text) else cmd('gt_print', 0))
            elif ty == 'bipartite':
                nodes = [[str(i), 0] for i in range(1, cg[2] + 1)] + [[str(i), 1] for i in range(cg[2] + 1, cg[2] + cg[3] + 1)]
                bes = [[str(u), str(v + cg[2])] for u, v in cg[4]]
                # gml: from_networkx on the labels as they are; dot: after the int() relabelling of readGraph
                reqs.append(cmd('gio_bip_from_nx_str', mname, nodes, bes) if fmt == 'gml' else cmd('gio_dot_bip_norm', mname, nodes, bes))
                reqs.append(cmd('gt_print', 0))
            else:
                reqs.append(cmd('gio_' + fmt, [Sym(cg[0]), mname, cg[2], cg[3], cg[4]]))
                # the label rule of the code as found (D9), to recognise a lost repair
                reqs.append(cmd('gio_dot_as_found', [Sym(cg[0]), mname, cg[2], cg[3], cg[4]]) if fmt == 'dot' else cmd('gt_print', 0))
    reps = ctx.model.batch(reqs)
    for k, (ty, fmt, cg, text, back) in enumerate(jobs):
        r1, r2 = reps[2 * k], reps[2 * k + 1]
        key = (ty, fmt, cg[2], cg[3], tuple(map(tuple, cg[4])), cg[1])
        ctx.count(stream, key, cg[2] + cg[3] > 0, sample=dict(graph_type=ty, format=fmt, graph=cg if len(cg[4]) <= 40 else cg[:4] + ['%d edges' % len(cg[4])], text=text[:200]))
        inp = dict(graph=cg if len(cg[4]) <= 200 else cg[:4] + [cg[4][:50] + ['... %d edges' % len(cg[4])]], graph_type=ty, format=fmt, text=text if len(text) <= 4000 else text[:2000] + '\n... (%d characters) ...\n' % len(text) + text[-500:])
        if is_error(r1) or is_error(r2):
            ctx.violation('correspondence', 'model error', dict(input=inp, model=[r1, r2]), False, site='model-error', cls='roundtrip')
            continue
        # (a) the property itself on the implementation: read(write(G)) == G (names are not part of it)
        if back[0] != 'ok' or not same_graph(back[1], cg, names=False):
            ctx.disagreements_checked += 1
            big = (cg[2] + cg[3]) >= 10
            cls = 'renumbered-n>=10' if (fmt == 'dot' and big) else ('raises-' + back[1] if back[0] == 'exc' else 'graph-changed')
            as_found = None
            if fmt == 'dot' and ty != 'bipartite' and r2 is not None and r2 != 'none':
                # does the implementation follow the label rule of the code as found (strings sorted as strings, D9)?
                af = dag_filter(ty, model_outcome(r2[1]))
                as_found = verdict_eq(af, back, names=False)
            ctx.violation('counterexample', 'write then read in %s format does not return the same %s graph' % (fmt, ty),
                          dict(input=inp, read_back=list(back), agrees_with_label_sorting_as_found=as_found), True,
                          site=fmt + '-roundtrip', cls=cls)
        if fmt in INHOUSE and not latin1(cg[1] or ''):
            ctx.tally(stream + ' outside the model', 'graph name outside latin-1')
        elif fmt in INHOUSE:
            # (b) same text
            if r1[0] != 'ok' or r1[1] != text:
                ctx.disagreements_checked += 1
                ctx.violation('correspondence', 'text written by writeGraph differs from the model (GraphIO.v gio_write_*)',
                              dict(input=inp, model=r1, correspondence='GraphIO.v <-> writeGraph/' + fmt), False,
                              site=fmt + '-writer', cls='text-differs')
            # (c) same reader verdict
            if latin1(text):
                mod = model_outcome(r2)
                if not verdict_eq(back, mod):
                    ctx.disagreements_checked += 1
                    ctx.violation('correspondence', 'readGraph on a written file differs from the model reader',
                                  dict(input=inp, implementation=list(back), model=list(mod)), False, site=fmt + '-reader', cls='verdict-differs')
        else:
            # differential on cnfgen's own step: sorted labels + from_networkx
            if ty == 'bipartite' and fmt == 'gml':
                mod = model_outcome(r1)
            else:
                mod = ('exc', 'not-a-graph') if (r1 is None or r1 == 'none') else dag_filter(ty, model_outcome(r1[1]))
            # the model of the current code (numeric labels sorted as numbers) is demanded
            if not verdict_eq(back, mod, names=False):
                ctx.disagreements_checked += 1
                ctx.violation('correspondence', 'graph read back from %s differs from the model of label sorting + from_networkx' % fmt,
                              dict(input=inp, implementation=list(back), model=list(mod)), False, site=fmt + '-roundtrip', cls='model-differs')
    return jobs


# --------------------------------------------------------------------------
def run(ctx):
    import_impl()
    import cnfgen.graphs as G
    quick = ctx.tier == 'quick'
    rng = ctx.rng
    has_dot = G.has_dot_library()
    formats = G.supported_graph_formats()
    ctx.note('has_dot_library=%s formats=%s' % (has_dot, formats))

    # the large cases first, as a corpus (notes/LARGE_STREAMS.md)
    run_huge(ctx, G, quick, has_dot)
    run_thresholds(ctx, G, quick, has_dot, formats)
    run_shapes(ctx, G, quick, has_dot)
    run_history(ctx, G, quick, has_dot)

    run_primitives(ctx, quick)

    # ---------------- roundtrip ----------------
    graphs = []
    for ty in TYPES:
        for (n, r, es) in all_small_graphs(ty, quick):
            graphs.append((ty, n, r, es, None, 'all<=4'))
        for i in range(40 if quick else 400):
            n, r, es = random_graph(rng, ty, 30)
            graphs.append((ty, n, r, es, rng.choice(NAMES), 'random'))
        # fixed cases the property names: isolated vertices, ten or more vertices
        if ty == 'bipartite':
            graphs.append((ty, 12, 11, [(2, 10), (12, 1), (11, 11)], 'G', 'fixed'))
            graphs.append((ty, 0, 3, [], 'G', 'fixed'))
            graphs.append((ty, 3, 0, [], 'G', 'fixed'))
        else:
            graphs.append((ty, 12, 0, [(2, 10), (1, 12), (9, 11)], 'G', 'fixed'))
            graphs.append((ty, 25, 0, [(3, 20)], 'isolated', 'fixed'))
    jobs = run_roundtrip(ctx, G, graphs, has_dot, formats, quick)

    # ---------------- mutation and random texts ----------------
    base = [j for j in jobs if j[1] in INHOUSE and latin1(j[3])]
    cases = []
    nmut = 1500 if quick else 20000
    for _ in range(nmut):
        ty, fmt, cg, text, _b = rng.choice(base)
        if rng.random() < 0.5:   # prefer non trivial files
            for _t in range(5):
                if cg[2] + cg[3] >= 2:
                    break
                ty, fmt, cg, text, _b = rng.choice(base)
        kind, t2 = mutate(rng, text, fmt, cg[2] + cg[3])
        if not latin1(t2):
            continue
        # a declared type different from the writer's (dag file read as digraph ...) is part of the stream
        ty2 = ty
        if ty in ('digraph', 'dag') and rng.random() < 0.3:
            ty2 = 'dag' if ty == 'digraph' else 'digraph'
        cases.append(('mutation', ty2, fmt, t2, dict(mutation=kind)))
        ctx.tally('mutation kind', kind)
    for _ in range(1500 if quick else 20000):
        ty = rng.choice(TYPES)
        fmt = rng.choice([f for f in formats[ty] if f in INHOUSE])
        cases.append(('random-text', ty, fmt, random_text(rng, fmt), None))
    # fixed texts: the known deviations and a few boundary files
    for ty, fmt, t in [('simple', 'kthlist', ''), ('dag', 'kthlist', 'c only a comment\n\n'), ('bipartite', 'kthlist', ''),
                       ('simple', 'dimacs', 'p edge 2 1\n\ne 1 2\n'), ('digraph', 'dimacs', 'p edge 2 1\ne 1 2\n \n'),
                       ('bipartite', 'kthlist', '3\n1 : 2 0\n1 : 3 0\n'), ('bipartite', 'kthlist', '4\n2 : 3 0\n1 : 4 0\n'),
                       ('dag', 'kthlist', '3\n1 : 2 0\n'), ('dag', 'kthlist', '3\n2 : 1 0\n'), ('dag', 'dimacs', 'p edge 2 1\ne 2 1\n'),
                       ('dag', 'dimacs', 'p edge 2 1\ne 1 2\n'), ('dag', 'dimacs', 'p edge 2 1\ne 1 1\n'),
                       ('simple', 'dimacs', ''), ('bipartite', 'matrix', ''), ('bipartite', 'matrix', '0 0'), ('bipartite', 'matrix', '2 0\n\n\n'),
                       ('bipartite', 'matrix', '1 2 1 0'), ('bipartite', 'matrix', '1 2\n1 0\n# end\n'), ('bipartite', 'matrix', '1 2\n1 0\n1'),
                       ('bipartite', 'matrix', '1 2\n1 2\n'), ('simple', 'kthlist', '2\n2 : 1 0\n2\n'), ('simple', 'kthlist', '1 : 0\n1\n'),
                       # self loops, for each type
                       ('simple', 'dimacs', 'p edge 2 1\ne 1 1\n'), ('digraph', 'dimacs', 'p edge 2 1\ne 1 1\n'),
                       ('simple', 'kthlist', '2\n1 : 1 0\n'), ('digraph', 'kthlist', '2\n1 : 1 0\n'), ('dag', 'kthlist', '2\n1 : 1 0\n'),
                       ('bipartite', 'kthlist', '2\n1 : 1 0\n'), ('bipartite', 'kthlist', '2\n1 : 2 0\n2 : 0\n'),
                       # duplicate edges
                       ('simple', 'dimacs', 'p edge 2 2\ne 1 2\ne 2 1\n'), ('digraph', 'dimacs', 'p edge 2 2\ne 1 2\ne 1 2\n'),
                       ('simple', 'dimacs', 'p edge 2 1\ne 1 2\ne 1 2\n'), ('simple', 'kthlist', '3\n3 : 1 1 2 0\n'),
                       ('simple', 'kthlist', '2\n1 : 2 0\n2 : 1 0\n'), ('bipartite', 'kthlist', '3\n1 : 2 2 3 0\n'),
                       # very large vertex numbers; large but allocatable sizes
                       ('simple', 'dimacs', 'p edge 3 1\ne 1 123456789012345678901234567890\n'),
                       ('simple', 'dimacs', 'p edge 100000 1\ne 1 100000\n'), ('simple', 'kthlist', '100000\n100000 : 1 0\n'),
                       ('digraph', 'kthlist', '3\n18446744073709551616 : 1 0\n'), ('bipartite', 'kthlist', '1000000\n999999 : 1000000 0\n'),
                       ('bipartite', 'kthlist', '4\n1 : 340282366920938463463374607431768211456 0\n'),
                       ('bipartite', 'matrix', '0 100000\n'), ('bipartite', 'matrix', '100000 0\n'), ('bipartite', 'matrix', '1 1\n18446744073709551617\n'),
                       ('simple', 'kthlist', '-0\n'), ('simple', 'kthlist', '+2\n2 : +1 0\n'), ('simple', 'dimacs', 'p edge 0_2 0_1\ne 1 2\n'),
                       # comments in odd places, line ends
                       ('simple', 'kthlist', 'c a\nc b\n2\nc 1 : 2 0\n2 : 1 0\nc\n'), ('simple', 'kthlist', '2\n2 : 1 0 c x\n'),
                       ('simple', 'kthlist', ' c\n2\n'), ('simple', 'dimacs', 'c\np edge 2 1\nc e 1 2\ne 1 2\nc\n'),
                       ('simple', 'dimacs', 'p edge 2 1 c\ne 1 2\n'), ('simple', 'dimacs', ' c x\np edge 2 1\n  e 1 2\n'),
                       ('bipartite', 'matrix', '# a\n1 2\n# b\n1 0\n#\n'), ('bipartite', 'matrix', '1 2 # x\n1 0\n'),
                       ('bipartite', 'matrix', '1 2\n1 # x\n0\n'), ('bipartite', 'matrix', ' #\n1 1\n1\n'),
                       ('simple', 'kthlist', '2\r\n2 : 1 0\r\n'), ('simple', 'dimacs', 'p edge 2 1\r\n\r\ne 1 2\r\n'),
                       ('bipartite', 'matrix', '1 2\r\n1 0\r\n\r\n'), ('simple', 'kthlist', '2\r2 : 1 0\r'), ('simple', 'dimacs', 'p edge 2 1\re 1 2\r'),
                       ('bipartite', 'kthlist', '3\r\n1 : 2 3 0\r\n\r\n')]:
        cases.append(('fixed-text', ty, fmt, t, None))
    nbefore = len(cases)
    cases = [c for c in cases if not huge_declared_size(c[3], c[2])]
    ctx.tally('texts not run', 'huge declared size: %d' % (nbefore - len(cases)))
    reqs = [cmd('gio_read', has_dot, Sym(ty), Sym(fmt), t) for (_s, ty, fmt, t, _e) in cases]
    reps = ctx.model.batch(reqs)
    reps_af = ctx.model.batch([cmd('gio_read_as_found', has_dot, Sym(ty), Sym(fmt), t) for (_s, ty, fmt, t, _e) in cases])
    for (stream, ty, fmt, t, extra), rep, rep_af in zip(cases, reps, reps_af):
        ctx.count(stream, (ty, fmt, t), len(t) > 0, sample=dict(graph_type=ty, format=fmt, text=t[:200], **(extra or {})))
        if is_error(rep) or is_error(rep_af):
            ctx.violation('correspondence', 'model error', dict(input=dict(text=t, graph_type=ty, format=fmt), model=[rep, rep_af]), False,
                          site='model-error', cls=stream)
            continue
        got = impl_read(G, t, ty, fmt)
        mod = model_outcome(rep)
        af = model_outcome(rep_af)
        ctx.tally(stream + ' verdict', fmt + ':' + (got[1] if got[0] == 'exc' else 'graph'))
        if not verdict_eq(mod, af):
            ctx.tally('texts on which the repairs matter', '%s:%s -> %s' % (fmt, af[1] if af[0] == 'exc' else 'graph', mod[1] if mod[0] == 'exc' else 'graph'))
        classify_reader(ctx, stream, t, ty, fmt, got, mod, extra, af)

    # ---------------- formats that are not valid for the type ----------------
    g0 = {ty: mk_graph(G, ty, 2, 2 if ty == 'bipartite' else 0, [(1, 2)], 'G') for ty in TYPES}
    for ty in TYPES:
        for fmt in ['kthlist', 'gml', 'dot', 'dimacs', 'matrix']:
            ok = fmt in formats[ty]
            rep = ctx.model.call(Sym('gio_read'), has_dot, Sym(ty), Sym(fmt), '')
            ctx.count('bad-format', (ty, fmt), True, sample=dict(graph_type=ty, format=fmt))
            model_rejects = (rep[0] == 'raise' and rep[1] == 'ValueError') and not ok
            w = outcome(impl_write, G, g0[ty], ty, fmt)
            r = None if ok else impl_read(G, 'nonsense', ty, fmt)
            if ok:
                if w[0] != 'ok':
                    ctx.violation('counterexample', 'a supported format is refused by writeGraph', dict(input=dict(graph_type=ty, format=fmt), implementation=list(w[1:])),
                                  True, site='format-table', cls='supported-refused')
                continue
            if not model_rejects:
                ctx.violation('correspondence', 'format table of the model differs', dict(input=dict(graph_type=ty, format=fmt), model=rep), False,
                              site='format-table', cls='model')
            if not (r[0] == 'exc' and r[1] == 'ValueError') or not (w[0] == 'exc' and w[1] == 'ValueError'):
                ctx.violation('counterexample', 'a format that is not valid for the graph type is not refused with ValueError',
                              dict(input=dict(graph_type=ty, format=fmt), read=list(r), write=list(w)), True, site='format-table', cls='unsupported-accepted')

    # unknown format names and format guessing on a stream without a name: refused with ValueError (check only)
    for ty in TYPES:
        for fmt in ['foo', '', 'KTHLIST', 'autodetect', 'adjlist']:
            r = impl_read(G, '1\n', ty, fmt)
            w = outcome(impl_write, G, g0[ty], ty, fmt)
            ctx.count('bad-format', (ty, fmt), True)
            if not (r[0] == 'exc' and r[1] == 'ValueError') or not (w[0] == 'exc' and w[1] == 'ValueError'):
                ctx.violation('counterexample', 'an unknown format name is not refused with ValueError',
                              dict(input=dict(graph_type=ty, format=fmt), read=[str(x) for x in r], write=[str(x) for x in w[:2]]), True,
                              site='format-table', cls='unknown-accepted')

    run_labels(ctx, G, quick, has_dot)
    run_cli(ctx, G, quick, has_dot)
    ctx.exhaustive = False


# --------------------------------------------------------------------------
def gen_labels(rng, fmt, k):
    """k distinct node labels (strings for dot, integers for gml) and the name of the mix"""
    if fmt == 'gml':
        mode = rng.choice(['contiguous-from-0', 'gaps', 'gaps', 'large', 'negative'])
        pool = {'contiguous-from-0': range(0, k), 'gaps': range(0, 60), 'large': range(10 ** 9, 10 ** 9 + 50), 'negative': range(-20, 20)}[mode]
        labs = rng.sample(list(pool), k)
        if mode == 'contiguous-from-0' and rng.random() < 0.5:
            labs.sort()
        return mode, labs
    mode = rng.choice(['ints', 'ints', 'ints-wide', 'leading-zero', 'alpha', 'mixed', 'float', 'quoted'])
    k = min(k, {'quoted': 9, 'leading-zero': 14}.get(mode, 15))     # size of the smallest pool below
    if mode == 'ints':
        labs = [str(x) for x in rng.sample(range(0, 30), k)]
    elif mode == 'ints-wide':
        labs = [str(x) for x in rng.sample([1, 2, 9, 10, 11, 19, 20, 99, 100, 101, 1000, 12345678901234567890, 5, 50, 500], k)]
    elif mode == 'leading-zero':
        labs = [str(x) for x in rng.sample(range(1, 15), k)]
        labs = [('0' * rng.randint(1, 2) + l) if rng.random() < 0.4 else l for l in labs]
        if k >= 2 and rng.random() < 0.3:
            labs[0] = '0' + labs[1].lstrip('0')       # the same integer twice: networkx merges the two nodes
            if labs[0] == labs[1]:
                labs[0] = '00' + labs[1]
    elif mode == 'alpha':
        labs = rng.sample(['a', 'b', 'c', 'n1', 'n2', 'n9', 'n10', 'n11', 'A', 'B', 'x_1', 'x_10', 'x_2', 'zz', 'Z'], k)
    elif mode == 'mixed':
        labs = [str(x) for x in rng.sample(range(1, 25), k)]
        labs[rng.randrange(k)] = rng.choice(['a', 'n3', 'B', 'x_1'])
    elif mode == 'float':
        labs = [str(x) for x in rng.sample(range(1, 25), k)]
        labs[rng.randrange(k)] = rng.choice(['1.5', '2.0', '10.25'])
    else:
        labs = ['"%s"' % x for x in rng.sample(['1', '2', '10', '1 0', 'x y', '3', ' 4', '5 ', 'a'], k)]
    return mode, labs


def label_file(rng, ty, fmt):
    """a hand-written dot / gml file; returns (mix, text)"""
    k = rng.randint(1, 9) if rng.random() < 0.6 else rng.randint(10, 14)
    mode, labs = gen_labels(rng, fmt, k)
    k = len(labs)
    directed = ty in ('digraph', 'dag')
    if ty == 'bipartite':
        side = [0 if rng.random() < 0.5 else 1 for _ in labs]
        if rng.random() < 0.6:          # left nodes first, as the writers do; else interleaved
            order = sorted(range(k), key=lambda i: side[i])
            labs, side = [labs[i] for i in order], [side[i] for i in order]
        left = [l for l, c in zip(labs, side) if c == 0]
        right = [l for l, c in zip(labs, side) if c == 1]
        edges = []
        for _ in range(rng.randint(0, 2 * k)):
            if left and right and rng.random() < 0.93:
                u, v = rng.choice(left), rng.choice(right)
                edges.append((u, v) if rng.random() < 0.8 else (v, u))
            elif len(labs) >= 2:
                edges.append(tuple(rng.sample(labs, 2)))     # may lie inside one side: refused
    else:
        side = None
        edges = []
        for _ in range(rng.randint(0, 2 * k)):
            u, v = rng.choice(labs), rng.choice(labs)
            if u == v and rng.random() < 0.8:
                continue
            if ty == 'dag' and rng.random() < 0.8:
                # mostly increasing in the order the reader is expected to give the labels
                strs = [str(l).strip('"') for l in labs]
                numeric = all(x.lstrip('-').isdigit() for x in strs)
                key = (lambda x: int(str(x).strip('"'))) if numeric else (lambda x: str(x).strip('"'))
                u, v = sorted([u, v], key=key)
                if u == v:
                    continue
            edges.append((u, v))
    if fmt == 'dot':
        strict = rng.random() < 0.7
        arrow = '->' if directed else '--'
        out = ['%s%s %s {' % ('strict ' if strict else '', 'digraph' if directed else 'graph', rng.choice(['G', '"a name"', 'g1']))]
        decl = ['%s%s;' % (l, '' if side is None else ' [bipartite=%d]' % side[i]) for i, l in enumerate(labs)]
        eds = ['%s %s %s;' % (u, arrow, v) for u, v in edges]
        body = decl + eds
        if side is None and rng.random() < 0.3:
            body = eds + decl                     # nodes first met in an edge keep that position in networkx
        out += ['  ' + x for x in body] + ['}']
        return mode, '\n'.join(out) + '\n'
    out = ['graph [', '  name "G"', '  directed %d' % (1 if directed else 0)]
    for i, l in enumerate(labs):
        out.append('  node [ id %d label "v%d"%s ]' % (l, i, '' if side is None else ' bipartite %d' % side[i]))
    seen = set()
    for u, v in edges:
        kk = (u, v) if directed else (min(u, v), max(u, v))
        if kk in seen:
            continue                               # a repeated edge needs `multigraph 1` in GML
        seen.add(kk)
        out.append('  edge [ source %d target %d ]' % (u, v))
    out.append(']')
    return mode, '\n'.join(out) + '\n'


def run_labels(ctx, G, quick, has_dot):
    """cnfgen's own step after the dot / gml parsers, on labels that are not 1..n"""
    import networkx
    rng = ctx.rng
    jobs, reqs = [], []
    fmts = ['dot', 'gml'] if has_dot else ['gml']
    for _ in range(90 if quick else 900):
        ty = rng.choice(TYPES)
        fmt = rng.choice(fmts)
        mode, text = label_file(rng, ty, fmt)
        ctx.tally('labels mix', '%s:%s' % (fmt, mode))
        # the parser alone (oracle): node labels in networkx order, attributes, edges
        try:
            if fmt == 'dot':
                import contextlib
                with contextlib.redirect_stdout(io.StringIO()):
                    P = networkx.nx_pydot.read_dot(io.StringIO(text))
                if '\\n' in P:
                    P.remove_node('\\n')
            else:
                P = networkx.read_gml((l.encode('ascii') for l in io.StringIO(text)), label='id')
        except Exception as e:  # noqa
            P = None
            perr = type(e).__name__
        got = impl_read(G, text, ty, fmt)
        inp = dict(text=text, graph_type=ty, format=fmt, labels=mode)
        ctx.count('labels', (ty, fmt, text), True, sample=dict(graph_type=ty, format=fmt, labels=mode, text=text[:300]))
        ctx.tally('labels verdict', fmt + ':' + (got[1] if got[0] == 'exc' else 'graph'))
        if got[0] == 'exc' and got[1] != 'ValueError':
            ctx.disagreements_checked += 1
            ctx.violation('counterexample', 'readGraph raised %s (not ValueError) on a %s file' % (got[1], fmt),
                          dict(input=inp, implementation=list(got)), True, site=fmt + '-reader', cls='raises-' + got[1])
            continue
        if P is None:
            ctx.tally('labels skipped', 'parser raised ' + perr)
            continue
        nodes = list(P.nodes())
        edges = [[u, v] for (u, v) in P.edges()]
        if directed_mismatch(P, ty):
            ctx.tally('labels skipped', 'graph kind of the file differs from the type')
            continue
        if ty == 'bipartite':
            cols = [P.nodes[u].get('bipartite') for u in nodes]
            if any(c not in ('0', '1', 0, 1) for c in cols):
                ctx.tally('labels skipped', 'node without side')
                continue
            pairs = [[u, int(c)] for u, c in zip(nodes, cols)]
            if fmt == 'dot':
                reqs.append(cmd('gio_dot_bip_norm', P.name, pairs, edges))
            else:
                reqs.append(cmd('gio_bip_from_nx_int', P.name, pairs, edges))
        elif fmt == 'dot':
            reqs.append(cmd('gio_dot_norm', Sym(KIND[ty]), P.name, nodes, edges))
            reqs.append(cmd('gio_dot_norm_as_found', Sym(KIND[ty]), P.name, nodes, edges))
            jobs.append((inp, ty, fmt, got, 2))
            continue
        else:
            reqs.append(cmd('gio_from_nx_int', Sym(KIND[ty]), P.name, nodes, edges))
        jobs.append((inp, ty, fmt, got, 1))
    reps = ctx.model.batch(reqs)
    k = 0
    for (inp, ty, fmt, got, n) in jobs:
        mine = reps[k:k + n]
        k += n
        r = mine[0]
        if is_error(r):
            ctx.violation('correspondence', 'model error', dict(input=inp, model=r), False, site='model-error', cls='labels')
            continue
        if ty == 'bipartite' and fmt == 'gml':
            mod = model_outcome(r)
        elif r is None or r == 'none':
            ctx.tally('labels skipped', 'outside the model (merged labels / dangling edge)')
            continue
        else:
            mod = dag_filter(ty, model_outcome(r[1]))
        if verdict_eq(got, mod, names=False):
            continue
        ctx.disagreements_checked += 1
        rec = dict(input=inp, implementation=list(got), model=list(mod), correspondence='GraphIO.v gio_dot_normalize / gio_from_nx <-> readGraph/' + fmt)
        if n == 2 and mine[1] not in (None, 'none') and not is_error(mine[1]):
            af = dag_filter(ty, model_outcome(mine[1][1]))
            if verdict_eq(got, af, names=False):
                # numeric labels are sorted as strings again: D9
                ctx.violation('counterexample', 'dot file with numeric labels: the vertices are numbered in the string order of the labels, not in their numeric order',
                              dict(rec, model_as_found=list(af)), True, site='dot-roundtrip', cls='renumbered-n>=10')
                continue
        ctx.violation('correspondence', 'graph read from a %s file differs from the model of label normalisation + from_networkx' % fmt,
                      rec, False, site=fmt + '-labels', cls='model-differs')


def directed_mismatch(P, ty):
    return P.is_directed() != (ty in ('digraph', 'dag'))


# --------------------------------------------------------------------------
def run_primitives(ctx, quick):
    rng = ctx.rng
    strs = ['', ' ', '5', ' 5 ', '+5', '-5', '+-5', '1_0', '_1', '1_', '1__0', '007', '-0', '\t5\n', '5\x1c', '\x1c5', '\xa05', '5\x85',
            '\xb2', '1 2', ' : ', 'a:b:c', ':', '::', 'a\nb', 'a\n\nb\n', '\n', 'a\rb', 'x\x0cy', '  a  b  ']
    alphabet = '0123456789' * 3 + '+-_ :\n\t\r\x0b\x0c\x1c\x1f\x85\xa0xc#.e' + '\xb2\xb9\xff\x00'
    for _ in range(1500 if quick else 15000):
        strs.append(''.join(rng.choice(alphabet) for _ in range(rng.randint(0, 9))))
    ints = [0, 1, -1, 9, 10, 11, 99, 100, 101, 12345678901234567, -4300, 2 ** 40, 10 ** 17 - 1] + [rng.randint(-10 ** 6, 10 ** 6) for _ in range(300)]
    reqs = []
    for s in strs:
        reqs += [cmd('gt_int', s), cmd('gt_split', s), cmd('gt_strip', s), cmd('gt_lines', s), cmd('gt_split_on', ':', s)]
    for z in ints:
        reqs.append(cmd('gt_print', z))
    reps = ctx.model.batch(reqs)
    for i, s in enumerate(strs):
        ctx.count('primitives', ('s', s), len(s) > 0, sample=dict(string=s))
        try:
            pi = ['some', int(s)]
        except ValueError:
            pi = None
        exp = [pi, s.split(), s.strip(), io.StringIO(s).readlines(), s.split(':')]
        got = reps[5 * i:5 * i + 5]
        g0 = None if got[0] is None or got[0] == 'none' else ['some', got[0][1]]
        for name, a, b in zip(['int', 'split', 'strip', 'readlines', "split(':')"], exp, [g0] + got[1:]):
            if a != b:
                ctx.disagreements_checked += 1
                ctx.violation('correspondence', 'GText.v primitive %s differs from CPython' % name,
                              dict(input=dict(string=s, primitive=name), implementation=a, model=b), False, site='primitive', cls=name)
    for j, z in enumerate(ints):
        ctx.count('primitives', ('z', z), True)
        if reps[5 * len(strs) + j] != str(z):
            ctx.violation('correspondence', 'GText.v gt_print_Z differs from str(int)', dict(input=dict(integer=z), model=reps[5 * len(strs) + j]),
                          False, site='primitive', cls='str(int)')


# --------------------------------------------------------------------------
def run_cli(ctx, G, quick, has_dot):
    """graph argument of the command line: '<format> <file>', '<file>' with extension, 'save'"""
    from cnfgen.clitools.graph_args import make_graph_from_spec
    rng = ctx.rng
    tmp = tempfile.mkdtemp(prefix='c14-')
    reqs, jobs = [], []
    try:
        for i in range(12 if quick else 80):
            ty = rng.choice(TYPES)
            n, r, es = random_graph(rng, ty, 14)
            g = mk_graph(G, ty, n, r, es, 'G')
            cg = canon(g)
            fmt = rng.choice([f for f in G.supported_graph_formats()[ty] if f in INHOUSE])
            src = os.path.join(tmp, 'in%d.%s' % (i, fmt))
            with open(src, 'w') as f:
                f.write(impl_write(G, g, ty, fmt))
            fmt2 = rng.choice([f for f in G.supported_graph_formats()[ty] if f in INHOUSE])
            dst = os.path.join(tmp, 'out%d.%s' % (i, fmt2))
            spec = ([fmt, src] if rng.random() < 0.5 else [src]) + ['save'] + ([fmt2, dst] if rng.random() < 0.5 else [dst])
            ctx.count('cli', (ty, tuple(spec), tuple(map(tuple, cg[4]))), n + r > 0, sample=dict(graph_type=ty, spec=spec))
            res = outcome(make_graph_from_spec, ty, spec)
            inp = dict(graph_type=ty, spec=spec, graph=cg)
            if res[0] != 'ok':
                ctx.violation('counterexample', 'a valid graph file argument raised %s' % res[1], dict(input=inp, implementation=list(res[1:])), True,
                              site='cli-file', cls='raises-' + res[1])
                continue
            got = canon(res[1])
            if not same_graph(got, cg, names=False):
                ctx.violation('counterexample', 'graph loaded from a file argument differs from the file', dict(input=inp, implementation=got), True,
                              site='cli-file', cls='graph-changed')
                continue
            saved = open(dst).read()
            back = impl_read(G, saved, ty, fmt2)
            if back[0] != 'ok' or not same_graph(back[1], got, names=False):
                ctx.violation('counterexample', "'save' stored a different graph", dict(input=inp, saved=saved, read_back=list(back)), True,
                              site='cli-save', cls='graph-changed')
            jobs.append((inp, got, saved, ty, fmt2))
            reqs.append(cmd('gio_write', has_dot, Sym(ty), Sym(fmt2), [Sym(got[0]), got[1], got[2], got[3], got[4]]))
        # missing extension / wrong extension / unknown format: refused with ValueError
        p = os.path.join(tmp, 'noext')
        open(p, 'w').write('1\n')
        for ty, spec in [('simple', [p]), ('simple', [os.path.join(tmp, 'in0.matrix')]), ('bipartite', ['dimacs', p]), ('dag', ['matrix', p])]:
            if not os.path.exists(spec[-1]):
                open(spec[-1], 'w').write('1 1\n0\n')
            res = outcome(make_graph_from_spec, ty, spec)
            ctx.count('cli', (ty, tuple(spec)), True)
            if not (res[0] == 'exc' and res[1] == 'ValueError'):
                ctx.violation('counterexample', 'a graph file argument without a usable format is not refused with ValueError',
                              dict(input=dict(graph_type=ty, spec=spec), implementation=[str(x) for x in res[1:]]), True, site='cli-file', cls='format-not-refused')
        # text-mode files translate \r\n and \r to \n before the readers see them
        nl_jobs, nl_reqs = [], []
        for i in range(8 if quick else 60):
            ty = rng.choice(TYPES)
            n, r, es = random_graph(rng, ty, 12)
            g = mk_graph(G, ty, n, r, es, 'G')
            fmt = rng.choice([f for f in G.supported_graph_formats()[ty] if f in INHOUSE])
            sep = rng.choice(['\r\n', '\r'])
            raw = impl_write(G, g, ty, fmt).replace('\n', sep)
            pth = os.path.join(tmp, 'nl%d.%s' % (i, fmt))
            with open(pth, 'wb') as f:
                f.write(raw.encode('ascii'))
            res = outcome(lambda: canon(G.readGraph(pth, ty, fmt)))
            seen = raw.replace('\r\n', '\n').replace('\r', '\n')
            nl_jobs.append((dict(graph_type=ty, format=fmt, file_bytes=raw), res, ty, fmt, seen))
            nl_reqs.append(cmd('gio_read', has_dot, Sym(ty), Sym(fmt), seen))
            ctx.count('cli', (ty, fmt, raw), True, sample=dict(graph_type=ty, format=fmt, line_ends=repr(sep)))
        for (inp, res, ty, fmt, seen), rep in zip(nl_jobs, ctx.model.batch(nl_reqs)):
            got = ('ok', res[1]) if res[0] == 'ok' else ('exc', res[1])
            classify_reader(ctx, 'cli', seen, ty, fmt, got, model_outcome(rep), dict(file_bytes=inp['file_bytes']))
        for (inp, got, saved, ty, fmt2), rep in zip(jobs, ctx.model.batch(reqs)):
            if is_error(rep) or rep[0] != 'ok' or rep[1] != saved:
                ctx.violation('correspondence', "text stored by 'save' differs from the model writer", dict(input=inp, saved=saved, model=rep), False,
                              site=fmt2 + '-writer', cls='text-differs')
    finally:
        for f in os.listdir(tmp):
            os.unlink(os.path.join(tmp, f))
        os.rmdir(tmp)


def replay(ctx, rp):
    """re-run one recorded reader / round-trip case"""
    import_impl()
    import cnfgen.graphs as G
    inp = rp.get('input', {})
    ty, fmt = inp.get('graph_type'), inp.get('format')
    has_dot = G.has_dot_library()
    if 'text' in inp and fmt in INHOUSE:
        rep = ctx.model.call(Sym('gio_read'), has_dot, Sym(ty), Sym(fmt), inp['text'])
        rep_af = ctx.model.call(Sym('gio_read_as_found'), has_dot, Sym(ty), Sym(fmt), inp['text'])
        ctx.count('replay', (ty, fmt, inp['text']), True, sample=inp)
        classify_reader(ctx, 'replay', inp['text'], ty, fmt, impl_read(G, inp['text'], ty, fmt), model_outcome(rep),
                        af=model_outcome(rep_af))
    if 'graph' in inp and fmt:
        cg = inp['graph']
        g = mk_graph(G, ty, cg[2], cg[3], [tuple(e) for e in cg[4]], cg[1])
        back = impl_read(G, impl_write(G, g, ty, fmt), ty, fmt)
        ctx.count('replay', (ty, fmt, str(cg)), True, sample=inp)
        if back[0] != 'ok' or not same_graph(back[1], canon(g), names=False):
            big = (cg[2] + cg[3]) >= 10
            ctx.violation('counterexample', 'write then read in %s format does not return the same %s graph' % (fmt, ty),
                          dict(input=inp, read_back=list(back)), True, site=fmt + '-roundtrip',
                          cls='renumbered-n>=10' if (fmt == 'dot' and big and back[0] == 'ok') else 'graph-changed')
