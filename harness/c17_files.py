"""C17 (files part) -- the whole-program models with FILE arguments (coq/PipelineFiles.v) against the real tools:

    cnfgen_files_main : argv * files * stdin -> bytes     `cnfgen <family> <graph file>`, `cnfgen dimacs [<file>|-]`
    k2p_main          : argv * files * stdin -> bytes     `kthlist2pebbling [-q] [-i <file>] [<transformation> ..]`

`run_files_pipeline(ctx)` is called from harness/c17.py.  The harness writes small graphs ITSELF as text (kthlist,
dimacs, matrix; valid texts with comments, blank lines, decorated numbers, "\\r\\n" line ends, rows left out; and a
malformed stream: truncated, wrong counts, junk tokens, empty file, comment-only file, rows out of order, vertices out
of range, an edge against the order in a dag ...), puts them in a scratch directory under relative and absolute names,
with the format given by the extension or by an explicit format token, and runs the REAL tools there in child
processes (harness/files_child.py: 2 GiB address space, time limit).  The model gets the same argv, the same
texts under the same names, and the same standard input; the comparison is byte for byte (POut), exit status 255
with empty stdout and a `c `-prefixed message without traceback (PCliError).

On a disagreement the property is decided on the real side: the text is read with the LIBRARY reader
(cnfgen.readGraph on a StringIO) and the documented generator is applied to that graph, then the transformation
functions; a difference with what the tool wrote, a traceback, or the tool accepting a text the library reader
rejects (or the reverse) is a failing input of C17 (kind counterexample; the site names the sub-command and the
reader: `files:<sub>:<format>`); otherwise the model no longer covers the code (kind correspondence).  For
kthlist2pebbling the property "equals `peb` on the same file" is ALSO checked directly on the two real outputs, and
for `dimacs` the re-printed text is fed back to the tool (idempotence)."""
import io
import json
import os
import random
import shutil
import subprocess
import tempfile
import time

import clirun
import lib
from lib import cmd
import c17_pipeline as P

CHILD = os.path.join(os.path.dirname(os.path.abspath(__file__)), 'files_child.py')
WORKERS = 12


# --------------------------------------------------------------------------
# the real tools
# --------------------------------------------------------------------------
def _serve(reqs, limit=60):
    env = dict(os.environ)
    env['PYTHONHASHSEED'] = '0'
    env['PYTHONPATH'] = lib.REPO
    env[lib.GUARD] = '1'
    env.pop('PYTHONSTARTUP', None)
    text = ''.join(json.dumps(r) + '\n' for r in reqs)
    p = subprocess.run([lib.PY, '-W', 'ignore', CHILD, lib.REPO, str(limit)], input=text.encode(), stdout=subprocess.PIPE,
                       stderr=subprocess.PIPE, cwd=lib.REPO, env=env, timeout=limit * max(1, len(reqs)) + 60)
    lines = [ln for ln in p.stdout.decode().split('\n') if ln]
    if len(lines) != len(reqs):
        raise RuntimeError('fork server answered %d of %d (stderr %s)' % (len(lines), len(reqs), p.stderr.decode()[-300:]))
    return [json.loads(ln) for ln in lines]


def run_real(reqs, workers=WORKERS):
    if not reqs:
        return []
    k = max(1, min(workers, len(reqs) // 8 or 1))
    shards = [reqs[i::k] for i in range(k)]
    res = clirun.parallel([(lambda s=s: _serve(s)) for s in shards], workers=k)
    out = [None] * len(reqs)
    for i, shard in enumerate(res):
        for j, r in enumerate(shard):
            out[i + j * k] = r
    return out


def _model_chunk(ctx, reqs, limit):
    try:
        return ctx.model.batch(reqs, timeout=limit)
    except subprocess.TimeoutExpired:
        if len(reqs) == 1:
            return [[lib.Sym('slow')]]
        h = len(reqs) // 2
        sub = max(8, limit // 3)
        return _model_chunk(ctx, reqs[:h], sub) + _model_chunk(ctx, reqs[h:], sub)


def model_replies(ctx, reqs, chunk=100, workers=8, limit=45):
    chunks = [reqs[i:i + chunk] for i in range(0, len(reqs), chunk)]
    res = clirun.parallel([(lambda c=c: _model_chunk(ctx, c, limit)) for c in chunks], workers=workers)
    return [r for part in res for r in part]


# --------------------------------------------------------------------------
# graphs as text, written here
# --------------------------------------------------------------------------
def gen_graph(rng, kind, nmax=6):
    """simple / dag: (n, sorted edges u < v); bipartite: (L, R, sorted edges)"""
    if kind == 'bipartite':
        L, R = rng.randint(1, 4), rng.randint(1, 4)
        p = rng.choice([0.0, 0.3, 0.6, 1.0])
        return (L, R, sorted((u, v) for u in range(1, L + 1) for v in range(1, R + 1) if rng.random() < p))
    n = rng.choice([1, 2, 3, 3, 4, 4, 5, nmax])
    p = rng.choice([0.0, 0.3, 0.5, 0.8, 1.0])
    return (n, sorted((u, v) for u in range(1, n + 1) for v in range(u + 1, n + 1) if rng.random() < p))


def num(rng, z, plain):
    s = str(z)
    if plain or rng.random() > 0.1:
        return s
    return rng.choice(['+' + s, '0' + s, '00' + s])


def decorate(rng, lines, plain):
    """comment / blank lines in between, other line ends"""
    out = []
    for ln in lines:
        if not plain and rng.random() < 0.12:
            out.append(rng.choice(['c a comment', 'c', '', '   ', 'c 1 : 2 0', 'c p edge 1 1']))
        out.append(ln)
    if not plain and rng.random() < 0.2:
        out.append(rng.choice(['', 'c end', '  ']))
    eol = '\n' if plain or rng.random() < 0.85 else rng.choice(['\r\n', '\r'])
    text = eol.join(out)
    if plain or rng.random() < 0.85:
        text += eol
    return text


def w_kthlist(rng, kind, G, plain=False):
    if kind == 'bipartite':
        L, R, E = G
        lines = ['c bipartite'] if rng.random() < 0.5 else []
        lines.append(num(rng, L + R, plain))
        for u in range(1, L + 1):
            nb = [v + L for (a, v) in E if a == u]
            if not nb and not plain and rng.random() < 0.3:
                continue
            lines.append('%s :%s 0' % (num(rng, u, plain), ''.join(' ' + num(rng, v, plain) for v in nb)))
        return decorate(rng, lines, plain)
    n, E = G
    lines = ['c graph'] if rng.random() < 0.5 else []
    lines.append(num(rng, n, plain))
    both = kind == 'simple' and rng.random() < 0.5          # the writer of cnfgen lists every neighbour of a simple graph
    sep = ' :' if plain or rng.random() < 0.8 else rng.choice([':', '  :  ', '\t:'])
    for v in range(1, n + 1):
        nb = [a for (a, b) in E if b == v] + ([b for (a, b) in E if a == v] if both else [])
        if not nb and not plain and rng.random() < 0.3:
            continue
        lines.append('%s%s%s 0' % (num(rng, v, plain), sep, ''.join(' ' + num(rng, u, plain) for u in nb)))
    return decorate(rng, lines, plain)


def w_dimacs(rng, kind, G, plain=False):
    n, E = G
    es = list(E)
    if not plain and rng.random() < 0.4:
        rng.shuffle(es)
    if kind == 'simple' and not plain:
        es = [(v, u) if rng.random() < 0.3 else (u, v) for (u, v) in es]
    lines = ['c dimacs graph'] if rng.random() < 0.5 else []
    lines.append('p edge %s %s' % (num(rng, n, plain), num(rng, len(es), plain)))
    lines += ['e %s %s' % (num(rng, u, plain), num(rng, v, plain)) for (u, v) in es]
    return decorate(rng, lines, plain)


def w_matrix(rng, G, plain=False):
    L, R, E = G
    lines = ['%d %d' % (L, R)]
    S = set(E)
    for u in range(1, L + 1):
        lines.append(' '.join('1' if (u, v) in S else '0' for v in range(1, R + 1)))
    if not plain and rng.random() < 0.3:
        return ' '.join(lines) + '\n'                       # one line: the reader is a stream of integers
    return decorate(rng, lines, True) if plain else '\n'.join(lines) + rng.choice(['\n', '', '\n\n'])


def write_text(rng, kind, fmt, G, plain=False):
    if fmt == 'kthlist':
        return w_kthlist(rng, kind, G, plain)
    if fmt == 'dimacs':
        return w_dimacs(rng, kind, G, plain)
    return w_matrix(rng, G, plain)


JUNK = ['x', '1.5', '-1', '19', '0', '1e1', '', ':', '::', 'e', 'p', '1_0', '--', '\x00', '2 2']
MAXNUM = 24          # no number above this in any text: the formulas (and the memory of tool, library and model) stay small


def mutate(rng, text):
    """one malformed variant of a valid text; returns (text, kind)"""
    kind = rng.choice(['truncate', 'truncate', 'junk-token', 'junk-token', 'drop-line', 'dup-line', 'swap-lines', 'count', 'empty', 'comments-only', 'append', 'blank-inside',
                       'no-terminator', 'no-colon', 'reverse-tokens', 'big-vertex', 'zero-vertex', 'second-header', 'tail-junk'])
    lines = text.split('\n')
    toks = text.split()
    if kind == 'truncate' and len(text) > 1:
        return text[:rng.randint(0, len(text) - 1)], kind
    if kind == 'junk-token' and toks:
        i = rng.randrange(len(toks))
        target, count = toks[i], toks[:i].count(toks[i])
        parts = text.split(target)
        if len(parts) > count + 1:
            return target.join(parts[:count + 1]) + rng.choice(JUNK) + target.join(parts[count + 1:]), kind
    if kind == 'drop-line' and len(lines) > 1:
        i = rng.randrange(len(lines))
        return '\n'.join(lines[:i] + lines[i + 1:]), kind
    if kind == 'dup-line' and lines:
        i = rng.randrange(len(lines))
        return '\n'.join(lines[:i + 1] + lines[i:]), kind
    if kind == 'swap-lines' and len(lines) > 2:
        i, j = rng.sample(range(len(lines)), 2)
        lines[i], lines[j] = lines[j], lines[i]
        return '\n'.join(lines), kind
    if kind == 'count':
        for i, ln in enumerate(lines):
            t = ln.split()
            if t and not ln.startswith('c') and all(x.lstrip('+').isdigit() for x in t if x not in ('p', 'edge')):
                j = rng.choice([k for k, x in enumerate(t) if x.lstrip('+').isdigit()] or [0])
                try:
                    t[j] = str(max(0, int(t[j]) + rng.choice([-1, 1, 1, 2, 5])))
                except ValueError:
                    break
                lines[i] = ' '.join(t)
                return '\n'.join(lines), kind
    if kind == 'empty':
        return rng.choice(['', '\n', ' ', '\n\n']), kind
    if kind == 'comments-only':
        return rng.choice(['c nothing\n', 'c\nc\n', 'c 3\nc 1 : 0\n']), kind
    if kind == 'append':
        return text + rng.choice(['7 : 1 0\n', 'e 1 2\n', 'p edge 2 1\n', '1\n', '0 0\n', 'junk\n', '3\n', '1 : 0\n']), kind
    if kind == 'blank-inside' and len(lines) > 1:
        i = rng.randrange(1, len(lines))
        return '\n'.join(lines[:i] + [rng.choice(['', ' ', '\t'])] + lines[i:]), kind
    if kind == 'no-terminator':
        return text.replace(' 0\n', '\n', 1) if ' 0\n' in text else text.replace('0', '', 1), kind
    if kind == 'no-colon' and ':' in text:
        return text.replace(':', rng.choice(['', ';', ' : :'])), kind
    if kind == 'reverse-tokens':
        return '\n'.join(' '.join(reversed(ln.split())) for ln in lines), kind
    if kind == 'big-vertex' and toks:
        return text.replace(' 1 ', ' 23 ', 1) if ' 1 ' in text else text + '23 : 1 0\n', kind
    if kind == 'zero-vertex':
        return text.replace(' 1 ', ' 0 ', 1) if ' 1 ' in text else text.replace('1', '0', 1), kind
    if kind == 'second-header':
        i = next((k for k, ln in enumerate(lines) if ln and not ln.startswith('c')), 0)
        return '\n'.join(lines[:i + 1] + lines[i:i + 1] + lines[i + 1:]), kind
    return text + rng.choice(['x', ' 1', '\n1 2 3', '\ne 1', '\x0c']), 'tail-junk'


def too_big(text):
    """does the text mention a number above MAXNUM (as Python's int() would read a token, underscores included)?"""
    import re
    for run in re.findall(r'[0-9][0-9_]*', text):
        try:
            if int(run.replace('_', '')) > MAXNUM:
                return True
        except ValueError:
            return True
    return False


# --------------------------------------------------------------------------
# DIMACS CNF texts
# --------------------------------------------------------------------------
def gen_cnf_text(rng):
    n = rng.randint(0, 5)
    m = rng.randint(0, 6)
    cls = [[rng.choice([-1, 1]) * rng.randint(1, n) for _ in range(rng.choice([0, 1, 2, 2, 3]))] if n else [] for _ in range(m)]
    lines = []
    if rng.random() < 0.5:
        lines.append('c a formula')
    lines.append(rng.choice(['p cnf %d %d', 'p cnf %d %d', 'p  cnf  %d   %d', 'p cnf +%d %d', 'p cnf %d 0%d']) % (n, m))
    flat = []
    for c in cls:
        flat += [str(l) for l in c] + ['0']
    if rng.random() < 0.7:
        lines += [' '.join(str(l) for l in c) + (' ' if c else '') + '0' for c in cls]
    else:
        k = 0
        while k < len(flat):                                  # clauses broken across lines, several per line
            w = rng.randint(1, 5)
            lines.append(' '.join(flat[k:k + w]))
            k += w
    return decorate(rng, lines, rng.random() < 0.5)


# --------------------------------------------------------------------------
# commands
# --------------------------------------------------------------------------
SIMPLE_SUBS = ['kcolor', 'ec', 'tiling', 'matching', 'kclique', 'kcliquebin', 'domset', 'tseitin', 'op']
DAG_SUBS = ['peb', 'peb', 'stone']
BIP_SUBS = ['php', 'subsetcard']
FORMATS = {'simple': ['kthlist', 'dimacs'], 'dag': ['kthlist', 'dimacs'], 'bipartite': ['kthlist', 'matrix']}


def gen_command(rng):
    kind = rng.choice(['simple', 'simple', 'dag', 'dag', 'bipartite'])
    sub = rng.choice({'simple': SIMPLE_SUBS, 'dag': DAG_SUBS, 'bipartite': BIP_SUBS}[kind])
    c = dict(kind=kind, sub=sub, args=[], flags=[], charge=None)
    if sub == 'kcolor':
        c['args'] = [rng.randint(1, 3)]
    elif sub in ('kclique', 'kcliquebin'):
        c['args'] = [rng.randint(0, 3)]
        if sub == 'kclique':
            c['flags'] = rng.choice([[], ['--no-symmetry-breaking']])
    elif sub == 'domset':
        c['args'] = [rng.randint(1, 3)]
        c['flags'] = rng.choice([[], ['--alternative'], ['-a']])
    elif sub == 'tseitin':
        c['charge'] = rng.choice(['first', 'zero', 'one'])
    elif sub == 'op':
        c['flags'] = rng.choice(P.OP_VARIANTS) + rng.choice(P.OP_PLANT)
    elif sub == 'stone':
        c['args'] = [rng.randint(1, 3)]
    elif sub == 'php':
        c['flags'] = rng.choice(P.PHP_FLAGS)
    elif sub == 'subsetcard':
        c['flags'] = rng.choice([[], ['-e'], ['--equal']])
    c['chain'] = P.gen_chain(rng, maxlen=2)
    return c


def file_token(rng, casedir, fmt, explicit):
    """(token on the command line, path relative to the case directory or None when absolute)"""
    base = rng.choice(['g', 'graph', 'G1', 'a.b', 'data'])
    ext = ('.' + fmt) if not explicit else rng.choice(['', '.txt', '.' + fmt, '.graph', '.kthlist', '.dimacs', '.gml'])
    name = base + ext
    style = rng.choice(['plain', 'plain', 'dot', 'sub', 'abs', 'abs'])
    if style == 'plain':
        return name
    if style == 'dot':
        return './' + name
    if style == 'sub':
        return 'sub/' + name
    return os.path.join(casedir, name)


def graph_argv(rng, c, spec, quiet=True):
    args = [str(a) for a in c['args']]
    if c['charge']:
        args = [c['charge']] + args
    flags = list(c['flags'])
    rng.shuffle(flags)
    cut = rng.randint(0, len(flags))
    argv = (['-q'] if quiet else []) + [c['sub']] + flags[:cut] + args + spec + flags[cut:]
    for name, ks in c['chain']:
        argv += ['-T', name] + [str(k) for k in ks]
    return argv


# --------------------------------------------------------------------------
# the library side (only to classify a disagreement, and as a third opinion on the valid stream)
# --------------------------------------------------------------------------
def universal(text):
    return text.replace('\r\n', '\n').replace('\r', '\n')


def delivered(cs):
    """the text the file object delivers: universal newlines for a file opened in text mode, the bytes as they are on
    standard input (POSIX: sys.stdin is created with newline='\\n')"""
    return cs['text'] if cs.get('how') in ('stdin', 'stdin-dash') else universal(cs['text'])


def library_graph_text(cnfgen, kind, fmt, text):
    return cnfgen.readGraph(io.StringIO(text), kind, fmt)


def apply_chain(cnfgen, F, chain):
    one = {'xor': cnfgen.XorSubstitution, 'or': cnfgen.OrSubstitution, 'eq': cnfgen.AllEqualSubstitution, 'neq': cnfgen.NotAllEqualSubstitution,
           'maj': cnfgen.MajoritySubstitution, 'one': cnfgen.ExactlyOneSubstitution, 'lift': cnfgen.FormulaLifting}
    two = {'exact': cnfgen.ExactlyKSubstitution, 'atleast': cnfgen.AtLeastKSubstitution, 'atmost': cnfgen.AtMostKSubstitution,
           'anybut': cnfgen.AnythingButKSubstitution}
    for name, ks in chain:
        P.check_size(F, name, ks)
        if name in one:
            F = one[name](F, ks[0])
        elif name in two:
            F = two[name](F, ks[0], ks[1])
        elif name == 'flip':
            F = cnfgen.FlipPolarity(F)
        elif name == 'ite':
            F = cnfgen.IfThenElseSubstitution(F)
    if len(F) > 150000 or sum(len(c) for c in F) > 2500000:
        raise P.TooBig()
    return F


def library_outcome(cnfgen, cs):
    """('ok', text) | ('ValueError', msg) | ('exc', msg) | ('toobig',) for one case, through the library only"""
    try:
        if cs['what'] == 'dimacs':
            F = cnfgen.CNF.from_file(io.StringIO(delivered(cs)))
        else:
            c = cs['cmd']
            G = library_graph_text(cnfgen, c['kind'], cs['fmt'], delivered(cs))
            if G.number_of_vertices() > 2 * MAXNUM:
                raise P.TooBig()
            sub, a, fl = c['sub'], c['args'], set(c['flags'])
            if sub == 'kcolor':
                F = cnfgen.GraphColoringFormula(G, a[0])
            elif sub == 'ec':
                F = cnfgen.EvenColoringFormula(G)
            elif sub == 'tiling':
                F = cnfgen.Tiling(G)
            elif sub == 'matching':
                F = cnfgen.PerfectMatchingPrinciple(G)
            elif sub == 'kclique':
                F = cnfgen.CliqueFormula(G, a[0], '--no-symmetry-breaking' not in fl)
            elif sub == 'kcliquebin':
                F = cnfgen.BinaryCliqueFormula(G, a[0])
            elif sub == 'domset':
                F = cnfgen.DominatingSet(G, a[0], alternative=bool(fl & {'--alternative', '-a'}))
            elif sub == 'tseitin':
                n = G.number_of_vertices()
                F = cnfgen.TseitinFormula(G, {'first': [1] + [0] * (n - 1), 'zero': [0] * n, 'one': [1] * n}[c['charge']] if n >= 1 else None)
            elif sub == 'php':
                F = cnfgen.GraphPigeonholePrinciple(G, functional='--functional' in fl, onto='--onto' in fl)
            elif sub == 'subsetcard':
                F = cnfgen.SubsetCardinalityFormula(G, bool(fl & {'--equal', '-e'}))
            elif sub == 'op':
                kn = 2 if '--knuth2' in fl else 3 if '--knuth3' in fl else 0
                F = cnfgen.GraphOrderingPrinciple(G, bool(fl & {'--total', '-t'}), bool(fl & {'--smart', '-s'}), bool(fl & {'--plant', '-p'}), kn)
            elif sub == 'peb':
                F = cnfgen.PebblingFormula(G)
            elif sub == 'stone':
                F = cnfgen.StoneFormula(G, a[0])
            else:
                raise KeyError(sub)
        F = apply_chain(cnfgen, F, cs.get('chain', []))
        return ('ok', P.library_text(F, 'dimacs'))
    except P.TooBig:
        return ('toobig',)
    except ValueError as e:
        return ('ValueError', str(e)[:120])
    except Exception as e:  # noqa
        return ('exc', type(e).__name__ + ': ' + str(e)[:120])


def dimacs_judge(text):
    """independent reading of a DIMACS CNF text from the format description (used only to classify a disagreement):
    (n, clauses) or None when the text is not a well-formed file"""
    n = m = None
    cur, cls = [], []
    for raw in text.split('\n'):
        ln = raw.strip()
        if not ln or ln[0] == 'c':
            continue
        if ln[0] == 'p':
            t = ln.split()
            if n is not None or len(t) != 4:
                return None
            try:
                n, m = int(t[2]), int(t[3])
            except ValueError:
                return None
            if n < 0 or m < 0:
                return None
            continue
        if n is None:
            return None
        for tok in ln.split():
            try:
                v = int(tok)
            except ValueError:
                return None
            if v == 0:
                cls.append(cur)
                cur = []
            elif abs(v) <= n:
                cur.append(v)
            else:
                return None
    if n is None or cur or m != len(cls):
        return None
    return n, cls


# --------------------------------------------------------------------------
# the run
# --------------------------------------------------------------------------
def tool_agrees(m, r, prefixes=('c ',)):
    if r is None or r.get('timeout'):
        return False
    if m[0] == 'out':
        return r['rc'] == 0 and r['out'] == m[1]
    if m[0] == 'clierror':
        return r['rc'] == 255 and r['out'] == '' and 'Traceback' not in r['err'] and r['err'][:2] in prefixes
    return False


def run_files_pipeline(ctx):
    cnfgen = lib.import_impl()
    rng = random.Random(ctx.seed * 1000003 + 1714)
    quick = ctx.tier == 'quick'
    t_start = time.time()
    scratch = tempfile.mkdtemp(prefix='c17files-')
    cases = []

    def new_case(**kw):
        kw['dir'] = os.path.join(scratch, 'c%d' % len(cases))
        kw.setdefault('files', {})
        kw.setdefault('stdin', '')
        cases.append(kw)
        return kw

    def place(cs, token, text):
        cs['files'][token] = text

    # ---- cnfgen <family> <file>: valid texts
    for i in range(330 if quick else 3000):
        c = gen_command(rng)
        kind = c['kind']
        fmt = rng.choice(FORMATS[kind])
        G = gen_graph(rng, kind)
        cs = new_case(tool='cnfgen', what='graph', stream='graph-valid', cmd=c, fmt=fmt, chain=c['chain'])
        cs['text'] = write_text(rng, kind, fmt, G, plain=rng.random() < 0.4)
        explicit = rng.random() < 0.5
        tok = file_token(rng, cs['dir'], fmt, explicit)
        place(cs, tok, cs['text'])
        cs['argv'] = graph_argv(rng, c, ([fmt] if explicit else []) + [tok])
        if rng.random() < 0.1:
            cs['argv'] = cs['argv'][:1] + ['-of', rng.choice(['opb', 'dimacs'])] + cs['argv'][1:]
            cs['fmt_out'] = cs['argv'][2]
    # ---- malformed texts
    for i in range(380 if quick else 3600):
        c = gen_command(rng)
        c['chain'] = c['chain'] if rng.random() < 0.2 else []
        kind = c['kind']
        fmt = rng.choice(FORMATS[kind])
        G = gen_graph(rng, kind)
        cs = new_case(tool='cnfgen', what='graph', stream='graph-malformed', cmd=c, fmt=fmt, chain=c['chain'])
        cs['text'], cs['mut'] = mutate(rng, write_text(rng, kind, fmt, G, plain=rng.random() < 0.6))
        explicit = rng.random() < 0.5
        tok = file_token(rng, cs['dir'], fmt, explicit)
        place(cs, tok, cs['text'])
        cs['argv'] = graph_argv(rng, c, ([fmt] if explicit else []) + [tok])
    # ---- the wrong file, the wrong format, the wrong type
    for i in range(120 if quick else 1300):
        c = gen_command(rng)
        c['chain'] = []
        kind = c['kind']
        fmt = rng.choice(FORMATS[kind])
        G = gen_graph(rng, kind)
        cs = new_case(tool='cnfgen', what='graph', stream='graph-naming', cmd=c, fmt=fmt, chain=[])
        cs['text'] = write_text(rng, kind, fmt, G, plain=True)
        how = rng.choice(['missing', 'missing-explicit', 'no-ext', 'bad-ext', 'other-format', 'format-of-other-type', 'format-only', 'two-files', 'ext-of-other-format', 'gml', 'empty-name',
                          'construction-name', 'option-after'])
        cs['how'] = how
        tok = file_token(rng, cs['dir'], fmt, False)
        if how == 'missing':
            spec = [tok]
        elif how == 'missing-explicit':
            spec = [fmt, tok]
        elif how == 'no-ext':
            tok = 'graphfile'
            place(cs, tok, cs['text'])
            spec = [tok]
        elif how == 'bad-ext':
            tok = 'graph.' + rng.choice(['txt', 'cnf', 'KTHLIST', 'kthlist2', ''])
            place(cs, tok, cs['text'])
            spec = [tok]
        elif how == 'other-format':
            other = [f for f in FORMATS[kind] if f != fmt][0]
            place(cs, tok, cs['text'])
            spec = [other, tok]
            cs['fmt'] = other
        elif how == 'format-of-other-type':
            place(cs, tok, cs['text'])
            spec = ['matrix' if kind != 'bipartite' else 'dimacs', tok]
        elif how == 'format-only':
            spec = [fmt]
        elif how == 'two-files':
            place(cs, tok, cs['text'])
            spec = [tok, tok]
        elif how == 'ext-of-other-format':
            other = [f for f in FORMATS[kind] if f != fmt][0]
            tok = 'g.' + other
            place(cs, tok, cs['text'])
            spec = [tok]
            cs['fmt'] = other
        elif how == 'gml':
            tok = 'g.gml'
            place(cs, tok, cs['text'])
            spec = [tok]
        elif how == 'empty-name':
            spec = ['']
        elif how == 'construction-name':
            tok = rng.choice(['complete', 'path', 'shift', 'gnp', 'kthlist', 'save', 'simple', 'dag'])
            place(cs, tok, cs['text'])
            spec = [fmt, tok] if rng.random() < 0.5 else [tok]
        else:
            place(cs, tok, cs['text'])
            spec = [tok] + rng.choice([['save', 'out.kthlist'], ['plantclique', '2'], ['addedges', '1'], ['x'], ['3'], ['--zzz']])
        cs['argv'] = graph_argv(rng, c, spec)
    # ---- kthlist2pebbling, and `peb` on the same file
    for i in range(200 if quick else 2000):
        G = gen_graph(rng, 'dag', nmax=7)
        text = w_kthlist(rng, 'dag', G, plain=rng.random() < 0.4)
        stream = 'k2p-valid'
        if rng.random() < 0.45:
            text, mut = mutate(rng, text)
            stream = 'k2p-malformed'
        chain = P.gen_chain(rng, maxlen=1)[:1]
        cs = new_case(tool='kthlist2pebbling', what='k2p', stream=stream, text=text, chain=chain, fmt='kthlist',
                      cmd=dict(kind='dag', sub='peb', args=[], flags=[], charge=None))
        q = rng.choice([['-q'], ['-q'], ['--quiet'], ['-q', '-q']])
        how = rng.choice(['file', 'file', 'file', 'stdin', 'stdin-dash', 'two-inputs', 'missing'])
        tok = file_token(rng, cs['dir'], 'kthlist', rng.random() < 0.5)
        opt = rng.choice(['-i', '--input'])
        if how == 'file':
            place(cs, tok, text)
            pre = [opt, tok]
        elif how == 'stdin':
            cs['stdin'] = text
            pre = []
        elif how == 'stdin-dash':
            cs['stdin'] = text
            pre = [opt, '-']
        elif how == 'two-inputs':
            place(cs, 'other.kthlist', '1\n')
            place(cs, tok, text)
            pre = ['-i', 'other.kthlist', opt, tok]
        else:
            pre = [opt, tok]
            cs['stream'] = 'k2p-missing'
        parts = [q, pre]
        rng.shuffle(parts)
        cs['argv'] = parts[0] + parts[1] + [x for name, ks in chain for x in [name] + [str(k) for k in ks]]
        cs['how'] = how
        # the same text through `cnfgen peb kthlist <file>`
        pair = new_case(tool='cnfgen', what='graph', stream='peb-pair', text=text, chain=chain, fmt='kthlist', pair_of=cs,
                        cmd=dict(kind='dag', sub='peb', args=[], flags=[], charge=None))
        ptok = tok if how != 'missing' else 'absent.kthlist'
        if how != 'missing':
            place(pair, ptok, text)
        pair['argv'] = ['-q', 'peb', 'kthlist', ptok] + [x for name, ks in chain for x in ['-T', name] + [str(k) for k in ks]]
        cs['pair'] = pair
    # ---- k2p: malformed command lines
    for i in range(60 if quick else 500):
        cs = new_case(tool='kthlist2pebbling', what='k2p', stream='k2p-argv', text='2\n1 : 0\n2 : 1 0\n', chain=[], fmt='kthlist',
                      cmd=dict(kind='dag', sub='peb', args=[], flags=[], charge=None))
        place(cs, 'g.kthlist', cs['text'])
        cs['stdin'] = cs['text']
        cs['argv'] = rng.choice([['-q', '-i'], ['-q', 'xor'], ['-q', 'xor', '2', '3'], ['-q', 'xor', 'x'], ['-q', 'foo'], ['-q', 'xor', '2', '-q'], ['-q', '-i', 'g.kthlist', 'none', '1'],
                                 ['-q', 'flip', '-i', 'g.kthlist'], ['-i', 'g.kthlist', '-q', 'or', '0'], ['-q', '-i', 'g.kthlist', '-T', 'xor', '2'], ['-q', 'xor', '--zzz', '2'],
                                 ['-q', '--zzz'], ['-q', 'exact', '2', '1'], ['-q', 'exact', '2'], ['-q', '-i', 'g.kthlist', 'lift', '2'], ['-q', '', '2'], ['-q', '-i', '', 'xor', '1'],
                                 ['-q', 'shuffle'], ['-q', '-h'], ['-q', '-o', 'out.cnf'], ['-i', 'g.kthlist'], [], ['-q', '-i', 'g.kthlist', 'xor', '-1'], ['-q', 'maj', '+2']])
    # ---- cnfgen dimacs
    for i in range(200 if quick else 2000):
        text = gen_cnf_text(rng)
        stream = 'dimacs-valid'
        if rng.random() < 0.45:
            text, mut = mutate(rng, text)
            stream = 'dimacs-malformed'
        chain = P.gen_chain(rng, maxlen=2) if rng.random() < 0.4 else []
        cs = new_case(tool='cnfgen', what='dimacs', stream=stream, text=text, chain=chain)
        how = rng.choice(['file', 'file', 'file', 'stdin', 'stdin-dash', 'missing', 'two'])
        tok = rng.choice(['f.cnf', 'formula', './f.cnf', 'sub/f.cnf', os.path.join(cs['dir'], 'f.cnf'), 'f.kthlist'])
        if how == 'file':
            place(cs, tok, text)
            spec = [tok]
        elif how == 'stdin':
            cs['stdin'] = text
            spec = []
        elif how == 'stdin-dash':
            cs['stdin'] = text
            spec = ['-']
        elif how == 'missing':
            spec = [tok]
            cs['stream'] = 'dimacs-missing'
        else:
            place(cs, tok, text)
            spec = [tok, tok]
            cs['stream'] = 'dimacs-argv'
        cs['how'] = how
        cs['argv'] = ['-q'] + (['-of', 'opb'] if rng.random() < 0.08 else []) + ['dimacs'] + spec + [x for name, ks in chain for x in ['-T', name] + [str(k) for k in ks]]
        if '-of' in cs['argv']:
            cs['fmt_out'] = 'opb'

    # ---- no large number in any text (a declared size drives loops and allocations in tool, library and model alike)
    for cs in cases:
        if any(too_big(t) for t in list(cs['files'].values()) + [cs['stdin']]):
            cs['skip'] = True
            ctx.tally('files skipped', 'a number above %d in the text' % MAXNUM)
    for cs in cases:
        if cs.get('pair') is not None and (cs.get('skip') or cs['pair'].get('skip')):
            cs['skip'] = cs['pair']['skip'] = True
    cases = [cs for cs in cases if not cs.get('skip')]
    # ---- the library side first (it tells which cases are too large)
    keep = []
    for cs in cases:
        if cs['stream'] in ('graph-valid', 'graph-malformed', 'k2p-valid', 'k2p-malformed', 'peb-pair', 'dimacs-valid', 'dimacs-malformed') and cs.get('how') != 'missing':
            cs['lib'] = library_outcome(cnfgen, cs)
            if cs['lib'][0] == 'toobig':
                ctx.tally('files skipped', 'predicted too large')
                cs['skip'] = True
        keep.append(cs)
    for cs in cases:
        if cs.get('pair') is not None and (cs.get('skip') or cs['pair'].get('skip')):
            cs['skip'] = cs['pair']['skip'] = True
    cases = [cs for cs in cases if not cs.get('skip')]
    t_lib = time.time() - t_start

    # ---- the model
    reqs = [cmd('k2p_pipeline' if cs['tool'] == 'kthlist2pebbling' else 'files_pipeline', cs['argv'], [[k, v] for k, v in cs['files'].items()], cs['stdin']) for cs in cases]
    t0 = time.time()
    for cs, m in zip(cases, model_replies(ctx, reqs)):
        cs['model'] = m
        if lib.is_error(m):
            raise lib.ModelError('driver error on %r: %r' % (cs['argv'], m))
    t_model = time.time() - t0

    # ---- the real tools (also where the model claims nothing: the pair property and the library comparison need them)
    try:
        for cs in cases:
            os.makedirs(cs['dir'], exist_ok=True)
            for tok, text in cs['files'].items():
                if tok == '':
                    continue
                path = tok if os.path.isabs(tok) else os.path.join(cs['dir'], tok)
                os.makedirs(os.path.dirname(path), exist_ok=True)
                with open(path, 'wb') as f:
                    f.write(text.encode('latin-1'))
        t0 = time.time()
        reals = run_real([dict(tool=cs['tool'], argv=cs['argv'], cwd=cs['dir'], stdin=cs['stdin']) for cs in cases])
        t_real = time.time() - t0
        for cs, r in zip(cases, reals):
            cs['real'] = r
        # idempotence of `dimacs`: what the tool printed, through the tool again (standard input)
        again = [cs for cs in cases if cs['what'] == 'dimacs' and not cs['chain'] and cs['real']['rc'] == 0 and cs.get('fmt_out') != 'opb']
        for cs, r in zip(again, run_real([dict(tool='cnfgen', argv=['-q', 'dimacs'], cwd=cs['dir'], stdin=cs['real']['out']) for cs in again])):
            cs['again'] = r
    finally:
        shutil.rmtree(scratch, ignore_errors=True)
    ctx.note('files pipeline: %d runs; library %.1fs, model %.1fs, tools %.1fs' % (len(cases), t_lib, t_model, t_real))

    for cs in cases:
        argv, m, r, stream = cs['argv'], cs['model'], cs['real'], cs['stream']
        ctx.tally('files stream', stream)
        ctx.tally('files model verdict', str(m[0]))
        ctx.tally('files tool', cs['tool'])
        if cs['what'] == 'graph':
            ctx.tally('files sub-command:format', '%s:%s' % (cs['cmd']['sub'], cs['fmt']))
        if cs.get('mut'):
            ctx.tally('files malformed kind', cs['mut'])
        if cs.get('how'):
            ctx.tally('files naming', cs['how'])
        site = 'files:%s:%s' % (cs['cmd']['sub'] if cs['what'] != 'dimacs' else 'dimacs', cs.get('fmt', 'cnf')) if cs['tool'] == 'cnfgen' else 'files:kthlist2pebbling:kthlist'
        cl = stream + ('|T' if cs.get('chain') else '')
        replay = dict(input=dict(tool=cs['tool'], argv=argv, files=cs['files'], stdin=cs['stdin']), model=m[0], model_text=(m[1][:300] if m[0] == 'out' else None),
                      tool_rc=r['rc'], tool_stdout=r['out'][:300], tool_stderr=r['err'][-400:], library=cs.get('lib', (None,))[:2],
                      theorem='files_roundtrip / files_total / k2p_equals_peb (coq/Prop_C17_files.py)'.replace('.py', '.v'))
        key = (cs['tool'], tuple(argv), tuple(sorted(cs['files'].items())), cs['stdin'])
        if m[0] == 'slow':
            ctx.tally('files skipped', 'model slower than the limit')
            continue
        # -- the properties that do not need the model: k2p = peb on the same text, idempotence of dimacs
        if cs.get('pair') is not None and cs.get('how') in ('stdin', 'stdin-dash') and '\r' in cs['text']:
            # standard input does not translate "\r": not the same TEXT as the file opened by `peb` (observation, not a deviation)
            ctx.tally('files k2p on standard input with carriage returns', 'same' if (r['rc'], r['out']) == (cs['pair']['real']['rc'], cs['pair']['real']['out']) else 'different outcome')
        elif cs.get('pair') is not None:
            pr = cs['pair']['real']
            ctx.count('files-k2p-equals-peb', key, nontrivial=True)
            same = (r['rc'] == pr['rc'] and r['out'] == pr['out']) if r['rc'] == 0 or pr['rc'] == 0 else (r['rc'] == pr['rc'])
            if not same and not r.get('timeout') and not pr.get('timeout'):
                ctx.disagreements_checked += 1
                ctx.violation('counterexample', 'kthlist2pebbling and `cnfgen peb kthlist <file>` differ on the same text (exit %s / %s)' % (r['rc'], pr['rc']),
                              dict(replay, peb_argv=cs['pair']['argv'], peb_rc=pr['rc'], peb_stdout=pr['out'][:300]), True, site='files:kthlist2pebbling:kthlist', cls='k2p-vs-peb')
        if 'again' in cs:
            ctx.count('files-dimacs-idempotent', key, nontrivial=True)
            a = cs['again']
            if a['rc'] != 0 or a['out'] != r['out']:
                ctx.disagreements_checked += 1
                ctx.violation('counterexample', '`cnfgen -q dimacs` does not re-print its own output unchanged', dict(replay, second_rc=a['rc'], second_stdout=a['out'][:300]), True,
                              site='files:dimacs:cnf', cls='idempotence')
        if m[0] == 'outside':
            ctx.count('files-' + stream, key, nontrivial=False)
            if stream in ('graph-valid', 'k2p-valid', 'dimacs-valid', 'peb-pair', 'graph-malformed', 'dimacs-malformed', 'k2p-malformed') and '\x00' not in cs['text']:
                ctx.violation('correspondence', 'the files model places a run of its own grammar outside it', dict(input=replay['input'], theorem='files_total'), False, site=site, cls='grammar')
            continue
        nontrivial = m[0] == 'out' and m[1].count('\n') > 1
        ctx.count('files-' + stream, key, nontrivial=nontrivial or stream not in ('graph-valid', 'k2p-valid', 'dimacs-valid', 'peb-pair'),
                  sample=dict(tool=cs['tool'], argv=argv, model=m[0], rc=r['rc']))
        prefixes = ('c ', '* ') if cs.get('fmt_out') == 'opb' else ('c ',)
        ok = tool_agrees(m, r, prefixes)
        lib_res = cs.get('lib')
        if ok and lib_res is not None and cs.get('fmt_out') != 'opb':
            if m[0] == 'out' and (lib_res[0] != 'ok' or lib_res[1] != r['out']):
                ok = False
            if m[0] == 'clierror' and lib_res[0] == 'ok' and stream in ('graph-valid', 'k2p-valid', 'dimacs-valid'):
                ok = False
        if ok:
            continue
        ctx.disagreements_checked += 1
        if r.get('timeout'):
            ctx.violation('correspondence', 'the tool did not finish within the time limit on an input the model calls small', replay, False, site=site, cls='timeout')
        elif 'Traceback' in (r['err'] or ''):
            ctx.violation('counterexample', '%s ends in a Python traceback (%s)' % (cs['tool'], r['err'].strip().split('\n')[-1][:120]), replay, True, site=site, cls=cl)
        elif cs['what'] == 'dimacs' and cs['stream'] in ('dimacs-valid', 'dimacs-malformed') and r['rc'] == 0 and dimacs_judge(delivered(cs)) is None:
            ctx.violation('counterexample', '`cnfgen dimacs` accepts a text that is not a well-formed DIMACS file (declared counts, ranges, termination)', replay, True, site=site, cls=cl)
        elif cs['what'] == 'dimacs' and cs['stream'] in ('dimacs-valid', 'dimacs-malformed') and r['rc'] != 0 and dimacs_judge(delivered(cs)) is not None:
            ctx.violation('counterexample', '`cnfgen dimacs` rejects a well-formed DIMACS file', replay, True, site=site, cls=cl)
        elif lib_res is not None and lib_res[0] == 'ok' and r['rc'] == 0 and r['out'] != lib_res[1] and cs.get('fmt_out') != 'opb':
            ctx.violation('counterexample', 'the tool writes a formula that differs from the documented generator on the graph the library reader returns for the same text', replay, True,
                          site=site, cls=cl)
        elif lib_res is not None and lib_res[0] == 'ok' and r['rc'] != 0:
            ctx.violation('counterexample', 'the tool rejects a file that the library reader and generator accept', replay, True, site=site, cls=cl)
        elif lib_res is not None and lib_res[0] == 'ValueError' and r['rc'] == 0:
            ctx.violation('counterexample', 'the tool writes a formula although the library raises ValueError on the same text', replay, True, site=site, cls=cl)
        elif lib_res is not None and lib_res[0] == 'exc':
            ctx.violation('counterexample', 'the library reader / generator raises %s on this text' % lib_res[1], replay, True, site=site, cls=cl)
        elif m[0] == 'clierror' and r['rc'] == 255 and r['out'] == '' and r['err'][:2] not in prefixes:
            ctx.violation('counterexample', 'error message without the comment prefix', replay, True, site=site, cls=cl)
        else:
            ctx.violation('correspondence', 'the files model (coq/PipelineFiles.v) and %s disagree (model %s, tool exit %s)' % (cs['tool'], m[0], r['rc']), replay, False, site=site, cls=cl)

    # ---- fast rendering equals the reference rendering
    small = [cs for cs in cases if cs['tool'] == 'cnfgen' and cs['model'][0] == 'out' and len(cs['model'][1]) < 3000]
    rng.shuffle(small)
    small = small[:40 if quick else 400]
    ref = model_replies(ctx, [cmd('files_pipeline_ref', cs['argv'], [[k, v] for k, v in cs['files'].items()], cs['stdin']) for cs in small])
    for cs, m2 in zip(small, ref):
        ctx.count('files-reference-rendering', (tuple(cs['argv']), cs['text']), nontrivial=True)
        if m2 != cs['model']:
            ctx.violation('correspondence', 'cnfgen_files_main_fast differs from cnfgen_files_main (theorem files_fast_eq)', dict(input=dict(argv=cs['argv'], files=cs['files'])), False,
                          site='files:harness', cls='fast-rendering')
    ctx.note('files pipeline stream total %.1fs' % (time.time() - t_start))
