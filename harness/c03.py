"""C03 -- contradictions (ordering principle, pebbling, stone, CPLS, pitfall) and
Ramsey-type benchmarks (ram, vdw, ptn) have the documented satisfiability.

Correspondence: for every family of harness/fam_c03.py and every parameter choice
(exhaustive small ones, seeded random larger ones) the formula cnfgen builds under
formula_class=CNF and =OPB is compared with the extracted Coq model
(coq/Fam_*.v): number of variables, canonical clause set (sorted set of sorted
clauses; SemFacts.cnf_sat_set_ext), and the OPB constraint list in order.
A difference in clause order only is a note.  For the two families with a defect that
is still in the code (pitfall D31, vdw D12) the model has two variants; agreement
with `spec` is silent, agreement with `as_is` only is reported with the failing input
(a satisfying assignment of the claimed contradiction / the crashing call) under the
finding's site+class.
On any other disagreement the failing-input search runs: SAT check of the
implementation's formula (picosat, z3 of python3-vt, or brute force) for a claimed
contradiction; brute force over all assignments against the documentation oracle
`decode_ok`, or SAT/UNSAT against `exists`, for the planted/Ramsey families."""
import os
import subprocess
import tempfile

from lib import cmd, outcome, is_error, import_impl, cnf_sat, assignments, Sym
from fam_c03 import FAMILIES, PTN_DENSE
from fam_streams import fast_batch

META = dict(
    technique='Coq theorems (unsatisfiability by induction over DAG order / order theory / levels / Tseitin double counting; '
              'T1+T2 characterisations for ram, vdw, ptn, planted op) + extracted-model differential check per family',
    category='proof',
    text='Machine-checked theorems state, for all sizes, graphs, DAGs, stone graphs, CPLS parameters and all assignments, that the '
         'model formulas of the ordering principle variants, pebbling, stone, sparse stone, CPLS and (repaired) pitfall families are '
         'unsatisfiable and consist of exactly the documented axioms, and that ram/vdw/ptn/planted-op are satisfied exactly by the '
         'documented colourings/orders; the model is tied to the code by comparing numvar, canonical clause sets and OPB constraint '
         'lists of cnfgen and of the extracted model on exhaustive small and seeded random larger parameters.',
    note='The pitfall theorem is FALSE of the code as it is (pitfall_refuted, D31) and proved for the repaired shift; vdw crashes for '
         'progression length 1 (vdw_total_refuted, D12). Trusted: Coq kernel, extraction, OCaml driver, harness; the regular graph of '
         'pitfall is an input of the model (captured from networkx).',
    design_ref='5/C03',
)
RULE = ('one case = one (family, parameters, formula class); distinct = distinct (family, parameters, class) keys; '
        'non-trivial = the formula has at least one variable or one clause')
TRUSTED = ['SAT oracles picosat / z3 (python3-vt) are used only to produce a failing input after a disagreement '
           '(or for the known finding D31); they never establish the property']


# --------------------------------------------------------------------------
# SAT oracle (failing-input search only)
# --------------------------------------------------------------------------
def sat_solve(nv, clauses):
    """(True, assignment list indexed by variable) | (False, None) | None when no oracle could decide"""
    if any(len(c) == 0 for c in clauses):
        return (False, None)
    text = 'p cnf %d %d\n' % (nv, len(clauses)) + ''.join(' '.join(map(str, c)) + ' 0\n' for c in clauses)
    if os.path.exists('/usr/bin/picosat'):
        try:
            p = subprocess.run(['/usr/bin/picosat'], input=text.encode(), stdout=subprocess.PIPE, stderr=subprocess.PIPE, timeout=120)
            out = p.stdout.decode()
            if 's UNSATISFIABLE' in out:
                return (False, None)
            if 's SATISFIABLE' in out:
                a = [None] + [False] * nv
                for ln in out.split('\n'):
                    if ln.startswith('v'):
                        for t in ln.split()[1:]:
                            l = int(t)
                            if l != 0:
                                a[abs(l)] = l > 0
                if cnf_sat(a, clauses):
                    return (True, a)
        except Exception:
            pass
    try:
        prog = ('import sys,z3\ncl=[[int(t) for t in l.split()[:-1]] for l in sys.stdin.read().split("\\n")[1:] if l]\n'
                'n=%d\nx=[None]+[z3.Bool("x%%d"%%i) for i in range(1,n+1)]\ns=z3.Solver()\n'
                'for c in cl: s.add(z3.Or([x[l] if l>0 else z3.Not(x[-l]) for l in c]))\n'
                'r=s.check()\nprint(r)\n'
                'if r==z3.sat:\n m=s.model()\n print(" ".join(str(i if z3.is_true(m.eval(x[i],model_completion=True)) else -i) for i in range(1,n+1)))\n' % nv)
        p = subprocess.run(['python3-vt', '-c', prog], input=text.encode(), stdout=subprocess.PIPE, stderr=subprocess.PIPE, timeout=300)
        lines = p.stdout.decode().split('\n')
        if lines and lines[0].strip() == 'unsat':
            return (False, None)
        if lines and lines[0].strip() == 'sat':
            a = [None] + [False] * nv
            for t in lines[1].split():
                a[abs(int(t))] = int(t) > 0
            if cnf_sat(a, clauses):
                return (True, a)
    except Exception:
        pass
    if nv <= 22:
        for a in assignments(nv):
            if cnf_sat(a, clauses):
                return (True, a)
        return (False, None)
    return None


def canon(clauses):
    return sorted(set(tuple(sorted(c)) for c in clauses))


def opb_py(constraints):
    """model OPB reply -> the shape of list(OPB object)"""
    return [[tuple(t) for t in terms] + [str(op), deg] for terms, op, deg in constraints]


def impl_view(F, fcname):
    """(numvar, clause list | constraint list) of a cnfgen formula object"""
    if fcname == 'CNF':
        return F.number_of_variables(), [list(c) for c in F]
    return F.number_of_variables(), [[tuple(t) if isinstance(t, (tuple, list)) else t for t in c] for c in F]


def model_view(rep, fcname):
    """reply (numvar clauses opb) or (raises "X") -> ('ok', numvar, list) | ('raises', X)"""
    if isinstance(rep, list) and len(rep) == 2 and rep[0] == 'raises':
        return ('raises', rep[1])
    nv, cls, opb = rep
    return ('ok', nv, cls if fcname == 'CNF' else opb_py(opb))


def agrees(got, mv, fcname):
    """does the implementation outcome equal the model view?  returns (bool, detail)"""
    if got[0] == 'exc':
        return (mv[0] == 'raises' and mv[1] == got[1], 'exception')
    if mv[0] == 'raises':
        return (False, 'model-raises')
    nv, items = got[1]
    if nv != mv[1]:
        return (False, 'numvar')
    if items == mv[2]:
        return (True, '')
    if fcname == 'CNF':
        if canon(items) != canon(mv[2]):
            return (False, 'clauses')
        if items != mv[2]:
            return (True, 'order')
        return (True, '')
    if items != mv[2]:
        return (False, 'constraints')
    return (True, '')


def short(p):
    q = dict(p)
    for k in ('edges', 'bedges'):
        if k in q and len(q[k]) > 40:
            q[k] = q[k][:40] + ['...%d more' % (len(q[k]) - 40)]
    return q


# --------------------------------------------------------------------------
# failing-input search
# --------------------------------------------------------------------------
def shape(clauses):
    """invariant under any renaming of variables: number of distinct clauses per width"""
    h = {}
    for cl in canon(clauses):
        h[len(cl)] = h.get(len(cl), 0) + 1
    return h


def search_failing_input(ctx, fam, p, got_cnf, documented=None):
    """got_cnf: ('ok', (numvar, clauses)) of the CNF class; documented: clause list of the documented
    model variant (coq *_axioms_exact).  Returns (found, what, extra, cls)."""
    found = _search_semantic(ctx, fam, p, got_cnf)
    if found[0] or got_cnf is None or got_cnf[0] != 'ok' or documented is None or p.get('malformed') or p.get('boundary'):
        return found
    # "exactly the documented axioms up to the naming of variables": the number of clauses of each width
    # does not depend on the naming
    hi, hd = shape(got_cnf[1][1]), shape(documented)
    if hi != hd:
        ci, cd = set(canon(got_cnf[1][1])), set(canon(documented))
        extra = dict(found[2])
        extra.update(clauses_per_width_built={str(k): v for k, v in sorted(hi.items())},
                     clauses_per_width_documented={str(k): v for k, v in sorted(hd.items())},
                     example_extra_clause=sorted(ci - cd)[:1], example_missing_clause=sorted(cd - ci)[:1])
        return (True, 'the clauses built are not the documented axioms under any naming of the variables '
                      '(different number of clauses of some width)', extra, 'axioms-differ')
    return found


def _search_semantic(ctx, fam, p, got_cnf):
    if got_cnf is None or got_cnf[0] != 'ok':
        return (False, None, {}, None)
    nv, clauses = got_cnf[1]
    kind = fam['kind']
    contradiction = kind == 'contradiction' or (kind == 'planted' and not p.get('plant') and p.get('n', 0) >= 1)
    in_hyp = not (p.get('boundary') or p.get('malformed'))
    if contradiction and in_hyp:
        r = sat_solve(nv, clauses)
        if r is not None and r[0]:
            return (True, '%s is documented as a contradiction but the formula built is satisfiable' % fam['impl'],
                    dict(assignment=[i if r[1][i] else -i for i in range(1, nv + 1)]), 'satisfiable-contradiction')
        return (False, None, dict(sat_oracle='unsat' if r is not None else 'undecided'), None)
    if not in_hyp:
        return (False, None, {}, None)
    if nv <= 18 and fam['decode_ok'](p, [None] + [False] * nv) is not None:
        for a in assignments(nv):
            m = cnf_sat(a, clauses)
            d = fam['decode_ok'](p, a)
            if m != d:
                return (True, 'assignment %s the formula but does %s the documented object' %
                        (('satisfies', 'not describe') if m else ('falsifies', 'describe')),
                        dict(assignment=[i if a[i] else -i for i in range(1, nv + 1)], formula_value=m, documented_object=d), 'models-differ')
    ex = fam['exists'](p)
    if ex is not None:
        r = sat_solve(nv, clauses)
        if r is not None and r[0] != ex:
            return (True, 'the formula is %s but an object of the documented kind %s' %
                    ('satisfiable' if r[0] else 'unsatisfiable', 'exists' if ex else 'does not exist'),
                    dict(assignment=None if not r[0] else [i if r[1][i] else -i for i in range(1, nv + 1)], object_exists=ex),
                    'satisfiability-differs')
    return (False, None, {}, None)


def compare(ctx, fam, p, al, reps, classes, order_notes):
    """one parameter choice: the implementation under the formula classes against the model replies `reps` of the
    variants `al` (documented variant first)"""
    stream = fam['name'] + ('-malformed' if p.get('malformed') else '-boundary' if p.get('boundary') else
                            '-' + p['stream'] if p.get('stream') else '-large' if p.get('large') else '')
    ctx.tally('family', fam['name'])
    if p.get('stream'):
        ctx.tally('stream ' + p['stream'], fam['name'])
        if 'raw' in p:
            for k, v in sorted(p['raw'].items()):
                ctx.tally('shapes: flag passed as', repr(v))
        if 'ops' in p or 'bops' in p:
            ops = p.get('ops') or p.get('bops')
            ctx.tally('history: generator calls on the same object', sum(1 for o in ops if o[0] == 'gen'))
            for o in ops:
                if o[0] != 'gen':
                    ctx.tally('history: ops', o[0])
    for key in ('n', 'N', 'v', 'a'):
        if key in p:
            ctx.tally(fam['name'] + ' size', p[key] if p[key] <= 40 else '%d-%d' % (p[key] // 50 * 50, p[key] // 50 * 50 + 49))
            break
    if any(is_error(r) for r in reps):
        ctx.count(stream, (fam['name'], repr(p)), True)
        ctx.violation('correspondence', 'model error', dict(input=dict(family=fam['name'], params=short(p)), model=str(reps)[:300]),
                      False, site='model-error', cls=fam['name'])
        return

    def documented(reps):
        mv0 = model_view(reps[0], 'CNF')       # alternatives list the documented variant first
        return mv0[2] if mv0[0] == 'ok' else None
    got_cnf = None
    for fcname, fc in classes:
        if p.get('only') and fcname not in p['only']:
            continue
        got = outcome(lambda: impl_view(fam['build'](p, fc), fcname))
        if fcname == 'CNF':
            got_cnf = got
        nontriv = got[0] == 'ok' and (got[1][0] > 0 or len(got[1][1]) > 0)
        ctx.count(stream, (fam['name'], fcname, repr(p)), nontriv,
                  sample=dict(family=fam['name'], params=short(p), formula_class=fcname))
        if got[0] == 'ok':
            ctx.tally('variables', got[1][0] if got[1][0] < 50 else '>=50')
            if p.get('stream'):
                w = max([len(c) for c in got[1][1]] or [0]) if fcname == 'CNF' else max([len(c) - 2 for c in got[1][1]] or [0])
                ctx.tally('streams: widest constraint', w if w <= 14 else '15-16' if w <= 16 else '17-64' if w <= 64 else
                          '65-128' if w <= 128 else '129-256' if w <= 256 else '>=257')
            doc = fam['numvar_doc'](p)
            if doc is not None and doc != got[1][0] and not p.get('malformed'):
                ctx.violation('counterexample', '%s has %d variables, documented %d' % (fam['impl'], got[1][0], doc),
                              dict(input=dict(family=fam['name'], params=short(p), formula_class=fcname)), True,
                              site=fam['impl'], cls='numvar-differs')
        inp = dict(family=fam['name'], params=short(p), formula_class=fcname,
                   library_call=fam['impl'], model_request=str(al[0]['request'])[:300])
        agreed = None
        for alt, rep in zip(al, reps):
            ok, detail = agrees(got, model_view(rep, fcname), fcname)
            if ok:
                agreed = (alt, detail)
                break
        if agreed is not None and agreed[0]['finding'] is None:
            if agreed[1] == 'order':
                order_notes[fam['name']] = order_notes.get(fam['name'], 0) + 1
            continue
        ctx.disagreements_checked += 1
        if agreed is not None:
            # the defect of this model variant is in the code: produce the failing input
            f = agreed[0]['finding']
            if got[0] == 'exc':
                ctx.violation('counterexample', '%s raises %s on a valid argument' % (fam['impl'], got[1]),
                              dict(input=inp, implementation=list(got[1:])), True, site=f['site'], cls=f['cls'])
            else:
                found, what, extra, _ = search_failing_input(ctx, fam, p, got_cnf, documented(reps))
                rp = dict(input=inp, agrees_with='model variant %s (coq/Fam_%s.v), not with the documented one' %
                          (agreed[0]['label'], fam['name']))
                rp.update(extra)
                ctx.violation('counterexample' if found else 'correspondence',
                              what or '%s differs from its documented clauses' % fam['impl'], rp, found,
                              site=f['site'], cls=f['cls'])
            continue
        # ---- disagreement with every model variant ----
        mv = model_view(reps[0], fcname)
        detail = agrees(got, mv, fcname)[1]
        if got[0] == 'exc' and not p.get('malformed'):
            ctx.violation('counterexample', '%s raised %s: %s' % (fam['impl'], got[1], got[2]),
                          dict(input=inp, implementation=list(got[1:]), model=str(mv)[:300]), True,
                          site=fam['impl'], cls='raises-' + got[1])
            continue
        found, what, extra, cls = search_failing_input(ctx, fam, p, got_cnf, documented(reps))
        rp = dict(input=inp, difference=detail,
                  implementation=str(got)[:600], model=str(mv)[:600],
                  correspondence='coq/Fam_*.v (%s) <-> cnfgen %s; theorems of coq/Prop_C03.v no longer cover the code' % (fam['name'], fam['impl']))
        rp.update(extra)
        if found:
            ctx.violation('counterexample', what, rp, True, site=fam['impl'], cls=cls)
        else:
            ctx.violation('correspondence', 'formula differs from the model (%s)' % detail, rp, False,
                          site=fam['impl'], cls='differs-' + detail)


def ptn_dense(ctx, fam, classes, order_notes):
    """PythagoreanTriples at EVERY N up to PTN_DENSE.  The extracted model takes ~1e-5 * N^2 s per call (Z.sqrt on
    binary numbers), so the expected clause list of N is read off ONE model call at the top size: ptn_cnf N is the
    sub-list of ptn_cnf TOP of the clauses that mention no number above N (a pair with y > N has z > N; the order of
    the pairs is lexicographic in both).  That reading is itself compared with the model's own answer on every
    N <= 120 and on 255..258, 300 in every run."""
    top = PTN_DENSE[ctx.tier]
    check_ns = list(range(0, 121)) + [255, 256, 257, 258, 300]
    reps = fast_batch([fam['request'](dict(N=top))] + [fam['request'](dict(N=N)) for N in check_ns])
    if any(is_error(r) or len(r) != 3 for r in reps):
        ctx.violation('correspondence', 'model error', dict(input=dict(family='ptn', N=top), model=str(reps)[:300]), False,
                      site='model-error', cls='ptn')
        return
    full = reps[0][1]
    tops = [max(abs(l) for l in c) for c in full]

    def expected(N):
        return [c for c, m in zip(full, tops) if m <= N]
    for N, r in zip(check_ns, reps[1:]):
        ctx.count('ptn-dense-lemma', ('ptn', N), N >= 5)
        if r[0] != N or r[1] != expected(N):
            ctx.violation('correspondence', 'harness: ptn_cnf N is not the sub-list of ptn_cnf %d below N (the dense stream would be unsound)' % top,
                          dict(input=dict(family='ptn', N=N)), False, site='harness', cls='ptn-prefix-lemma')
            return
    cnf_only = [c for c in classes if c[0] == 'CNF']
    for N in range(0, top + 1):
        p = dict(N=N, stream='dense', large=True, only=['CNF'])
        al = [dict(label='sub-list below N of the model at N=%d' % top, request=fam['request'](dict(N=top)), finding=None)]
        compare(ctx, fam, p, al, [[N, expected(N), []]], cnf_only, order_notes)


def run(ctx):
    import_impl()
    from cnfgen.formula.cnf import CNF
    from cnfgen.formula.opb import OPB
    classes = (('CNF', CNF), ('OPB', OPB))
    order_notes = {}
    ctx.assumptions += [
        'the d-regular graph of PitfallFormula is an input of the model: the harness draws it with networkx.random_regular_graph '
        'exactly as pitfall.py does (seeded) and forces that graph during the call; theorems hold for every graph',
        'PythagoreanTriples int(sqrt(.)) and BinaryMappingVariables int(ceil(log(m,2))) are modelled by exact integer functions '
        '(DESIGN section 8: equal below 2^52 / 2^29)',
        'canonical clause sets (sorted set of sorted clauses) are compared for class CNF (SemFacts.cnf_sat_set_ext); the OPB '
        'constraint list is compared in order',
        'stream ptn-dense: the expected formula of every N <= %d is the sub-list, below N, of ONE model answer at that top size '
        '(harness-level fact about ptn_cnf, re-checked against the model itself on N <= 120, 255..258, 300 in every run)' % PTN_DENSE[ctx.tier],
        'streams thresholds/shapes/history (notes/LARGE_STREAMS.md): large instances marked only=[CNF] are compared under class CNF only; '
        'a flag passed as a truthy/falsy non-bool is compared with the model on bool(flag); a graph with a history is compared with the '
        'model on the edge set the harness computed by itself (fam_streams.simulate)']
    for fam in FAMILIES:
        # the corpus of large / rare / history cases first, then the exhaustive small and random ones
        ps = (fam['streams'](ctx.rng, ctx.tier) if fam.get('streams') else []) + fam['params'](ctx.rng, ctx.tier)
        if 'alternatives' in fam:
            alts = [fam['alternatives'](p) for p in ps]
        else:
            alts = [[dict(label='model', request=fam['request'](p), finding=None)] for p in ps]
        flat = [alt['request'] for al in alts for alt in al]
        replies = fast_batch(flat, timeout=1500)     # lib.Model.batch with a faster reader for replies of several MB
        pos = 0
        for p, al in zip(ps, alts):
            reps = replies[pos:pos + len(al)]
            pos += len(al)
            compare(ctx, fam, p, al, reps, classes, order_notes)
        if fam['name'] == 'ptn':
            ptn_dense(ctx, fam, classes, order_notes)
    for name, n in sorted(order_notes.items()):
        ctx.note('%s: %d instance(s) equal to the model as clause sets but in a different clause/literal order' % (name, n))
    ctx.exhaustive = False
