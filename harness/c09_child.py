"""Child process of the C09 check: runs a cnfgen command line tool with the
functions of the `random` module that Shuffle uses wrapped, so that the draws
(flips, variable permutation, clause permutation) are known to the harness.

usage: c09_child.py (cnfshuffle|cnfgen) <args...>      env C09_DRAWS=<file for the recorded draws (JSON)>
The wrappers call the original functions and return their results unchanged."""
import json
import os
import random
import sys

DRAWS = []
_choice = random.choice
_shuffle = random.shuffle


def choice(seq):
    r = _choice(seq)
    DRAWS.append(['choice', r])
    return r


def shuffle(x, *a, **k):
    _shuffle(x, *a, **k)
    DRAWS.append(['shuffle', list(x)])


random.choice = choice
random.shuffle = shuffle


def dump():
    path = os.environ.get('C09_DRAWS')
    if path:
        with open(path, 'w') as f:
            json.dump(DRAWS, f, default=str)


tool = sys.argv[1]
sys.argv = [tool] + sys.argv[2:]
try:
    if tool == 'cnfshuffle':
        from cnfgen.clitools.cnfshuffle import main
    else:
        from cnfgen.clitools.cnfgen import main
    main()
finally:
    dump()
