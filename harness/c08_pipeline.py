"""C08 (pipeline part) -- the whole-program model `pbgen_main : argv -> bytes` (coq/PipelinePb.v) against the real `pbgen`,
and property C08 decided on what the two real tools write.

`run_pb_pipeline(ctx)` is called from harness/c08.py.  For every generated argument vector (the generator of
harness/c17_pipeline.py without -T chains, plus streams of its own: -T anywhere, -of opb / dimacs / other, no -q)

    model   = extracted pbgen_main_env (driver command `pb_pipeline_env`)      POut text | PCliError | PCrash | POutside
    tool    = the real `pbgen` in a child process (fork server harness/pipeline_child.py, 2 GiB address space, time limit)

POut: the tool must exit 0 with exactly those bytes; PCliError: exit 255, empty stdout, a message prefixed `* `, no
traceback.  On a disagreement the property itself is decided on the REAL outputs: the same argv is given to the real
`cnfgen`, both texts are parsed, the numbers of variables compared and the models compared (all assignments up to 16
variables when that is cheap, sampled assignments otherwise); a difference is a failing input of C08 (kind
counterexample, with the argv), as is a traceback or one tool accepting what the other rejects on the common grammar
(no -T, no `-of dimacs`: theorem tools_accept_same); otherwise the model no longer covers the code (kind
correspondence).  The same decision is made on a sample of the argv on which model and tool agree."""
import os
import random
import time

import clirun
import lib
import c17_pipeline as P

WORKERS = 12


# --------------------------------------------------------------------------
# the real tools
# --------------------------------------------------------------------------
def run_tool(tool, argvs, workers=WORKERS, limit=60):
    if not argvs:
        return []
    k = max(1, min(workers, len(argvs) // 8 or 1))
    shards = [argvs[i::k] for i in range(k)]
    res = clirun.parallel([(lambda s=s: P._serve(s, tool=tool, limit=limit)) for s in shards], workers=k)
    out = [None] * len(argvs)
    for i, shard in enumerate(res):
        for j, r in enumerate(shard):
            out[i + j * k] = r
    return out


# --------------------------------------------------------------------------
# readers of the two output formats (written from the format descriptions)
# --------------------------------------------------------------------------
def read_opb(text):
    """(numvar, [(terms [(coeff, lit)], op, degree)]); raises ValueError"""
    lines = text.split('\n')
    head = lines[0].split()
    if len(head) != 5 or head[0] != '*' or head[1] != '#variable=' or head[3] != '#constraint=':
        raise ValueError('first line %r' % lines[0][:80])
    nv, nc = int(head[2]), int(head[4])
    cons = []
    for ln in lines[1:]:
        if ln.startswith('*') or ln.strip() == '':
            continue
        toks = ln.split()
        if toks and toks[-1] == ';':
            toks = toks[:-1]
        if len(toks) < 2 or len(toks) % 2:
            raise ValueError('bad constraint line %r' % ln[:80])
        op, deg = toks[-2], int(toks[-1])
        if op not in ('>=', '='):
            raise ValueError('bad operator %r' % op)
        terms = []
        for i in range(0, len(toks) - 2, 2):
            v = toks[i + 1]
            if v.startswith('~x'):
                l = -int(v[2:])
            elif v.startswith('x'):
                l = int(v[1:])
            else:
                raise ValueError('bad variable %r' % v)
            if l == 0 or abs(l) > nv:
                raise ValueError('variable %r out of range' % v)
            terms.append((int(toks[i]), l))
        cons.append((terms, op, deg))
    if nc != len(cons):
        raise ValueError('declared %d constraints, wrote %d' % (nc, len(cons)))
    return nv, cons


def read_dimacs(text):
    nv = nc = None
    cons = []
    for ln in text.split('\n'):
        if ln.startswith('c') or ln.strip() == '':
            continue
        if ln.startswith('p'):
            t = ln.split()
            if len(t) != 4 or t[1] != 'cnf':
                raise ValueError('bad p line %r' % ln[:80])
            nv, nc = int(t[2]), int(t[3])
            continue
        t = [int(x) for x in ln.split()]
        if not t or t[-1] != 0 or nv is None:
            raise ValueError('bad clause line %r' % ln[:80])
        if any(l == 0 or abs(l) > nv for l in t[:-1]):
            raise ValueError('literal out of range in %r' % ln[:80])
        cons.append(([(1, l) for l in t[:-1]], '>=', 1))
    if nc != len(cons):
        raise ValueError('declared %d clauses, wrote %d' % (nc, len(cons)))
    return nv, cons


def read_any(text):
    return read_opb(text) if text.startswith('*') else read_dimacs(text)


def holds(a, cons):
    """a: list of bool indexed by variable (a[0] unused)"""
    for terms, op, deg in cons:
        s = 0
        for c, l in terms:
            if a[l] if l > 0 else not a[-l]:
                s += c
        if (s < deg) if op == '>=' else (s != deg):
            return False
    return True


def compare_models(rng, nv, A, B, heavy=False):
    """None when no assignment separates the two constraint lists, else (assignment, holdsA, holdsB); second value: how
    the comparison was made"""
    size = sum(len(t) + 1 for t, _, _ in A) + sum(len(t) + 1 for t, _, _ in B)
    if nv <= 16 and (1 << nv) * max(size, 1) <= (6000000 if heavy else 300000):
        for m in range(1 << nv):
            a = [None] + [bool(m >> i & 1) for i in range(nv)]
            x, y = holds(a, A), holds(a, B)
            if x != y:
                return (a[1:], x, y), 'all assignments'
        return None, 'all assignments'
    # beyond enumeration: local search for models of either list (the walk stops as soon as the list is satisfied, so the
    # models it finds satisfy it barely), each judged by the other list; plus uniformly random assignments
    budget = [4000000 if heavy else 150000]

    def value(a, c):
        s_ = 0
        for co, l in c[0]:
            if a[l] if l > 0 else not a[-l]:
                s_ += co
        return s_

    def ok1(a, c):
        v = value(a, c)
        return v >= c[2] if c[1] == '>=' else v == c[2]

    def walk(X):
        a = [None] + [rng.random() < 0.5 for _ in range(nv)]
        for _ in range(4 * nv + 20):
            budget[0] -= size
            if budget[0] <= 0:
                return None
            bad = [c for c in X if not ok1(a, c)]
            if not bad:
                return a
            c = rng.choice(bad)
            if not c[0]:
                return None
            v = value(a, c)
            up = v < c[2]
            # flip a literal of the constraint that moves its sum the right way
            cand = [l for co, l in c[0] if ((a[l] if l > 0 else not a[-l]) != (co > 0)) == up] or [l for _, l in c[0]]
            l = rng.choice(cand)
            a[abs(l)] = not a[abs(l)]
        return None

    tried = 0
    while budget[0] > 0 and tried < (300 if heavy else 40):
        tried += 1
        for X in (A, B):
            a = walk(X) if tried % 4 else [None] + [rng.random() < 0.5 for _ in range(nv)]
            if a is None:
                continue
            x, y = holds(a, A), holds(a, B)
            if x != y:
                return (a[1:], x, y), 'local search'
    return None, 'local search and sampled assignments'


def decide_property(rng, argv, rp, rc, heavy=False):
    """C08 on the real outputs of pbgen (rp) and cnfgen (rc) for one argv: (verdict, text)
    verdict: 'same' | 'differ' | 'undecided'"""
    if rp is None or rc is None or rp.get('timeout') or rc.get('timeout'):
        return 'undecided', 'a tool did not finish'
    tb_p, tb_c = 'Traceback' in (rp['err'] or ''), 'Traceback' in (rc['err'] or '')
    if tb_p or tb_c:
        return 'differ', '%s ends in a Python traceback (%s)' % ('pbgen' if tb_p else 'cnfgen', (rp if tb_p else rc)['err'].strip().split('\n')[-1][:120])
    if (rp['rc'] == 0) != (rc['rc'] == 0):
        return 'differ', 'pbgen exit %s, cnfgen exit %s on the same arguments' % (rp['rc'], rc['rc'])
    if rp['rc'] != 0:
        return 'same', 'both tools reject the arguments'
    try:
        nvp, P_ = read_opb(rp['out'])
    except (ValueError, IndexError) as e:
        return 'differ', 'the output of pbgen is not an OPB file: %s' % e
    try:
        nvc, C_ = read_any(rc['out'])
    except (ValueError, IndexError) as e:
        return 'differ', 'the output of cnfgen is not readable: %s' % e
    if nvp != nvc:
        return 'differ', 'pbgen declares %d variables, cnfgen %d' % (nvp, nvc)
    w, how = compare_models(rng, nvp, C_, P_, heavy)
    if w is not None:
        return 'differ', 'the assignment %s %s the CNF and %s the pseudo-Boolean formula' % (
            [i + 1 if b else -(i + 1) for i, b in enumerate(w[0])][:40], 'satisfies' if w[1] else 'falsifies', 'satisfies' if w[2] else 'falsifies')
    return 'same', how


# --------------------------------------------------------------------------
# argument vectors
# --------------------------------------------------------------------------
def common_grammar(argv):
    """no -T and no `-of dimacs` among the leading options (the options that exist in one tool only)"""
    if '-T' in argv:
        return False
    i = 0
    while i < len(argv):
        t = argv[i]
        if t in ('-q', '--quiet', '-v', '--verbose'):
            i += 1
        elif t in ('-of', '--output-format') and i + 1 < len(argv):
            if argv[i + 1] == 'dimacs':
                return False
            if argv[i + 1] != 'opb':
                return True
            i += 2
        else:
            return True
    return True


def site_of(argv):
    return 'pb-' + P.site_of(argv)


def with_pb_format(rng, argv):
    k = next((i for i, a in enumerate(argv) if not a.startswith('-')), len(argv))
    i = rng.randint(0, k)
    fmt = rng.choice(['opb', 'opb', 'opb', 'dimacs', 'latex', 'png', 'OPB', ''])
    return argv[:i] + [rng.choice(['-of', '--output-format']), fmt] + argv[i:], fmt


def tool_agrees(m, r):
    if r is None or r.get('timeout'):
        return False
    if m[0] == 'out':
        return r['rc'] == 0 and r['out'] == m[1]
    if m[0] == 'clierror':
        return r['rc'] == 255 and r['out'] == '' and 'Traceback' not in r['err'] and r['err'][:2] == '* '
    return False


def run_pb_pipeline(ctx):
    lib.import_impl()
    rng = random.Random(ctx.seed * 1000003 + 8)
    quick = ctx.tier == 'quick'
    t_start = time.time()
    cases = []          # dict(stream, argv, valid)
    # ---- valid commands of the common grammar
    for _ in range(250 if quick else 3000):
        c = P.gen_base(rng)
        cases.append(dict(stream='valid', valid=True, argv=P.render(rng, c)))
    for _ in range(170 if quick else 2100):
        c = P.gen_graph_base(rng)
        cases.append(dict(stream='valid-graph', valid=True, argv=P.render(rng, c)))
    for fl in P.PHP_FLAGS:
        for a in ([2], [3, 2], [2, 3, 3], [0, 0], [1, 0], [0, 1]):
            cases.append(dict(stream='valid', valid=True, argv=P.render(rng, dict(sub='php', args=a, flags=fl))))
    for v in P.OP_VARIANTS:
        for p in ([], ['--plant'], ['-p']):
            for n in (0, 1, 3, 4):
                cases.append(dict(stream='valid', valid=True, argv=P.render(rng, dict(sub='op', args=[n], flags=v + p))))
    # ---- thresholds (the commands without a chain; those with one go to the -T stream)
    for c in P.gen_thresholds(rng, ctx.tier):
        if c.get('chain'):
            if rng.random() < (0.3 if quick else 0.6):
                cases.append(dict(stream='with-T', valid=False, argv=P.render(rng, c)))
            continue
        if c['sub'] == 'op' and c['args'] and c['args'][0] > 17:
            continue
        cases.append(dict(stream='thresholds', valid=True, argv=P.render(rng, c)))
    # ---- -T anywhere: always a command line error
    for _ in range(60 if quick else 500):
        c = P.gen_base(rng, small=True) if rng.random() < 0.6 else P.gen_graph_base(rng, small=True)
        c['chain'] = P.gen_chain(rng, maxlen=2) or [('none', [])]
        argv = P.render(rng, c)
        if rng.random() < 0.3:
            argv = [a for a in argv if a != '-T']
            argv.insert(rng.randint(0, len(argv)), '-T')
        cases.append(dict(stream='with-T', valid=False, argv=argv))
    # ---- output format options
    for _ in range(90 if quick else 800):
        c = P.gen_base(rng, small=True) if rng.random() < 0.7 else P.gen_graph_base(rng, small=True)
        argv, fmt = with_pb_format(rng, P.render(rng, c))
        cases.append(dict(stream='format', valid=fmt == 'opb', argv=argv))
    # ---- malformed
    for i in range(320 if quick else 4000):
        c = P.gen_base(rng, small=True) if i % 3 else P.gen_graph_base(rng, small=True)
        c['chain'] = P.gen_chain(rng, maxlen=1) if rng.random() < 0.1 else []
        argv, kind = P.gen_malformed(rng, c)
        cases.append(dict(stream='malformed', valid=False, argv=argv, kind=kind))
    # ---- without -q: the header
    for i in range(90 if quick else 1000):
        c = P.gen_base(rng, small=True) if i % 8 else P.gen_graph_base(rng, small=True)
        cases.append(dict(stream='verbose', valid=True, verbose=True, argv=P.render(rng, c, quiet=rng.choice([[], [], ['-v'], ['--verbose'], ['-v', '--verbose']]))))
    for b in rng.sample(P.BIG, 2):
        cases.append(dict(stream='verbose', valid=True, verbose=True, argv=P.render(rng, dict(sub='vdw', args=[3, b, 2], plain=True), quiet=[])))

    # ---- the model
    from cnfgen.info import info
    version = str(info['version'])
    reps, t_model = P.model_replies(ctx, [cs['argv'] for cs in cases], name='pb_pipeline_env', extra=[version])
    for cs, m in zip(cases, reps):
        cs['model'] = m
        if lib.is_error(m):
            raise lib.ModelError('driver error on %r: %r' % (cs['argv'], m))
    claimed = [cs for cs in cases if cs['model'][0] in ('out', 'clierror', 'crash')]
    t0 = time.time()
    for cs, r in zip(claimed, run_tool('pbgen', [cs['argv'] for cs in claimed])):
        cs['real'] = r
    t_real = time.time() - t0

    # ---- which argv also go through the real cnfgen: every disagreement, and a sample of the agreements
    for cs in claimed:
        cs['agree'] = tool_agrees(cs['model'], cs['real'])
    pool = [cs for cs in claimed if cs['agree'] and cs['model'][0] == 'out' and common_grammar(cs['argv']) and len(cs['model'][1]) < 60000]
    rng.shuffle(pool)
    sample = pool[:130 if quick else 1700]
    second = [cs for cs in claimed if not cs['agree']] + sample
    t0 = time.time()
    for cs, r in zip(second, run_tool('cnfgen', [cs['argv'] for cs in second])):
        cs['cnfgen'] = r
    t_cnf = time.time() - t0
    ctx.note('pb pipeline: %d argv (%d claimed by the model); model %.1fs, pbgen %.1fs, cnfgen on %d argv %.1fs' % (len(cases), len(claimed), t_model, t_real, len(second), t_cnf))

    for cs in cases:
        argv, m, stream = cs['argv'], cs['model'], cs['stream']
        ctx.tally('pb pipeline stream', stream)
        ctx.tally('pb pipeline model verdict', str(m[0]))
        ctx.tally('pb pipeline sub-command', P.site_of(argv)[9:])
        if stream == 'malformed':
            ctx.tally('pb pipeline malformed kind', cs['kind'])
        if m[0] == 'slow':
            ctx.tally('pb pipeline skipped', 'model slower than the limit')
            continue
        if m[0] == 'outside':
            ctx.count('pbpipe-' + stream, tuple(argv), nontrivial=False)
            if cs['valid'] and not (cs.get('verbose') and any(a in argv for a in P.CONSTRUCTIONS)):
                ctx.violation('correspondence', 'the pbgen model places a command of its own grammar outside it', dict(input=dict(tool='pbgen', argv=argv), theorem='pbgen_total'),
                              False, site=site_of(argv), cls='grammar')
            continue
        r = cs['real']
        nontrivial = m[0] == 'out' and m[1].count('\n') > 1
        ctx.count('pbpipe-' + stream, tuple(argv), nontrivial=nontrivial or stream in ('malformed', 'with-T', 'format'),
                  sample=dict(argv=argv, model=m[0], bytes=len(m[1]) if m[0] == 'out' else 0, rc=r['rc']))
        site, cl = site_of(argv), P.cls_of(argv, stream, cs.get('kind'))
        if cs['agree']:
            if 'cnfgen' in cs:
                # the property on the real outputs of an argv where model and pbgen agree
                verdict, text = decide_property(rng, argv, r, cs['cnfgen'])
                ctx.count('pb-tools-property', tuple(argv), nontrivial=True)
                ctx.tally('pb tools property', verdict + ': ' + (text if verdict == 'same' else 'see violation'))
                if verdict == 'differ':
                    ctx.disagreements_checked += 1
                    ctx.violation('counterexample', 'pbgen and cnfgen on the same arguments: ' + text,
                                  dict(input=dict(argv=argv), pbgen_rc=r['rc'], cnfgen_rc=cs['cnfgen']['rc'], pbgen_stdout=r['out'][:300], cnfgen_stdout=cs['cnfgen']['out'][:300],
                                       theorem='tools_same_variables_and_models (coq/Prop_C08_pipeline.v)'), True, site=site, cls=cl)
            continue
        ctx.disagreements_checked += 1
        rc_ = cs.get('cnfgen')
        replay = dict(input=dict(tool='pbgen', argv=argv), model=m[0], model_text=(m[1][:300] if m[0] == 'out' else None), tool_rc=r['rc'], tool_stdout=r['out'][:300],
                      tool_stderr=r['err'][-400:], cnfgen_rc=rc_['rc'] if rc_ else None, cnfgen_stdout=rc_['out'][:300] if rc_ else None,
                      theorem='pbgen_roundtrip / tools_same_variables_and_models (coq/Prop_C08_pipeline.v)')
        if r.get('timeout'):
            ctx.violation('correspondence', 'pbgen did not finish within the time limit on an input the model calls small', replay, False, site=site, cls='timeout')
            continue
        if 'Traceback' in (r['err'] or ''):
            ctx.violation('counterexample', 'pbgen ends in a Python traceback (%s)' % r['err'].strip().split('\n')[-1][:120], replay, True, site=site, cls=cl)
            continue
        if common_grammar(argv):
            verdict, text = decide_property(rng, argv, r, rc_, heavy=True)
            if verdict == 'differ':
                ctx.violation('counterexample', 'pbgen and cnfgen on the same arguments: ' + text, replay, True, site=site, cls=cl)
                continue
        if m[0] == 'clierror' and r['rc'] == 255 and r['out'] == '' and r['err'][:2] != '* ':
            ctx.violation('counterexample', 'pbgen reports a command line error without the comment prefix of its output format', replay, True, site=site, cls=cl)
            continue
        ctx.violation('correspondence', 'the pbgen model (coq/PipelinePb.v) and the tool disagree (model %s, tool exit %s)' % (m[0], r['rc']), replay, False, site=site, cls=cl)

    # ---- a fresh interpreter gives what the fork server gives
    fresh_sample = [cs for cs in claimed if len(cs['real']['out']) < 20000]
    rng.shuffle(fresh_sample)
    fresh_sample = fresh_sample[:16 if quick else 150]
    fresh = clirun.parallel([(lambda a=cs['argv']: clirun.run_cli('pbgen', a)) for cs in fresh_sample])
    for cs, f in zip(fresh_sample, fresh):
        ctx.count('pbpipe-fresh-process', tuple(cs['argv']), nontrivial=True)
        r = cs['real']
        if f['rc'] != r['rc'] or f['out'].decode('latin-1') != r['out']:
            ctx.violation('correspondence', 'fork server and fresh process differ (pbgen)', dict(input=dict(argv=cs['argv']), fresh_rc=f['rc'], fork_rc=r['rc']), False,
                          site='pb-pipeline:harness', cls='fork-server')
    ctx.note('pb pipeline stream total %.1fs' % (time.time() - t_start))
