"""C19, aliasing half -- random HISTORIES on the real formula objects against coq/Alias.v.

Theorem side (coq/Heap.v, Alias.v, AliasFacts.v, Prop_C19_alias.v): a state is a heap of Python list
objects + header dicts + formula objects holding LOCATIONS of their clause lists + the references the
client holds; for every history: objects never share a list with each other, builders / accessors /
transformations only allocate (arguments unchanged, also when the call raises), an operation changes only
the object it names; for the repaired variant (and for histories of the code as found that do not iterate,
slice or pass list-pairs) no client mutation is visible in any formula.  The code as found hands out its
stored lists through iteration and slices and keeps list-pairs of add_constraint by reference: `_refuted`.

Correspondence (`run_alias(ctx)`, called from harness/c19.py): random histories over the alphabet of
Alias.v (client lists, CNF/OPB objects, add_clause / add_clauses_from / add_linear / cardinality_* /
add_parity / add_constraint, F[i] / iteration / slices / clauses(), header edits, FlipPolarity /
XorSubstitution / OrSubstitution / Shuffle with explicit argument lists held by the client, client
mutation of every list it holds) are executed on the real objects in-process; after EVERY step the full
observable state (every formula: number_of_variables, clause list, header items; every client list:
content) is compared with the extracted model (`alias_trace`).  Independently of the model, after every step
the property is checked directly on the real objects (no formula other than the one named changes, no
argument changes, a client mutation changes no formula, a transformation returns a new object): a failure is a
failing input of C19 and is reported with the history shrunk by deleting operations."""
import math

from lib import cmd, Sym, import_impl

META = dict(
    technique='Coq theorems over all histories of a heap model of formula objects (locations vs copies) + extracted-model comparison of random '
              'histories on the real objects after every step + direct check of the property on the real objects',
    category='proof',
    text='Theorems (Prop_C19_alias.v): for every history of client allocations, builder calls (add_clause, add_clauses_from, add_linear/cardinality_*, '
         'add_parity, add_constraint; check on or off; returning or raising), accesses (F[i], iteration, slices, clauses()), header edits, '
         'transformations (FlipPolarity, XorSubstitution, OrSubstitution, Shuffle with explicit lists) and client mutations of any list it holds: '
         'no list belongs to two formula objects; an operation changes only the object it acts on; transformations leave every existing object as it '
         'was and later work on the result never changes the input (and vice versa); every operation but a client mutation only allocates (arguments '
         'unchanged, also on the error path; a raising add_clauses_from keeps exactly the prefix); for the repaired code, and for histories of the code '
         'as found that do not iterate, slice or pass list-pairs, no client mutation is visible in any formula. REFUTED for the code as found: iteration '
         'and slices hand out the stored lists, add_constraint keeps list-pairs by reference (witness histories; findings C19-A1..A3).',
    note='Trusted: Alias.v describes the code (tied by the history comparison: every observable after every step); the observation function sees '
         'every observable part (number_of_variables, clause list, header items; variable names are compared by the direct check only).',
    design_ref='5/C19',
)
RULE = ('random histories (8-40 operations quick, 8-60 thorough) over the alphabet of Alias.v on CNF and OPB objects; one case = one history, compared '
        'after every step; non-trivial = contains a client mutation and a formula; distinct = distinct history index')
TRUSTED = ['harness/c19_alias.py: World.snap_model sees every observable part of a formula (number_of_variables, clauses in order, header items) and of a client list']

LIT_BUILDERS = ('addclause', 'addclauses', 'addlinear', 'addparity')
PB_BUILDERS = ('addconstraint', 'addconstraints')
BUILDERS = LIT_BUILDERS + PB_BUILDERS
OPS6 = ['<=', '>=', '<', '>', '==', '!=']
PBOPS = ['<=', '>=', '<', '>', '==']
CARD = {'==': 'cardinality_eq', '!=': 'cardinality_neq', '>=': 'cardinality_geq', '<=': 'cardinality_leq'}


# ----------------------------------------------------------------------------------------------
# the real side
# ----------------------------------------------------------------------------------------------
def key_sx(k):
    k = str(k)
    if k.startswith('transformation ') and k[15:].isdigit() and str(int(k[15:])) == k[15:]:
        return [Sym('t'), int(k[15:])]
    return [Sym('o'), k]


def key_cmp(k):
    """the form in which the driver's reply comes back through unsx"""
    x = key_sx(k)
    return [str(x[0]), x[1]]


def cval(lst, kind):
    if kind == 'l':
        return ['l'] + list(lst)
    return ['p', [list(t) for t in lst[:-2]], lst[-2], lst[-1]]


class Skip(Exception):
    """the operation refers to something that does not exist (only while shrinking)"""


class World:
    """the real objects, and the client's references to lists"""

    def __init__(self):
        import_impl()
        import cnfgen
        from cnfgen.formula.cnf import CNF
        from cnfgen.formula.opb import OPB
        self.cnfgen, self.CNF, self.OPB = cnfgen, CNF, OPB
        self.objs, self.kinds = [], []
        self.held, self.hkind, self.origin = [], [], []
        self.passed = {}        # handle -> name of the last builder that received it (directly or as a pair)
        self.pairs = {}         # handle of a constraint list -> handles of the lists used as pairs in it
        self.made = []          # per executed op: (first new object, number, first new handle, number)

    # -- access helpers
    def obj(self, f):
        if not 0 <= f < len(self.objs):
            raise Skip()
        return self.objs[f]

    def lst(self, h, kind=None):
        if not 0 <= h < len(self.held) or (kind and self.hkind[h] != kind):
            raise Skip()
        return self.held[h]

    def hold(self, lst, kind, origin):
        self.held.append(lst)
        self.hkind.append(kind)
        self.origin.append(origin)

    def arg(self, h, style):
        L = self.lst(h, 'l')
        if style == 'tuple':
            return tuple(L)
        if style == 'gen':
            return (x for x in L)
        return L

    def outer(self, hs, style, kind='l'):
        ls = [self.lst(h, kind) for h in hs]
        if style == 'tuple' and kind == 'l':
            return tuple(tuple(x) for x in ls)
        if style == 'gen':
            return (x for x in ls)
        return ls

    def note_passed(self, h, name):
        self.passed[h] = name
        for p in self.pairs.get(h, []):
            self.passed[p] = name

    # -- snapshots
    def snap_obj(self, g):
        F = self.objs[g]
        k = self.kinds[g]
        return [k, F.number_of_variables(), [cval(c, 'l' if k == 'cnf' else 'p') for c in F],
                [[key_cmp(a), str(b)] for a, b in F.header.items()]]

    def snap_model(self):
        return [[self.snap_obj(g) for g in range(len(self.objs))],
                [cval(L, k) for L, k in zip(self.held, self.hkind)]]

    def snap_labels(self):
        return [list(F.all_variable_labels()) for F in self.objs]

    # -- one operation; returns 'ok' | 'err'
    def run(self, op):
        o0, h0 = len(self.objs), len(self.held)
        try:
            r = self._run(op)
        finally:
            self.made.append((o0, len(self.objs) - o0, h0, len(self.held) - h0))
        return r

    def _run(self, op):
        n = op['op']
        kw = {} if op.get('check', True) and not op.get('explicit_check') else {'check': op.get('check', True)}
        if n == 'newlist':
            self.hold(list(op['xs']), 'l', 'newlist')
        elif n == 'newpb':
            ts, refs = [], []
            for t in op['ts']:
                if t[0] == 't':
                    ts.append((t[1], t[2]))
                else:
                    ts.append(self.lst(t[1]))
                    refs.append(t[1])
            self.pairs[len(self.held)] = refs
            self.hold(ts + [op['o'], op['d']], 'p', 'newpb')
        elif n == 'newformula':
            cls = self.CNF if op['kind'] == 'cnf' else self.OPB
            F = cls(description=op['desc']) if op.get('desc') is not None else cls()
            self.objs.append(F)
            self.kinds.append(op['kind'])
        elif n == 'newfrom':
            cls = self.CNF if op['kind'] == 'cnf' else self.OPB
            for h in op['hs']:
                self.note_passed(h, 'add_clause' if op['kind'] == 'cnf' else 'add_constraint')
            try:
                F = cls(self.outer(op['hs'], op.get('style'), 'l' if op['kind'] == 'cnf' else 'p'), description=op.get('desc'))
            except Skip:
                raise
            except Exception:
                return 'err'
            self.objs.append(F)
            self.kinds.append(op['kind'])
        elif n in BUILDERS:
            F = self.obj(op['f'])
            k = self.kinds[op['f']]
            try:
                if n == 'addclause':
                    a = self.arg(op['h'], op.get('style'))
                    self.note_passed(op['h'], 'add_clause')
                    F.add_clause(a, **kw)
                elif n == 'addclauses':
                    a = self.outer(op['hs'], op.get('style'))
                    for h in op['hs']:
                        self.note_passed(h, 'add_clauses_from')
                    F.add_clauses_from(a, **kw)
                elif n == 'addlinear':
                    a = self.arg(op['h'], op.get('style'))
                    self.note_passed(op['h'], 'add_linear')
                    if k == 'opb' or op.get('api') == 'cardinality':
                        if op['o'] not in CARD:
                            raise Skip()
                        getattr(F, CARD[op['o']])(a, op['c'], **kw)
                    else:
                        F.add_linear(a, op['o'], op['c'], **kw)
                elif n == 'addparity':
                    a = self.arg(op['h'], op.get('style'))
                    self.note_passed(op['h'], 'add_parity')
                    F.add_parity(a, op['c'], **kw)
                elif n == 'addconstraint':
                    if k != 'opb':
                        raise Skip()
                    a = self.lst(op['h'])
                    self.note_passed(op['h'], 'add_constraint')
                    F.add_constraint(a, **kw)
                else:
                    if k != 'opb':
                        raise Skip()
                    a = self.outer(op['hs'], op.get('style'), None)
                    for h in op['hs']:
                        self.note_passed(h, 'add_constraint')
                    F.add_constraints_from(a, **kw)
            except Skip:
                raise
            except Exception:
                return 'err'
        elif n == 'getitem':
            F = self.obj(op['f'])
            k = 'l' if self.kinds[op['f']] == 'cnf' else 'p'
            try:
                if op.get('via') == 'view':
                    c = (F.clauses() if k == 'l' else F.constraints())[op['i']]
                else:
                    c = F[op['i']]
            except IndexError:
                return 'err'
            self.hold(c, k, 'getitem')
        elif n == 'iter':
            F = self.obj(op['f'])
            k = 'l' if self.kinds[op['f']] == 'cnf' else 'p'
            via = op.get('via')
            if via == 'view':
                cs = list(F.clauses() if k == 'l' else F.constraints())
            elif via == 'for':
                cs = []
                for c in F:
                    cs.append(c)
            else:
                cs = list(F)
            for c in cs:
                self.hold(c, k, 'iter')
        elif n == 'slice':
            F = self.obj(op['f'])
            k = 'l' if self.kinds[op['f']] == 'cnf' else 'p'
            if op.get('via') == 'view':
                cs = (F.clauses() if k == 'l' else F.constraints())[op['a']:op['b']]
            else:
                cs = F[op['a']:op['b']]
            for c in cs:
                self.hold(c, k, 'slice')
        elif n == 'hdrset':
            self.obj(op['f']).header[op['k']] = op['v']
        elif n == 'hdrdel':
            try:
                del self.obj(op['f']).header[op['k']]
            except KeyError:
                return 'err'
        elif n == 'transform':
            F = self.obj(op['f'])
            if self.kinds[op['f']] != 'cnf' or not F.debug(allow_opposite=True, allow_repetition=True):
                raise Skip()
            t = op['t']
            cg = self.cnfgen
            try:
                if t[0] == 'flip':
                    G = cg.FlipPolarity(F)
                elif t[0] == 'xor':
                    G = cg.XorSubstitution(F, t[1])
                elif t[0] == 'or':
                    G = cg.OrSubstitution(F, t[1])
                else:
                    args = []
                    for h in t[1:4]:
                        if h is None:
                            args.append('fixed')
                        else:
                            self.passed[h] = 'Shuffle'
                            args.append(self.arg(h, op.get('style')))
                    G = cg.Shuffle(F, *args)
            except Skip:
                raise
            except ValueError:
                return 'err'
            self.objs.append(G)
            self.kinds.append('cnf')
        elif n == 'mut':
            L = self.lst(op['h'])
            m = op['m']
            k = self.hkind[op['h']]
            try:
                if k == 'l':
                    if m[0] == 'append':
                        L.append(m[1])
                    elif m[0] == 'set':
                        L[m[1]] = m[2]
                    elif m[0] == 'neg':
                        L[m[1]] *= -1
                    elif m[0] == 'clear':
                        L.clear()
                    elif m[0] == 'pop':
                        L.pop()
                    elif m[0] == 'reverse':
                        L.reverse()
                else:
                    nt = len(L) - 2
                    if m[0] == 'termset':
                        if m[1] < nt:
                            L[m[1]] = (m[2], m[3])
                    elif m[0] == 'termins':
                        L.insert(len(L) - 2, (m[1], m[2]))
                    elif m[0] == 'termdel':
                        if nt >= 1:
                            del L[0]
                    elif m[0] == 'setop':
                        L[-2] = m[1]
                    elif m[0] == 'setdeg':
                        L[-1] = m[1]
            except IndexError:
                pass
        else:
            raise ValueError('unknown operation %r' % (n,))
        return 'ok'


def op_sx(op, hdr=None):
    """the operation as the driver reads it"""
    n = op['op']
    S = Sym
    ck = bool(op.get('check', True))
    if n == 'newlist':
        return [S('newlist'), list(op['xs'])]
    if n == 'newpb':
        return [S('newpb'), [[S('t'), t[1], t[2]] if t[0] == 't' else [S('r'), t[1]] for t in op['ts']], op['o'], op['d']]
    if n == 'newformula':
        return [S('newformula'), S(op['kind']), [[key_sx(a), str(b)] for a, b in op['hdr']]]
    if n == 'newfrom':
        return [S('newfrom'), S(op['kind']), [[key_sx(a), str(b)] for a, b in op['hdr']], list(op['hs'])]
    if n == 'addclause':
        return [S(n), op['f'], op['h'], ck]
    if n == 'addclauses':
        return [S(n), op['f'], list(op['hs']), ck]
    if n == 'addlinear':
        return [S(n), op['f'], op['h'], op['o'], op['c'], ck]
    if n == 'addparity':
        return [S(n), op['f'], op['h'], op['c'], ck]
    if n == 'addconstraint':
        return [S(n), op['f'], op['h'], ck]
    if n == 'addconstraints':
        return [S(n), op['f'], list(op['hs']), ck]
    if n == 'getitem':
        return [S(n), op['f'], op['i']]
    if n == 'iter':
        return [S(n), op['f']]
    if n == 'slice':
        return [S(n), op['f'], op['a'], op['b']]
    if n == 'hdrset':
        return [S(n), op['f'], key_sx(op['k']), op['v']]
    if n == 'hdrdel':
        return [S(n), op['f'], key_sx(op['k'])]
    if n == 'transform':
        t = op['t']
        if t[0] == 'shuffle':
            tt = [S('shuffle')] + [None if h is None else [S('some'), h] for h in t[1:4]]
        elif t[0] == 'flip':
            tt = [S('flip')]
        else:
            tt = [S(t[0]), t[1]]
        return [S(n), tt, op['f']]
    if n == 'mut':
        m = op['m']
        return [S(n), op['h'], [S(m[0])] + list(m[1:])]
    raise ValueError(n)


def render_py(hist):
    """the history as a Python session (for the report)"""
    out = ['from cnfgen.formula.cnf import CNF', 'from cnfgen.formula.opb import OPB', 'import cnfgen']
    nh = no = 0
    kinds = []

    def view(f):
        return '.constraints()' if f < len(kinds) and kinds[f] == 'opb' else '.clauses()'
    for op in hist:
        n = op['op']
        ck = '' if op.get('check', True) else ', check=False'

        def a(h, st=op.get('style')):
            return {'tuple': 'tuple(L%d)', 'gen': '(x for x in L%d)'}.get(st, 'L%d') % h
        if n == 'newlist':
            out.append('L%d = %r' % (nh, list(op['xs'])))
            nh += 1
        elif n == 'newpb':
            out.append('L%d = [%s, %r, %r]' % (nh, ', '.join('(%d, %d)' % (t[1], t[2]) if t[0] == 't' else 'L%d' % t[1] for t in op['ts']), op['o'], op['d']))
            nh += 1
        elif n == 'newformula':
            out.append('F%d = %s()' % (no, op['kind'].upper()))
            kinds.append(op['kind'])
            no += 1
        elif n == 'newfrom':
            out.append('F%d = %s([%s])   # counts as F%d only when it does not raise' % (no, op['kind'].upper(), ', '.join('L%d' % h for h in op['hs']), no))
            kinds.append(op['kind'])
            no += 1
        elif n == 'addclause':
            out.append('F%d.add_clause(%s%s)' % (op['f'], a(op['h']), ck))
        elif n == 'addclauses':
            out.append('F%d.add_clauses_from([%s]%s)' % (op['f'], ', '.join('L%d' % h for h in op['hs']), ck))
        elif n == 'addlinear':
            if op.get('api') == 'cardinality' and op['o'] in CARD:
                out.append('F%d.%s(%s, %d%s)' % (op['f'], CARD[op['o']], a(op['h']), op['c'], ck))
            else:
                out.append('F%d.add_linear(%s, %r, %d%s)   # OPB: %s' % (op['f'], a(op['h']), op['o'], op['c'], ck, CARD.get(op['o'])))
        elif n == 'addparity':
            out.append('F%d.add_parity(%s, %d%s)' % (op['f'], a(op['h']), op['c'], ck))
        elif n == 'addconstraint':
            out.append('F%d.add_constraint(L%d%s)' % (op['f'], op['h'], ck))
        elif n == 'addconstraints':
            out.append('F%d.add_constraints_from([%s]%s)' % (op['f'], ', '.join('L%d' % h for h in op['hs']), ck))
        elif n == 'getitem':
            out.append('L%d = F%d%s[%d]' % (nh, op['f'], view(op['f']) if op.get('via') == 'view' else '', op['i']))
            nh += 1
        elif n == 'iter':
            out.append('L%d, ... = list(F%d%s)   # one name per clause' % (nh, op['f'], view(op['f']) if op.get('via') == 'view' else ''))
            nh = None
        elif n == 'slice':
            out.append('L%s, ... = F%d%s[%d:%d]' % (nh, op['f'], view(op['f']) if op.get('via') == 'view' else '', op['a'], op['b']))
            nh = None
        elif n == 'hdrset':
            out.append('F%d.header[%r] = %r' % (op['f'], op['k'], op['v']))
        elif n == 'hdrdel':
            out.append('del F%d.header[%r]' % (op['f'], op['k']))
        elif n == 'transform':
            t = op['t']
            if t[0] == 'shuffle':
                out.append('F%d = cnfgen.Shuffle(F%d, %s)' % (no, op['f'], ', '.join("'fixed'" if h is None else a(h) for h in t[1:4])))
            else:
                out.append('F%d = cnfgen.%s(F%d%s)' % (no, {'flip': 'FlipPolarity', 'xor': 'XorSubstitution', 'or': 'OrSubstitution'}[t[0]], op['f'],
                                                        '' if t[0] == 'flip' else ', %d' % t[1]))
            kinds.append('cnf')
            no += 1
        elif n == 'mut':
            m = op['m']
            h = op['h']
            out.append({'append': 'L%d.append(%s)', 'set': 'L%d[%s] = %s', 'neg': 'L%d[%s] *= -1', 'clear': 'L%d.clear()', 'pop': 'L%d.pop()',
                        'reverse': 'L%d.reverse()', 'termset': 'L%d[%s] = (%s, %s)', 'termins': 'L%d.insert(len(L{0})-2, (%s, %s))'.format(h),
                        'termdel': 'del L%d[0]', 'setop': 'L%d[-2] = %r', 'setdeg': 'L%d[-1] = %s'}[m[0]] % tuple([h] + list(m[1:])))
        if nh is None:
            out.append('# (handles are numbered in the order the client obtained the lists)')
            nh = -1
    return out


# ----------------------------------------------------------------------------------------------
# the property itself, checked on the real objects after one step
# ----------------------------------------------------------------------------------------------
def direct_check(W, op, res, pre, pre_labels, pre_ids):
    """returns None or (site, cls, what).  pre = W.snap_model() before the step."""
    post = W.snap_model()
    labels = W.snap_labels()
    n = op['op']
    po, ph = pre
    qo, qh = post
    no, nh = len(po), len(ph)

    def changed(g):
        parts = []
        if po[g][1] != qo[g][1]:
            parts.append('numvar')
        if po[g][2] != qo[g][2]:
            parts.append('clauses')
        if po[g][3] != qo[g][3]:
            parts.append('header')
        if pre_labels[g] != labels[g]:
            parts.append('names')
        return parts
    named = op.get('f') if n in BUILDERS or n in ('hdrset', 'hdrdel') else None
    if n == 'mut':
        for g in range(no):
            ch = changed(g)
            if ch:
                h = op['h']
                L = W.held[h]
                F = W.objs[g]
                org = W.origin[h]
                # how does the formula reach the list that was edited?  (by identity, not by bookkeeping)
                if any(c is L for c in F):
                    first = [j for j in range(len(W.held)) if W.held[j] is L][0]      # how the client first got this list
                    org = W.origin[first]
                    if org in ('newlist', 'newpb'):
                        site = W.passed.get(first, W.passed.get(h, 'never-passed'))
                        return (site, 'argument-kept-by-reference',
                                'a list passed to %s is stored in formula %d by reference: editing it changed the %s' % (site, g, ','.join(ch)))
                    return (org, 'returned-list-live', 'editing a list returned by %s changed the %s of formula %d' % (org, ','.join(ch), g))
                if W.kinds[g] == 'opb' and any(t is L for c in F for t in c[:-2]):
                    return ('add_constraint', 'argument-kept-by-reference',
                            'editing a two-element list that was passed as a (coefficient, literal) pair to add_constraint changed the %s of formula %d' % (','.join(ch), g))
                site = W.passed.get(h, org)
                return (site, 'unexplained-alias', 'editing a client list (obtained by %s, last passed to %s) changed the %s of formula %d' % (org, W.passed.get(h), ','.join(ch), g))
        return None
    site = n if n != 'transform' else op['t'][0]
    # arguments (every list the client holds) keep their content
    if qh[:nh] != ph:
        bad = [i for i in range(nh) if qh[i] != ph[i]]
        return (site, 'argument-changed', '%s changed the content of the client list(s) %s' % (site, bad))
    for g in range(no):
        ch = changed(g)
        if not ch:
            continue
        if g == named:
            if n in ('hdrset', 'hdrdel') and ch != ['header']:
                return (site, 'header-edit-changed-' + ch[0], 'a header edit changed the %s of the formula' % ','.join(ch))
            if n in BUILDERS and 'header' in ch:
                return (site, 'builder-changed-header', 'a builder changed the header')
            continue
        if n == 'transform' and g == op['f']:
            return (site, 'input-' + ch[0], '%s changed the %s of its input formula' % (site, ','.join(ch)))
        return (site, 'other-formula-' + ch[0], '%s on formula %s changed the %s of formula %d' % (site, named, ','.join(ch), g))
    if n == 'transform' and res == 'ok':
        if any(W.objs[-1] is F for F in W.objs[:-1]):
            return (site, 'same-object', '%s returned an existing object' % site)
        if W.objs[-1].header is W.objs[op['f']].header:
            return (site, 'input-header-shared', '%s: result and input share the header dict' % site)
    if n in ('getitem', 'iter', 'slice', 'newlist', 'newpb', 'newformula', 'newfrom') and res == 'err' and len(qh) != nh:
        return (site, 'handles-after-error', 'a raising access returned lists')
    return None


# ----------------------------------------------------------------------------------------------
# history generation
# ----------------------------------------------------------------------------------------------
def n_clauses(n, o, c):
    def geq(k):
        return 0 if k <= 0 else (1 if k > n else math.comb(n, n - k + 1))
    if o == '>=':
        return geq(c)
    if o == '>':
        return geq(c + 1)
    if o == '<=':
        return geq(n - c)
    if o == '<':
        return geq(n - c + 1)
    if o == '==':
        return geq(c) + geq(n - c)
    return math.comb(n, c) if 0 <= c <= n else 0


def model_cost(n, o, c):
    """work of the Gallina enumerators (combs / neq_clauses explore every partial choice): about sum_{i<=j} C(n,i)"""
    def upto(j):
        j = min(j, n)
        return sum(math.comb(n, i) for i in range(0, j + 1)) if j <= 12 or n <= 14 else 10 ** 9

    def geq(k):
        return 1 if k <= 0 or k > n else upto(n - k + 1)
    if o == '>=':
        return geq(c)
    if o == '>':
        return geq(c + 1)
    if o == '<=':
        return geq(n - c)
    if o == '<':
        return geq(n - c + 1)
    if o == '==':
        return geq(c) + geq(n - c)
    return upto(c) if 0 <= c <= n else 1


class Gen:
    def __init__(self, rng, W, tally):
        self.rng, self.W, self.tally = rng, W, tally

    def lits(self, n=None, zero_ok=True):
        rng = self.rng
        if n is None:
            n = rng.choice([0, 1, 2, 2, 3, 3, 4, 5])
            r = rng.random()
            if r < 0.04:
                n = rng.choice([16, 17, 18])
            elif r < 0.07:
                n = rng.choice([64, 65, 66])
            elif r < 0.09:
                n = rng.choice([128, 129, 130])
        top = max(6, n)
        if n > 8:
            vs = rng.sample(range(1, top + 1), n)
        else:
            vs = [rng.randint(1, 6) for _ in range(n)]
        xs = [v * rng.choice([1, -1]) for v in vs]
        if zero_ok and xs and rng.random() < 0.06:
            xs[rng.randrange(len(xs))] = 0
        return xs

    def style(self):
        return self.rng.choice(['list', 'list', 'tuple', 'gen'])

    def pick_obj(self, kind=None):
        c = [g for g in range(len(self.W.objs)) if kind is None or self.W.kinds[g] == kind]
        return self.rng.choice(c) if c else None

    def pick_list(self, kind, maxlen=None):
        W = self.W
        c = [h for h in range(len(W.held)) if W.hkind[h] == kind and (maxlen is None or len(W.held[h]) <= maxlen)]
        if not c:
            return None
        if self.rng.random() < 0.5:
            return c[-1 - min(len(c) - 1, int(self.rng.expovariate(0.7)))]
        return self.rng.choice(c)

    def next_ops(self):
        """a short list of operations to run next (a main one, preceded by what it needs)"""
        rng, W = self.rng, self.W
        if not W.objs:
            return [self.new_formula()]
        kind = rng.choices(['newlist', 'newpb', 'newformula', 'newfrom', 'addclause', 'addclauses', 'addlinear', 'addparity', 'addconstraint',
                            'addconstraints', 'getitem', 'iter', 'slice', 'hdrset', 'hdrdel', 'transform', 'mut', 'threshold'],
                           [6, 5, 2, 2, 10, 4, 9, 4, 8, 2, 6, 6, 4, 4, 2, 9, 22, 4])[0]
        f = getattr(self, 'g_' + kind)
        ops = f()
        if ops is None:
            return [dict(op='newlist', xs=self.lits())]
        return ops if isinstance(ops, list) else [ops]

    def new_formula(self, kind=None):
        kind = kind or self.rng.choice(['cnf', 'cnf', 'opb'])
        return dict(op='newformula', kind=kind, desc=self.rng.choice([None, 'a {curly} formula', 'x']))

    def g_newlist(self):
        r = self.rng.random()
        if r < 0.25:      # a list meant to be used as a (coefficient, literal) pair
            return dict(op='newlist', xs=[self.rng.randint(-3, 4), self.rng.choice([1, -1]) * self.rng.randint(1, 6)])
        return dict(op='newlist', xs=self.lits())

    def g_newpb(self):
        rng, W = self.rng, self.W
        ts = []
        for _ in range(rng.choice([0, 1, 2, 3, 3, 4])):
            h = self.pick_list('l', 3) if rng.random() < 0.35 else None
            if h is not None and (len(W.held[h]) == 2 or rng.random() < 0.1):
                ts.append(['r', h])
            else:
                ts.append(['t', rng.randint(-3, 4), rng.choice([1, -1]) * rng.randint(0 if rng.random() < 0.05 else 1, 6)])
        return dict(op='newpb', ts=ts, o=rng.choice(PBOPS), d=rng.randint(-2, 5))

    def g_newformula(self):
        return self.new_formula()

    def g_newfrom(self):
        rng = self.rng
        kind = rng.choice(['cnf', 'opb'])
        hs = [h for h in (self.pick_list('l' if kind == 'cnf' else 'p', 8) for _ in range(rng.randint(0, 3))) if h is not None]
        return dict(op='newfrom', kind=kind, hs=hs, style=self.style() if kind == 'cnf' else rng.choice(['list', 'gen']), desc=rng.choice([None, 'built from lists']))

    def check(self):
        return self.rng.random() < 0.8

    def g_addclause(self):
        f, h = self.pick_obj(), self.pick_list('l')
        if f is None or h is None:
            return None
        return dict(op='addclause', f=f, h=h, check=self.check(), style=self.style(), explicit_check=self.rng.random() < 0.3)

    def g_addclauses(self):
        f = self.pick_obj()
        hs = [h for h in (self.pick_list('l') for _ in range(self.rng.randint(0, 4))) if h is not None]
        if f is None:
            return None
        return dict(op='addclauses', f=f, hs=hs, check=self.check(), style=self.style())

    def g_addlinear(self):
        rng, W = self.rng, self.W
        f, h = self.pick_obj(), self.pick_list('l')
        if f is None or h is None:
            return None
        n = len(W.held[h])
        o = rng.choice(OPS6 if W.kinds[f] == 'cnf' else list(CARD))
        for _ in range(20):
            c = rng.choice([rng.randint(-1, n + 1), 0, 1, n - 1, n, n + 1, rng.randint(0, max(0, n))])
            if W.kinds[f] == 'opb' and o != '!=':
                break
            if n_clauses(n, o, c) <= 150 and model_cost(n, o, c) <= 3000:
                break
        else:
            return None
        return dict(op='addlinear', f=f, h=h, o=o, c=c, check=self.check(), style=self.style(),
                    api='cardinality' if (W.kinds[f] == 'opb' or (o in CARD and rng.random() < 0.5)) else 'add_linear')

    def g_addparity(self):
        f, h = self.pick_obj(), self.pick_list('l', 7)
        if f is None or h is None:
            return None
        return dict(op='addparity', f=f, h=h, c=self.rng.choice([0, 1, 1, 2]), check=self.check(), style=self.style())

    def g_addconstraint(self):
        rng = self.rng
        f = self.pick_obj('opb')
        if f is None:
            return [self.new_formula('opb')]
        h = self.pick_list('p')
        if h is None:
            return self.g_newpb()
        if rng.random() < 0.04:
            hl = self.pick_list('l', 4)
            if hl is not None:
                return dict(op='addconstraint', f=f, h=hl, check=True, explicit_check=True)    # a list of integers: rejected
        return dict(op='addconstraint', f=f, h=h, check=self.check())

    def g_addconstraints(self):
        f = self.pick_obj('opb')
        if f is None:
            return None
        hs = [h for h in (self.pick_list('p') for _ in range(self.rng.randint(0, 3))) if h is not None]
        return dict(op='addconstraints', f=f, hs=hs, check=self.check(), style=self.rng.choice(['list', 'gen']))

    def g_getitem(self):
        f = self.pick_obj()
        if f is None:
            return None
        m = len(self.W.objs[f])
        return dict(op='getitem', f=f, i=self.rng.randint(0, m) if self.rng.random() < 0.15 else self.rng.randrange(m) if m else 0,
                    via=self.rng.choice(['index', 'view']))

    def g_iter(self):
        f = self.pick_obj()
        if f is None or len(self.W.objs[f]) > 40:
            return None
        return dict(op='iter', f=f, via=self.rng.choice(['list', 'for', 'view']))

    def g_slice(self):
        f = self.pick_obj()
        if f is None:
            return None
        m = len(self.W.objs[f])
        a = self.rng.randint(0, m)
        b = self.rng.randint(0, m + 1)
        if b - a > 40:
            b = a + 40
        return dict(op='slice', f=f, a=a, b=b, via=self.rng.choice(['index', 'view']))

    def g_hdrset(self):
        f = self.pick_obj()
        if f is None:
            return None
        return dict(op='hdrset', f=f, k=self.rng.choice(['description', 'note', 'transformation 1', 'transformation 2', 'transformation 7', 'url', 'x y']),
                    v=self.rng.choice(['scribble', 'with {braces}', '', 'two words']))

    def g_hdrdel(self):
        f = self.pick_obj()
        if f is None:
            return None
        keys = list(self.W.objs[f].header.keys())
        return dict(op='hdrdel', f=f, k=self.rng.choice(keys + ['missing']) if keys else 'missing')

    def g_transform(self):
        rng, W = self.rng, self.W
        cands = [g for g in range(len(W.objs)) if W.kinds[g] == 'cnf' and len(W.objs[g]) <= 30 and
                 W.objs[g].debug(allow_opposite=True, allow_repetition=True)]
        if not cands:
            return None
        f = rng.choice(cands)
        if rng.random() < 0.4:
            f = max(cands, key=lambda g: len(W.objs[g]))
        F = W.objs[f]
        width = max([len(c) for c in F] + [0])
        N, M = F.number_of_variables(), len(F)
        t = rng.choice(['flip', 'xor', 'or', 'shuffle', 'shuffle'])
        if t in ('xor', 'or') and (width > 4 or N > 40 or M > 12):
            t = 'flip'
        if t == 'flip':
            return dict(op='transform', t=['flip'], f=f)
        if t in ('xor', 'or'):
            return dict(op='transform', t=[t, rng.choice([1, 2, 2, 3, 0]) if t == 'or' or width <= 3 else rng.choice([1, 2, 0])], f=f)
        # Shuffle with explicit argument lists held by the client
        pre, hs = [], []
        nh = len(W.held)
        flips = [rng.choice([1, -1]) for _ in range(N)]
        perm = list(range(1, N + 1))
        rng.shuffle(perm)
        cperm = list(range(M))
        rng.shuffle(cperm)
        lists = [flips, perm, cperm]
        r = rng.random()
        if r < 0.12:       # near-miss invalid arguments
            k = rng.randrange(3)
            L = lists[k]
            if L and rng.random() < 0.5:
                L[rng.randrange(len(L))] = L[rng.randrange(len(L))] if k else 2
            else:
                L.append(1)
        for L in lists:
            if rng.random() < 0.2:
                hs.append(None)
            else:
                pre.append(dict(op='newlist', xs=L))
                hs.append(nh)
                nh += 1
        return pre + [dict(op='transform', t=['shuffle'] + hs, f=f, style=rng.choice(['list', 'tuple']))]

    def g_threshold(self):
        """a long list (around 16 / 64 / 128 items) handed to a builder as it is, then edited by the client"""
        rng, W = self.rng, self.W
        f = self.pick_obj()
        if f is None:
            return None
        n = rng.choice([15, 16, 17, 63, 64, 65, 66, 127, 128, 129, 130])
        xs = self.lits(n, zero_ok=False)
        h = len(W.held)
        ops = [dict(op='newlist', xs=xs)]
        for _ in range(rng.randint(1, 3)):
            r = rng.random()
            st = rng.choice(['list', 'list', 'list', 'tuple', 'gen'])
            if r < 0.35:
                ops.append(dict(op='addclause', f=f, h=h, check=self.check(), style=st))
            elif r < 0.9:
                o, c = rng.choice([('>=', 1), ('>=', 1), ('>=', n), ('>=', n), ('>=', n + 1), ('>=', 0), ('<=', 0), ('<=', n - 1), ('<=', n), ('!=', 0), ('!=', 1),
                                   ('>', 0), ('<', n), ('==', n), ('==', 0)])
                if W.kinds[f] == 'opb' and o not in CARD:
                    o, c = '>=', 1
                ops.append(dict(op='addlinear', f=f, h=h, o=o, c=c, check=self.check(), style=st,
                                api='cardinality' if (W.kinds[f] == 'opb' or (o in CARD and rng.random() < 0.5)) else 'add_linear'))
            else:
                ops.append(dict(op='addclauses', f=f, hs=[h, h], check=self.check(), style=st))
            i = rng.randrange(n)
            ops.append(dict(op='mut', h=h, m=rng.choice([['neg', i], ['set', i, rng.choice([1, -1]) * rng.randint(1, 6)], ['append', 3], ['pop'], ['reverse']])))
        return ops

    def g_mut(self):
        rng, W = self.rng, self.W
        if not W.held:
            return None
        # prefer lists that were passed to a builder or handed back by the library
        c = [h for h in range(len(W.held)) if h in W.passed or W.origin[h] != 'newlist']
        h = rng.choice(c) if c and rng.random() < 0.8 else rng.randrange(len(W.held))
        L = W.held[h]
        if W.hkind[h] == 'l':
            n = len(L)
            i = rng.randint(0, n) if rng.random() < 0.1 else (rng.randrange(n) if n else 0)
            x = rng.choice([1, -1]) * rng.randint(1, 6) if rng.random() < 0.95 else 0
            m = rng.choice([['append', x], ['set', i, x], ['set', i, x], ['neg', i], ['neg', i], ['clear'], ['pop'], ['reverse']])
        else:
            nt = len(L) - 2
            i = rng.randrange(nt) if nt else 0
            m = rng.choice([['termset', i, rng.randint(-2, 4), rng.choice([1, -1]) * rng.randint(1, 6)], ['termins', rng.randint(1, 3), rng.randint(1, 6)],
                            ['termdel'], ['setop', rng.choice(PBOPS)], ['setdeg', rng.randint(-2, 6)]])
            if m[0] == 'termset' and nt == 0:
                m = ['setdeg', 3]
        return dict(op='mut', h=h, m=m)


# ----------------------------------------------------------------------------------------------
# running a history
# ----------------------------------------------------------------------------------------------
def run_history(hist, want=None, symbolic=False):
    """execute on fresh real objects.  Returns (operations actually run (numeric references), snapshots after each,
    results, first direct failure or None, world, ids of the operations run).
    symbolic: hist is a list of (id, op) whose references are (creator id, offset) pairs / creator ids; an operation whose
    references cannot be resolved is dropped (happens only while shrinking).
    want = (site, cls): stop at the first direct failure of that kind."""
    W = World()
    ran, snaps, ress, ids = [], [], [], []
    fail = None
    hmap, omap = {}, {}
    for item in hist:
        if symbolic:
            oid, op = item
            try:
                op = renumber(op, lambda f: omap[f], lambda h: hmap[tuple(h)])
            except KeyError:
                continue
        else:
            oid, op = len(ran), dict(item)
        pre, pl = W.snap_model(), W.snap_labels()
        try:
            res = W.run(op)
        except Skip:
            W.made.pop()
            continue
        o0, no, h0, nh = W.made[-1]
        if no:
            omap[oid] = o0
        for k in range(nh):
            hmap[(oid, k)] = h0 + k
        if op['op'] == 'newformula':
            op['hdr'] = [[a, b] for a, b in W.objs[-1].header.items()]
        if op['op'] == 'newfrom':
            ref = (W.CNF if op['kind'] == 'cnf' else W.OPB)(description=op.get('desc'))
            op['hdr'] = [[a, b] for a, b in ref.header.items()]
        ran.append(op)
        ids.append(oid)
        snaps.append(W.snap_model())
        ress.append(res)
        d = direct_check(W, op, res, pre, pl, None)
        if d and fail is None and (want is None or (d[0], d[1]) == want):
            fail = (len(ran) - 1,) + d
            if want is not None:
                break
    return ran, snaps, ress, fail, W, ids


def renumber(op, fmap, hmap):
    op = dict(op)
    if 'f' in op:
        op['f'] = fmap(op['f'])
    if 'h' in op:
        op['h'] = hmap(op['h'])
    if 'hs' in op:
        op['hs'] = [hmap(h) for h in op['hs']]
    if op['op'] == 'newpb':
        op['ts'] = [t if t[0] == 't' else ['r', hmap(t[1])] for t in op['ts']]
    if op['op'] == 'transform' and op['t'][0] == 'shuffle':
        op['t'] = ['shuffle'] + [None if h is None else hmap(h) for h in op['t'][1:4]]
    return op


def to_symbolic(hist, made):
    """references by (creating operation, offset) so that deleting operations does not shift them"""
    def hsym(h):
        for j, (o0, no, h0, nh) in enumerate(made):
            if h0 <= h < h0 + nh:
                return (j, h - h0)
        raise KeyError(h)

    def fsym(f):
        for j, (o0, no, h0, nh) in enumerate(made):
            if o0 <= f < o0 + no:
                return j
        raise KeyError(f)
    return [(j, renumber(op, fsym, hsym)) for j, op in enumerate(hist)]


def shrink(hist, fails, budget=400):
    """delete operations while fails(symbolic history) stays true; returns the numeric history that was run last"""
    ran, _, _, _, W, _ = run_history(hist)
    sym = to_symbolic(ran, W.made)
    if not fails(sym):
        return ran
    # a reference to the k-th list returned by an iteration: prefer the first one (then the earlier insertions can go)
    for j, (oid, op) in enumerate(sym):
        def first(h):
            return (h[0], 0)
        cand = sym[:j] + [(oid, renumber(op, lambda f: f, first))] + sym[j + 1:]
        if cand[j][1] != op and fails(cand):
            sym = cand
    changed = True
    while changed and budget > 0:
        changed = False
        i = len(sym) - 1
        while i >= 0 and budget > 0:
            cand = sym[:i] + sym[i + 1:]
            budget -= 1
            if fails(cand):
                sym = cand
                changed = True
            i -= 1
    # drop what is never executed, and shorten the lists created by the client where the failure stays
    ran, _, _, _, _, ids = run_history(sym, symbolic=True)
    sym = [x for x in sym if x[0] in set(ids)]
    for j, (oid, op) in enumerate(sym):
        if op['op'] == 'newlist' and budget > 0:
            xs = list(op['xs'])
            k = len(xs) - 1
            while k >= 0 and budget > 0:
                cand = sym[:j] + [(oid, dict(op, xs=xs[:k] + xs[k + 1:]))] + sym[j + 1:]
                budget -= 1
                if fails(cand):
                    xs = xs[:k] + xs[k + 1:]
                    sym = cand
                    op = sym[j][1]
                k -= 1
    return run_history(sym, symbolic=True)[0]


def strip(op):
    return {k: v for k, v in op.items() if k != 'hdr'}


# Sharing that the code as found does and that the STATEMENT of C19 does not forbid (it speaks of transformations leaving their
# input untouched and of arguments left unchanged, not of lists handed out by iteration): iterating over a formula or slicing it
# yields the stored lists; add_constraint keeps a (coefficient, literal) pair given as a two-element list.  The model carries
# both as switches (lv_iter, lv_pair) set by probing the code; the theorems state exactly which histories are affected
# (client_separated_as_found_refuted ...).  They are tallied, not reported.  F[i] / clauses()[i] handing out a live list IS
# reported: copy-on-access there is the mechanism the property names.
OUTSIDE_STATEMENT = {('iter', 'returned-list-live'), ('slice', 'returned-list-live'), ('add_constraint', 'argument-kept-by-reference')}


def probe_liveness():
    import_impl()
    from cnfgen.formula.cnf import CNF
    from cnfgen.formula.opb import OPB
    F = CNF([[1]])
    next(iter(F)).append(2)
    it = F[0] == [1, 2]
    O = OPB()
    p = [1, 2]
    O.add_constraint([p, '>=', 1])
    p[1] = 3
    pr = list(O[0][0]) == [1, 3]
    return it, pr


def too_costly(W, op):
    """the Gallina enumerators are exponential in the length of the list for some constants (cnf class only: combs / neq_clauses)"""
    if op['op'] != 'addlinear' or not (0 <= op['h'] < len(W.held)) or not (0 <= op['f'] < len(W.kinds)):
        return False
    if W.kinds[op['f']] == 'opb' and op['o'] != '!=':
        return False
    return model_cost(len(W.held[op['h']]), op['o'], op['c']) > 3000


def model_trace(ctx, live, hists):
    reqs = [cmd('alias_trace', live[0], live[1], [op_sx(op) for op in h]) for h in hists]
    return ctx.model.batch(reqs)


def first_mismatch(ress, snaps, reply):
    if not isinstance(reply, list) or (len(reply) == 2 and reply[0] == 'error'):
        return (0, 'driver', str(reply)[:200])
    for i, (res, snap) in enumerate(zip(ress, snaps)):
        st = reply[i]
        if st[0] != res:
            return (i, 'result', 'real objects: %s, model: %s' % (res, st[0]))
        if st[1] != snap[0]:
            g = [j for j in range(max(len(st[1]), len(snap[0]))) if j >= len(st[1]) or j >= len(snap[0]) or st[1][j] != snap[0][j]][0]
            return (i, 'formula', 'formula %d: real %s, model %s' % (g, str(snap[0][g] if g < len(snap[0]) else None)[:300], str(st[1][g] if g < len(st[1]) else None)[:300]))
        if st[2] != snap[1]:
            g = [j for j in range(max(len(st[2]), len(snap[1]))) if j >= len(st[2]) or j >= len(snap[1]) or st[2][j] != snap[1][j]][0]
            return (i, 'client-list', 'client list %d: real %s, model %s' % (g, str(snap[1][g] if g < len(snap[1]) else None)[:300], str(st[2][g] if g < len(st[2]) else None)[:300]))
    return None


def run_alias(ctx):
    import random as _random
    rng = ctx.rng
    quick = ctx.tier == 'quick'
    live = probe_liveness()
    ctx.tally('alias: code variant (iteration live, list-pairs live)', str(live))
    nh = 300 if quick else 1000
    hists, runs = [], []
    reported = {}

    def report_direct(hist, fail):
        idx, site, cls, what = fail
        key = (site, cls)
        if key not in reported:
            def still(sym):
                return run_history(sym, want=key, symbolic=True)[3] is not None
            small = shrink([strip(o) for o in hist[:idx + 1]], still)
            reported[key] = dict(input=dict(history=[strip(o) for o in small]), python=render_py(small), what=what)
        ctx.violation('counterexample', 'C19 fails on the real objects: %s' % what, reported[key], True, site=site, cls=cls)

    for it in range(nh):
        W = World()
        G = Gen(rng, W, ctx.tally)
        length = rng.randint(8, 40) if quick else rng.randint(8, 60)
        hist, snaps, ress = [], [], []
        fails = []
        cut = None          # the model follows the history up to here
        while len(hist) < length:
            for op in G.next_ops():
                pre, pl = W.snap_model(), W.snap_labels()
                if cut is None and too_costly(W, op):
                    cut = len(hist)
                    ctx.tally('alias: histories continued on the real objects only (model enumeration too costly)', 'yes')
                try:
                    res = W.run(op)
                except Skip:
                    W.made.pop()
                    continue
                if op['op'] == 'newformula':
                    op['hdr'] = [[a, b] for a, b in W.objs[-1].header.items()]
                if op['op'] == 'newfrom':
                    ref = (W.CNF if op['kind'] == 'cnf' else W.OPB)(description=op.get('desc'))
                    op['hdr'] = [[a, b] for a, b in ref.header.items()]
                hist.append(op)
                snaps.append(W.snap_model())
                ress.append(res)
                ctx.tally('alias: operation', op['op'] + ('/' + op['t'][0] if op['op'] == 'transform' else '') + ('/raises' if res == 'err' else ''))
                if 'style' in op and op['op'] != 'transform':
                    ctx.tally('alias: argument passed as', op['style'])
                if op['op'] in BUILDERS:
                    ctx.tally('alias: check', op.get('check', True))
                    ctx.tally('alias: class', W.kinds[op['f']])
                    hs = op.get('hs', [op.get('h')])
                    for h in hs:
                        ln = len(W.held[h])
                        ctx.tally('alias: argument length', '0' if ln == 0 else '1-8' if ln <= 8 else '9-16' if ln <= 16 else '17-64' if ln <= 64 else '65-128' if ln <= 128 else '129+')
                if op['op'] == 'mut':
                    ctx.tally('alias: mutated list came from', W.origin[op['h']] + ('+passed' if op['h'] in W.passed else ''))
                d = direct_check(W, op, res, pre, pl, None)
                if d:
                    fails.append((len(hist) - 1,) + d)
        nmut = sum(1 for o in hist if o['op'] == 'mut')
        ctx.count('alias-history', it, nontrivial=nmut > 0 and len(W.objs) > 0,
                  sample=dict(length=len(hist), operations=[o['op'] for o in hist][:20], formulas=len(W.objs), client_lists=len(W.held)))
        ctx.tally('alias: history length', '%d-%d' % (len(hist) // 10 * 10, len(hist) // 10 * 10 + 9))
        seen = set()
        for f in fails:
            if (f[1], f[2]) in OUTSIDE_STATEMENT:
                ctx.tally('alias: sharing observed that the statement of C19 does not forbid (model variant as found)', '%s/%s' % (f[1], f[2]))
                continue
            if (f[1], f[2]) not in seen:
                seen.add((f[1], f[2]))
                report_direct(hist, f)
        if cut is not None:
            hist, snaps, ress = hist[:cut], snaps[:cut], ress[:cut]
        hists.append(hist)
        runs.append((snaps, ress, fails))
        if len(hists) >= 100 or it == nh - 1:
            compare_with_model(ctx, live, hists, runs, reported)       # in chunks: snapshots and replies of a chunk are dropped afterwards
            hists, runs = [], []


def compare_with_model(ctx, live, hists, runs, reported):
    replies = model_trace(ctx, live, hists)
    for hist, (snaps, ress, fails), rep in zip(hists, runs, replies):
        mm = first_mismatch(ress, snaps, rep)
        if mm is None:
            continue
        ctx.disagreements_checked += 1
        i, part, what = mm
        earlier = [f for f in fails if f[0] <= i]
        unknown = [f for f in earlier if (f[1], f[2]) not in OUTSIDE_STATEMENT]
        if unknown:
            continue        # the property itself fails here; already reported with its failing input
        key = ('model', part)
        if key not in reported:
            def still(sym):
                ran, sn, rs, _, _, _ = run_history(sym, symbolic=True)
                if not ran:
                    return False
                r = model_trace(ctx, live, [ran])[0]
                return first_mismatch(rs, sn, r) is not None
            small = shrink([strip(o) for o in hist[:i + 1]], still, budget=150)
            ran, sn, rs, _, _, _ = run_history(small)
            r = model_trace(ctx, live, [ran])[0]
            mm2 = first_mismatch(rs, sn, r)
            reported[key] = dict(input=dict(history=[strip(o) for o in small], liveness=list(live)), python=render_py(small),
                                 difference=(mm2 or mm)[2], theorem='Prop_C19_alias (model coq/Alias.v no longer describes the code)')
        ctx.violation('correspondence', 'real objects and Alias.v disagree after step %d (%s): %s' % (i, part, what), reported[key], False,
                      site='alias-model', cls=part)


def run(ctx):
    """stand-alone: ./check C19_alias (the findings are filed under property C19)"""
    import lib
    ctx.findings = [f for f in lib.load_findings() if f['property'] == 'C19']
    run_alias(ctx)
