"""C09 (whole-program part) -- the model `cnfshuffle_main_env : env -> argv -> stdin -> draws -> bytes`
(coq/ShuffleMain.v, theorems in coq/Prop_C09_main.v) against the real `cnfshuffle`.

`run_shuffle_main(ctx)` is called from harness/c09.py.  For every generated case (argument vector, text on standard
input, files named by -i / -o)

    tool   = the real cnfshuffle run in a child process (fork server harness/c09_main_child.py) in which the global
             generator of the `random` module was replaced, before cnfgen was imported, by an instance that RECORDS the
             value of every getrandbits(k) call (and of every _randbelow(n) call, every seed, every random() call)
    model  = the extracted cnfshuffle_main_gen on the same argv / text / files and on the RECORDED getrandbits values
             as its oracle stream (driver command `shufflemain`)

When the model says (out none T) the tool must exit 0 with exactly the bytes T on standard output and the model must
have read the recorded stream to its end; (out (some f) T): the bytes T in file f and nothing on standard output;
(clierror): exit 255, nothing on standard output, no traceback; (crash): a traceback (the known OverflowError of
`[1] * N`; once the tool is repaired the model of the repaired tool, (clierror), is the reference); (outside): no
claim.  Further ties, per case: the bounds n of the recorded _randbelow(n) calls are the list shm_bounds of the model
(theorem cnfshuffle_draw_protocol), random() is never called, random.seed is called exactly when the model says a seed
is installed and with that string; a sample of seeded cases is run a second time in the fork server and a third time
in a FRESH interpreter without any recorder: same bytes (the recorder does not change the tool; C07 for cnfshuffle).

On a disagreement property C09 itself is decided on the tool's real output (independent reader; same number of
variables and clauses, same multiset of widths, literals in range, switched-off parts untouched, a consistent signed
renaming when the clause order is kept, the renaming found by search for <= 7 variables, number of models by
enumeration for <= 16 variables): failing -> kind counterexample with the input, else kind correspondence.

Streams: valid (0 variables, empty clauses, unused variables, repeated literals, comments, blank lines, clauses
split over lines or sharing a line, CRLF, exotic white space, decorated integers; 1..300 variables; up to a few thousand
clauses, 255..258 and 1023..1025 clauses / variables / literals in one clause now and then; every subset of -p -v -c -q
in every spelling; seeds 0, 1, negative, 2^40, strings, the empty string; -i / -o with files) and malformed (broken
DIMACS of every kind the reader distinguishes, broken command lines)."""
import hashlib
import json
import os
import shutil
import subprocess
import tempfile
import time

import clirun
import lib
from lib import cmd

CHILD = os.path.join(os.path.dirname(os.path.abspath(__file__)), 'c09_main_child.py')
SITE = 'cnfshuffle-main'
WORD = 1 << 63


# --------------------------------------------------------------------------
# the real tool
# --------------------------------------------------------------------------
def _env():
    env = dict(os.environ)
    env['PYTHONHASHSEED'] = '0'
    env['PYTHONPATH'] = lib.REPO
    env['LC_ALL'] = 'C.UTF-8'
    env['LANG'] = 'C.UTF-8'
    env[lib.GUARD] = '1'
    env.pop('PYTHONSTARTUP', None)
    return env


def _serve(reqs, tmp, tag, limit=40):
    path = os.path.join(tmp, 'requests-%s.jsonl' % tag)
    with open(path, 'w') as f:
        for r in reqs:
            f.write(json.dumps(r) + '\n')
    p = subprocess.run([lib.PY, '-W', 'ignore', CHILD, lib.REPO, path, str(limit)], stdin=subprocess.DEVNULL,
                       stdout=subprocess.PIPE, stderr=subprocess.PIPE, cwd=lib.REPO, env=_env(),
                       timeout=limit * max(1, len(reqs)) + 120)
    lines = [ln for ln in p.stdout.decode().split('\n') if ln]
    if len(lines) != len(reqs):
        raise RuntimeError('fork server answered %d of %d (stderr %s)' % (len(lines), len(reqs), p.stderr.decode()[-300:]))
    return [json.loads(ln) for ln in lines]


def run_real(reqs, tmp, workers=10):
    if not reqs:
        return []
    k = max(1, min(workers, len(reqs) // 6 or 1))
    # big inputs first inside each shard does not matter; round-robin keeps the shards balanced
    shards = [reqs[i::k] for i in range(k)]
    res = clirun.parallel([(lambda s=s, i=i: _serve(s, tmp, str(i))) for i, s in enumerate(shards)], workers=k)
    out = [None] * len(reqs)
    for i, shard in enumerate(res):
        for j, r in enumerate(shard):
            out[i + j * k] = r
    return out


FRESH = r'''
import sys
sys.path.insert(0, sys.argv[1])
sys.argv = ['cnfshuffle'] + sys.argv[2:]
from cnfgen.clitools.cnfshuffle import main
main()
'''


def run_fresh(argv, stdin, cwd):
    """the unmodified tool in a freshly started interpreter (no recorder, no fork server)"""
    p = subprocess.run([lib.PY, '-W', 'ignore', '-c', FRESH, lib.REPO] + argv, input=stdin.encode('utf-8'),
                       stdout=subprocess.PIPE, stderr=subprocess.PIPE, cwd=cwd or lib.REPO, env=_env(), timeout=120,
                       preexec_fn=_cap)
    return p.returncode, p.stdout.decode('latin-1'), p.stderr.decode('latin-1')


def _cap():
    try:
        import resource
        resource.setrlimit(resource.RLIMIT_AS, (2 << 30, 2 << 30))
    except Exception:
        pass


# --------------------------------------------------------------------------
# formulas and their DIMACS texts
# --------------------------------------------------------------------------
SPECIAL = [255, 256, 257, 258, 1023, 1024, 1025]
EXOTIC_WS = ['\t', '\x0b', '\x0c', '\x1c', '\x1d', '\x1e', '\x1f', '\x85', '\xa0', '  ']


def gen_formula(rng, size):
    """(N, F, kind)"""
    if size == 'tiny':
        pick = rng.randrange(12)
        if pick == 0:
            return 0, [], 'no variables, no clauses'
        if pick == 1:
            return 0, [[] for _ in range(rng.randint(1, 4))], 'no variables, empty clauses'
        if pick == 2:
            return rng.randint(1, 9), [], 'variables, no clauses'
        if pick == 3:
            return 1, [[rng.choice([1, -1]) for _ in range(rng.randint(0, 3))] for _ in range(rng.randint(1, 4))], 'one variable'
        N = rng.randint(1, 16 if pick < 10 else 40)
        M = rng.randint(1, 14)
        kind = 'small'
    elif size == 'medium':
        N = rng.choice([rng.randint(17, 300), rng.randint(2, 64), rng.choice(SPECIAL[:4])])
        M = rng.choice([rng.randint(15, 400), rng.choice(SPECIAL[:4]), rng.randint(1, 40)])
        kind = 'medium'
    else:
        N = rng.choice([rng.randint(100, 300), rng.choice(SPECIAL), rng.randint(1, 30)])
        M = rng.choice([rng.choice(SPECIAL), rng.randint(1500, 3500), rng.choice(SPECIAL[4:])])
        kind = 'large'
    used = N if rng.random() < 0.6 else max(1, N - rng.randint(1, max(1, N // 2)))     # unused trailing variables
    F = []
    for _ in range(M):
        r = rng.random()
        if r < 0.08:
            w = 0
        elif r < 0.12 and size != 'tiny':
            w = rng.choice(SPECIAL if size == 'large' else SPECIAL[:4]) if rng.random() < 0.3 else rng.randint(6, 40)
        else:
            w = rng.randint(1, 5)
        c = [rng.choice([1, -1]) * rng.randint(1, used) for _ in range(w)]
        if c and rng.random() < 0.15:
            c.append(c[0])                      # repeated literal
        if c and rng.random() < 0.08:
            c.append(-c[-1])                    # a literal and its negation
        F.append(c)
    return N, F, kind


def tok_int(rng, z, fancy):
    s = str(z)
    if not fancy:
        return s
    r = rng.random()
    if r < 0.1 and z > 0:
        return '+' + s
    if r < 0.2:
        return ('-' if z < 0 else '') + '0' * rng.randint(1, 3) + str(abs(z))
    if r < 0.3 and abs(z) >= 10:
        a = str(abs(z))
        return ('-' if z < 0 else '') + a[:1] + '_' + a[1:]
    return s


def render(rng, N, F, style):
    """a DIMACS text the reader accepts as (N, F)"""
    fancy = style in ('fancy', 'exotic')
    sep = (lambda: rng.choice(EXOTIC_WS) if rng.random() < 0.3 else ' ') if style == 'exotic' else (lambda: ' ')
    nl = '\r\n' if style == 'crlf' else ('\r' if style == 'cr' else '\n')
    lines = []
    for _ in range(rng.choice([0, 0, 1, 3]) if style != 'plain' else 0):
        lines.append(rng.choice(['c', 'c a comment', 'c p cnf 9 9', 'c 1 2 0', 'cnf', '  c indented', 'c \xe9\xe8 latin', '', '   ']))
    word = rng.choice(['cnf', 'cnf', 'cnf', 'xyz', 'CNF']) if fancy else 'cnf'
    lines.append((rng.choice(['', ' ', '\t']) if fancy else '') + 'p' + sep() + word + sep() + tok_int(rng, N, fancy) + sep() + tok_int(rng, len(F), fancy)
                 + (rng.choice(['', ' ', '\t ']) if fancy else ''))
    toks = []           # tokens of the clause part, with line breaks decided below
    cur = []
    for c in F:
        zero = rng.choice(['0', '0', '0', '-0', '+0', '00']) if fancy else '0'
        ts = [tok_int(rng, l, fancy) for l in c] + [zero]
        if style == 'plain' or rng.random() < 0.7:
            if cur:
                lines.append(cur); cur = []
            lines.append(ts)
        elif rng.random() < 0.5:
            cur.extend(ts)                      # shares a line with the next clause(s)
            if rng.random() < 0.4:
                lines.append(cur); cur = []
        else:
            if cur:
                lines.append(cur); cur = []
            k = rng.randint(0, len(ts))
            lines.append(ts[:k]); lines.append(ts[k:])     # split over two lines (one may be empty)
        if style not in ('plain',) and rng.random() < 0.05:
            if cur:
                lines.append(cur); cur = []
            lines.append(rng.choice(['c between', '', 'c', '\t']))
    if cur:
        lines.append(cur)
    out = []
    for ln in lines:
        if isinstance(ln, list):
            s = ''.join(t + sep() for t in ln).rstrip(' ') if style == 'exotic' else ' '.join(ln)
            if fancy and rng.random() < 0.1:
                s = rng.choice([' ', '\t']) + s + rng.choice(['', ' '])
            out.append(s)
        else:
            out.append(ln)
    text = nl.join(out)
    if style == 'nofinal' or (style != 'plain' and rng.random() < 0.1):
        return text
    return text + nl


def break_text(rng, N, F):
    """(kind, text): texts the reader must reject (or, for the last kinds, oddities it accepts)"""
    M = len(F)
    body = ''.join(' '.join(map(str, c + [0])) + '\n' for c in F)
    spec = 'p cnf %d %d\n' % (N, M)
    kinds = ['empty', 'only comments', 'no spec', 'two specs', 'count too small', 'count too large', 'literal out of range',
             'negative literal out of range', 'last clause open', 'word token', 'float token', 'hex token', 'data before spec',
             'short spec', 'long spec', 'negative n', 'negative m', 'spec not numbers', 'huge digits literal', 'huge digits n',
             'spec glued', 'double underscore', 'trailing underscore', 'spec after data', 'nul byte', 'lone minus',
             'form feed inside', 'unit separator line', 'big n accepted', 'digits 4300 accepted', 'nbsp separated accepted']
    k = rng.choice(kinds)
    if k == 'empty':
        return k, rng.choice(['', '\n', '  \n\n'])
    if k == 'only comments':
        return k, 'c one\nc two\n'
    if k == 'no spec':
        return k, 'c no spec\n'
    if k == 'two specs':
        return k, spec + body + spec
    if k == 'count too small':
        return k, 'p cnf %d %d\n' % (N, max(0, M - 1)) + body + ('' if M else '0\n')
    if k == 'count too large':
        return k, 'p cnf %d %d\n' % (N, M + 1) + body
    if k == 'literal out of range':
        return k, spec + body + '%d 0\n' % (N + 1)
    if k == 'negative literal out of range':
        return k, 'p cnf %d %d\n' % (N, M + 1) + body + '%d 0\n' % (-(N + rng.randint(1, 3)))
    if k == 'last clause open':
        return k, 'p cnf %d %d\n' % (max(N, 1), M + 1) + body + '1\n'
    if k == 'word token':
        return k, 'p cnf %d %d\n' % (max(N, 1), M + 1) + body + '1 x 0\n'
    if k == 'float token':
        return k, 'p cnf %d %d\n' % (max(N, 1), M + 1) + body + '1.0 0\n'
    if k == 'hex token':
        return k, 'p cnf %d %d\n' % (max(N, 16), M + 1) + body + '0x1 0\n'
    if k == 'data before spec':
        return k, '1 0\n' + spec + body
    if k == 'short spec':
        return k, 'p cnf %d\n' % N + body
    if k == 'long spec':
        return k, 'p cnf %d %d 7\n' % (N, M) + body
    if k == 'negative n':
        return k, 'p cnf -1 %d\n' % M + body
    if k == 'negative m':
        return k, 'p cnf %d -1\n' % N
    if k == 'spec not numbers':
        return k, rng.choice(['p cnf a b\n', 'p cnf 3 x\n', 'p cnf 1.5 0\n', 'p cnf 3_ 0\n'])
    if k == 'huge digits literal':
        return k, 'p cnf %d %d\n' % (max(N, 1), M + 1) + body + '0' * 4300 + '1 0\n'
    if k == 'huge digits n':
        return k, 'p cnf ' + '9' * 4301 + ' 0\n'
    if k == 'spec glued':
        return k, 'pcnf %d %d\n' % (N, M) + body
    if k == 'double underscore':
        return k, 'p cnf %d %d\n' % (max(N, 11), M + 1) + body + '1__1 0\n'
    if k == 'trailing underscore':
        return k, 'p cnf %d %d\n' % (max(N, 11), M + 1) + body + '1_ 0\n'
    if k == 'spec after data':
        return k, body + spec if M else 'c\n' + '0\n' + spec
    if k == 'nul byte':
        return k, spec + body + '\x00\n'
    if k == 'lone minus':
        return k, 'p cnf %d %d\n' % (max(N, 1), M + 1) + body + '- 1 0\n'
    if k == 'form feed inside':                      # white space for split(), not a line break for readlines()
        return k, 'p cnf %d %d\n' % (max(N, 2), M + 1) + body + '1\x0c2 0\n'
    if k == 'unit separator line':
        return k, 'p cnf %d %d\n' % (max(N, 2), M + 2) + body + '1 0\x1f2 0\n'
    if k == 'big n accepted':
        return k, 'p cnf %d 0\n' % rng.choice([10 ** 3, 5 * 10 ** 3])
    if k == 'digits 4300 accepted':                  # 4300 digits are accepted by int(): a zero with 4300 digits ends a clause
        return k, 'p cnf %d %d\n' % (max(N, 1), M + 1) + body + '1 ' + '0' * 4300 + '\n'
    if k == 'nbsp separated accepted':
        return k, 'p\xa0cnf\x85%d %d\n' % (max(N, 1), M + 1) + body + '1\xa00\n'
    raise KeyError(k)


# --------------------------------------------------------------------------
# command lines
# --------------------------------------------------------------------------
LONG = {'p': '--no-polarity-flips', 'v': '--no-variables-permutation', 'c': '--no-clauses-permutation', 'q': '--quiet'}
ABBREV = {'p': ['--no-p', '--no-polarity', '--no-polarity-flip'], 'v': ['--no-v', '--no-variables-perm'],
          'c': ['--no-c', '--no-clauses-permutatio'], 'q': ['--q', '--qu', '--quie']}
SEEDS = ['0', '1', '-1', '-17', str(2 ** 40), str(-2 ** 40), '42', 'abc', 'a b', '0x10', '1e3', ' 7', '007', '3.5', '-.5', '-', 'None',
         '\t', 'seed with spaces', '9' * 30]


def switch_tokens(rng, sw):
    """tokens switching on the letters of sw (a subset of 'pvcq'), in some spelling"""
    letters = list(sw)
    rng.shuffle(letters)
    style = rng.choice(['short', 'short', 'long', 'abbrev', 'cluster', 'mixed'])
    toks = []
    if style == 'cluster' and letters:
        cut = rng.randint(1, len(letters))
        toks.append('-' + ''.join(letters[:cut]))
        toks += ['-' + x for x in letters[cut:]]
    else:
        for x in letters:
            s = style if style != 'mixed' else rng.choice(['short', 'long', 'abbrev'])
            toks.append('-' + x if s == 'short' else LONG[x] if s == 'long' else rng.choice(ABBREV[x]))
    if letters and rng.random() < 0.1:
        toks.append(rng.choice(toks))               # a switch given twice
    return toks


def seed_tokens(rng, s):
    style = rng.choice(['--seed', '--seed', '-S', '--seed=', '-S+', '--se', '-S='])
    if style in ('--seed', '-S', '--se'):
        return [style, s]
    if style == '--seed=':
        return ['--seed=' + s]
    if style == '-S=':
        return ['-S=' + s]
    return ['-S' + s] if s else ['-S', s]


def file_tokens(rng, letter, name):
    long = {'i': '--input', 'o': '--output'}[letter]
    style = rng.choice(['short', 'long', 'long=', 'glued', 'abbrev'])
    if style == 'short':
        return ['-' + letter, name]
    if style == 'long':
        return [long, name]
    if style == 'long=':
        return [long + '=' + name]
    if style == 'abbrev':
        return [long[:rng.randint(3, len(long) - 1)], name]
    return ['-' + letter + name]


def broken_command(rng):
    """(kind, argv) for the malformed command-line stream"""
    k = rng.choice(['unknown short', 'unknown long', 'positional', 'ambiguous', 'ambiguous n', 'flag with value', 'short flag with value',
                    'cluster with unknown', 'cluster ends with =', 'seed missing', 'seed followed by option', 'input missing value',
                    'unknown after seed', 'blank token', 'empty token', 'negative number token', 'seed looks like option',
                    'output missing value', 'help', 'help in cluster', 'help after error', 'double dash', 'cluster with seed',
                    'cluster then value option'])
    base = switch_tokens(rng, rng.choice(['', 'p', 'vq', 'pvc']))
    if k == 'unknown short':
        return k, base + [rng.choice(['-x', '-P', '-Q', '-s', '-V'])]
    if k == 'unknown long':
        return k, base + [rng.choice(['--foo', '--no-polarity-flipsx', '--quiett', '--seeds', '--x=1'])]
    if k == 'positional':
        return k, base + [rng.choice(['file.cnf', 'p', '7', 'cnf'])]
    if k == 'ambiguous':
        return k, base + [rng.choice(['--no', '--no-', '--no=1'])]
    if k == 'ambiguous n':
        return k, [rng.choice(['--n', '--'[:2] + 'n'])] + base
    if k == 'flag with value':
        return k, base + [rng.choice(['--quiet=1', '--no-polarity-flips=yes', '--q=', '--no-c=0'])]
    if k == 'short flag with value':
        return k, base + [rng.choice(['-p=1', '-q=', '-p=', '-v=x'])]
    if k == 'cluster with unknown':
        return k, [rng.choice(['-px', '-pvcx', '-qz', '-p-', '-pv-q', '-p1'])]
    if k == 'cluster ends with =':
        return k, [rng.choice(['-p=vc', '-q=pv', '-p=v'])]           # accepted: '=' only separates the first letter
    if k == 'seed missing':
        return k, base + [rng.choice(['--seed', '-S', '--se'])]
    if k == 'seed followed by option':
        return k, [rng.choice(['--seed', '-S']), rng.choice(['-p', '--quiet', '-x', '--foo'])]
    if k == 'input missing value':
        return k, base + [rng.choice(['-i', '--input', '--inp'])]
    if k == 'output missing value':
        return k, base + [rng.choice(['-o', '--output'])]
    if k == 'unknown after seed':
        return k, ['--seed', '3', '-x']
    if k == 'blank token':
        return k, base + [rng.choice([' ', '- x', '-x y', '--foo bar'])]     # a token with a blank is an argument
    if k == 'empty token':
        return k, base + ['']
    if k == 'negative number token':
        return k, base + [rng.choice(['-1', '-.5', '-12', '-1.'])]           # '-1.' is not number-like: an unknown option
    if k == 'seed looks like option':
        return k, ['--seed', rng.choice(['-1.', '--5', '-e', '-1e3', '-0x1'])]
    if k == 'help':
        return k, base + [rng.choice(['-h', '--help', '--h', '--he'])]
    if k == 'help in cluster':
        return k, [rng.choice(['-ph', '-hp', '-hx', '-pvh'])]
    if k == 'help after error':
        return k, [rng.choice(['--no', '-px', '--quiet=1']), '-h']
    if k == 'double dash':
        return k, base + ['--']
    if k == 'cluster with seed':
        return k, [rng.choice(['-pS5', '-pvS', '-qS-3', '-pS'])] + rng.choice([[], ['11'], ['-7']])
    if k == 'cluster then value option':
        return k, [rng.choice(['-pi', '-qo', '-pvci']), '-']
    raise KeyError(k)


# --------------------------------------------------------------------------
# the property, decided on a real output (used only after a disagreement)
# --------------------------------------------------------------------------
def read_dimacs(text):
    """independent, strict reader of the tool's output: (n, clauses) or None"""
    n = m = None
    F, cur = [], []
    for ln in text.split('\n'):
        s = ln.strip()
        if not s or s[0] == 'c':
            continue
        if s[0] == 'p':
            parts = s.split()
            if n is not None or len(parts) != 4:
                return None
            try:
                n, m = int(parts[2]), int(parts[3])
            except ValueError:
                return None
            continue
        if n is None:
            return None
        for t in s.split():
            try:
                v = int(t)
            except ValueError:
                return None
            if v == 0:
                F.append(cur); cur = []
            else:
                cur.append(v)
    if n is None or cur or m != len(F):
        return None
    return n, F


def count_models(n, F):
    if n > 16:
        return None
    cls = [([abs(l) - 1 for l in c if l > 0], [abs(l) - 1 for l in c if l < 0]) for c in F]
    cnt = 0
    for a in range(1 << n):
        ok = True
        for pos, neg in cls:
            if not (any((a >> v) & 1 for v in pos) or any(not ((a >> v) & 1) for v in neg)):
                ok = False
                break
        cnt += ok
    return cnt


def consistent_renaming(N, F, out, nop, nov):
    """clause i of out must be clause i of F under one signed bijection: None if so, else a description"""
    img = {}
    for c, d in zip(F, out):
        if len(c) != len(d):
            return 'clause widths differ position by position although -c was given'
        for l, k in zip(c, d):
            v, w = abs(l), (k if l > 0 else -k)
            if img.setdefault(v, w) != w:
                return 'variable %d is renamed in two ways' % v
    if len({abs(w) for w in img.values()}) != len(img):
        return 'two variables are renamed to the same variable'
    if nop and any(w < 0 for w in img.values()):
        return 'a polarity is flipped although -p was given'
    if nov and any(abs(w) != v for v, w in img.items()):
        return 'a variable is renamed although -v was given'
    return None


def search_renaming(N, F, out, nop, nov):
    import itertools
    from collections import Counter
    target = Counter(tuple(c) for c in out)
    perms = [tuple(range(1, N + 1))] if nov else itertools.permutations(range(1, N + 1))
    for perm in perms:
        for flips in ([(1,) * N] if nop else itertools.product([1, -1], repeat=N)):
            if Counter(tuple((1 if l > 0 else -1) * flips[abs(l) - 1] * perm[abs(l) - 1] for l in c) for c in F) == target:
                return True
    return False


def occurrence_profiles_differ(N, F, out, nop, nov):
    """a signed renaming keeps, variable by variable, the pair (positive occurrences, negative occurrences) up to
    the order of the pair (in order under -p; variable by variable under -v): any size, linear time"""
    from collections import Counter

    def prof(G):
        pos, neg = Counter(), Counter()
        for c in G:
            for l in c:
                (pos if l > 0 else neg)[abs(l)] += 1
        return [(pos[v], neg[v]) for v in range(1, N + 1)]
    a, b = prof(F), prof(out)
    if not nop:
        a, b = [tuple(sorted(x)) for x in a], [tuple(sorted(x)) for x in b]
    if (a != b) if nov else (sorted(a) != sorted(b)):
        return 'the occurrence counts of the variables (positive, negative) are not those of a signed renaming'
    return None


def property_fails(N, F, text, nop, nov, noc):
    """a description of how the tool's output violates C09 for the input formula (N, F), or None"""
    r = read_dimacs(text)
    if r is None:
        return 'the output is not a DIMACS file a strict reader accepts'
    n, out = r
    if n != N:
        return 'number of variables %r != %r' % (n, N)
    if len(out) != len(F):
        return 'number of clauses %d != %d' % (len(out), len(F))
    if sorted(map(len, out)) != sorted(map(len, F)):
        return 'multiset of clause widths differs'
    if any(l == 0 or abs(l) > N for c in out for l in c):
        return 'literal outside 1..N'
    if noc:
        d = consistent_renaming(N, F, out, nop, nov)
        if d:
            return d
    elif nop and nov:
        if sorted(map(tuple, out)) != sorted(map(tuple, F)):
            return 'with -p -v the output is not a reordering of the clauses'
    elif N <= 7 and len(F) <= 60:
        if not search_renaming(N, F, out, nop, nov):
            return 'no signed renaming of the variables maps the input clauses onto the output clauses'
    d = occurrence_profiles_differ(N, F, out, nop, nov)
    if d:
        return d
    if N <= 16 and len(F) * (1 << N) <= 3000000:
        a, b = count_models(N, F), count_models(N, out)
        if a != b:
            return 'number of satisfying assignments %d != %d' % (b, a)
    return None


# --------------------------------------------------------------------------
# cases
# --------------------------------------------------------------------------
def make_cases(rng, quick, tmp, chain=()):
    cases = []

    def add(stream, argv, stdin, formula=None, sw='', files=None, nowrite=None, cwd=None, outfile=None, kind=None, seed=None,
            infile=None):
        cases.append(dict(stream=stream, argv=argv, stdin=stdin, formula=formula, sw=sw, files=files or [], nowrite=nowrite or [],
                          cwd=cwd, outfile=outfile, kind=kind, seed=seed, infile=infile, idx=len(cases)))

    n_tiny, n_medium, n_large = (560, 90, 10) if quick else (6000, 1000, 100)
    n_badtext, n_badcmd = (170, 140) if quick else (1800, 1400)
    styles = ['plain', 'plain', 'fancy', 'fancy', 'exotic', 'crlf', 'cr', 'nofinal']
    subsets = [''.join(x for x, b in zip('pvcq', bits) if b) for bits in
               [(a, b, c, d) for a in (0, 1) for b in (0, 1) for c in (0, 1) for d in (0, 1)]]
    fileno = [0]

    def fresh_name(prefix):
        fileno[0] += 1
        return '%s%d.cnf' % (prefix, fileno[0])

    def build(stream, N, F, kind, text, idx, style):
        sw = subsets[idx % 16] if idx < 64 else rng.choice(subsets)
        argv = switch_tokens(rng, sw)
        seed = None
        r = rng.random()
        if r < 0.75:
            seed = rng.choice(SEEDS) if rng.random() < 0.8 else str(rng.randint(-10 ** 6, 10 ** 6))
            if rng.random() < 0.04:
                seed = ''
            st = seed_tokens(rng, seed)
            pos = rng.randint(0, len(argv))
            argv = argv[:pos] + st + argv[pos:]
        files, nowrite, cwd, outfile, infile, stdin = [], [], None, None, None, text
        r = rng.random()
        if r < 0.18:                                    # input from a file
            rel = rng.random() < 0.5
            name = fresh_name(rng.choice(['in', 'in put ', 'c', '-in'][:3]))
            path = os.path.join(tmp, name)
            with open(path, 'w', encoding='utf-8', newline='') as f:
                f.write(text)
            given = name if rel else path
            cwd = tmp if rel else None
            argv = argv + file_tokens(rng, 'i', given)
            files.append([given, text])
            infile = given
            stdin = rng.choice(['', 'p cnf 1 1\n1 0\n', 'garbage'])          # must be ignored
        elif r < 0.24:
            argv = argv + rng.choice([['-i', '-'], ['--input=-'], ['-i-'], ['--input', '-']])
        r = rng.random()
        if r < 0.15:                                    # output to a file
            name = fresh_name('out')
            path = os.path.join(tmp, name)
            if cwd is not None or rng.random() < 0.5:
                cwd = tmp
                given = name
            else:
                given = path
            argv = argv + file_tokens(rng, 'o', given)
            outfile = path
            if rng.random() < 0.2:                      # an earlier -o that is overridden
                other = fresh_name('early')
                argv = ['-o', os.path.join(tmp, other)] + argv
        elif r < 0.2:
            argv = argv + rng.choice([['-o', '-'], ['--output=-'], ['-o-']])
        formula = (N, F)
        if style == 'cr' and infile is None:
            # sys.stdin does not translate a lone "\r" (it is created with newline="\n"): the text is ONE line there
            stream, kind, formula = 'malformed-text', 'lone CR line ends on standard input', None
        add(stream, argv, stdin, formula=formula, sw=sw, files=files, nowrite=nowrite, cwd=cwd, outfile=outfile, kind=kind, seed=seed,
            infile=infile)

    idx = 0
    for size, count in (('large', n_large), ('medium', n_medium), ('tiny', n_tiny)):
        for _ in range(count):
            N, F, kind = gen_formula(rng, size)
            style = styles[idx % len(styles)] if size != 'large' else rng.choice(['plain', 'plain', 'fancy', 'crlf'])
            text = render(rng, N, F, style)
            build('valid', N, F, kind + ' / ' + style, text, idx, style)
            idx += 1
    # the declared number of variables beyond the machine word (no clause): -p gives the OverflowError
    for n, argv in ((WORD, ['-p', '-q']), (WORD + 5, ['-pvc']), (10 ** 30, ['-p', '-v', '--seed', '1']), (WORD - 1 + 1, ['-qp', '-c'])):
        add('valid', argv, 'p cnf %d 0\n' % n, formula=(n, []), sw=''.join(x for x in 'pvcq' if any(x in a for a in argv if not a.startswith('--'))),
            kind='declared variables >= 2^63')
    # malformed texts
    for i in range(n_badtext):
        N, F, _ = gen_formula(rng, 'tiny')
        kind, text = break_text(rng, N, F)
        sw = rng.choice(subsets)
        argv = switch_tokens(rng, sw)
        if rng.random() < 0.5:
            argv += seed_tokens(rng, rng.choice(SEEDS))
        add('malformed-text', argv, text, sw=sw, kind=kind)
    # malformed command lines, files that cannot be opened
    good = 'p cnf 3 2\n1 -2 0\n3 0\n'
    for i in range(n_badcmd):
        r = rng.random()
        if r < 0.8:
            kind, argv = broken_command(rng)
            add('malformed-command', argv, good, kind=kind)
        elif r < 0.9:
            name = os.path.join(tmp, 'missing%d.cnf' % i)
            add('malformed-command', file_tokens(rng, 'i', name) + switch_tokens(rng, rng.choice(subsets)), good, kind='input file missing')
        else:
            name = os.path.join(tmp, 'nodir%d' % i, 'out.cnf')
            add('malformed-command', switch_tokens(rng, rng.choice(subsets)) + file_tokens(rng, 'o', name), good, nowrite=[name],
                kind='output file cannot be created')
    # the shell pipe `cnfgen <argv> | cnfshuffle ...` (theorems in coq/Prop_C09_chain.v): the text is what the real cnfgen wrote
    # (and what the whole-program model of cnfgen writes: compared in chain_texts), the formula is what an independent reader sees in it
    for j, (cargv, text, N, F) in enumerate(chain):
        build('valid', N, F, 'pipe: cnfgen %s |' % ' '.join(cargv), text, 64 + j, 'plain')
        cases[-1]['chain'] = cargv
    return cases


# --------------------------------------------------------------------------
# judging
# --------------------------------------------------------------------------
def _short(s, n=400):
    return s if len(s) <= n else s[:n // 2] + ' ... ' + s[-n // 2:]


def replay_of(cs, m=None, r=None):
    text = cs['stdin'] if not cs['infile'] else cs['files'][0][1]
    d = dict(argv=cs['argv'], stream=cs['stream'], kind=cs['kind'])
    if len(text) <= 6000:
        d['input_text'] = text
    else:
        d['input_text_sha1'] = hashlib.sha1(text.encode('utf-8')).hexdigest()
        d['input_text_head'] = text[:300]
        d['case_index'] = cs['idx']
    if cs['infile']:
        d['input_file'] = cs['infile']
    rp = dict(input=d, theorem='cnfshuffle_is_renaming (coq/Prop_C09_main.v), model coq/ShuffleMain.v')
    if m is not None:
        rp['model'] = [str(m[0])] + ([_short(m[2])] if m[0] == 'out' else [])
    if r is not None:
        rp['tool'] = dict(rc=r['rc'], stdout=_short(r['out']), stderr=_short(r['err'], 300), draws=len(r.get('bits', [])))
    return rp


def model_requests(cases, reals, version, repaired):
    reqs = []
    for cs, r in zip(cases, reals):
        oracle = [b[1] for b in r.get('bits', [])]
        reqs.append(cmd('shufflemain', repaired, version, cs['files'], cs['nowrite'], cs['argv'], cs['stdin'], oracle))
    return reqs


def model_batch(ctx, reqs, workers=10, chunk=40):
    chunks = [reqs[i:i + chunk] for i in range(0, len(reqs), chunk)]
    res = clirun.parallel([(lambda c=c: ctx.model.batch(c, timeout=600)) for c in chunks], workers=workers)
    return [x for c in res for x in c]


def chain_texts(ctx, rng, quick):
    """outputs of the real cnfgen on command lines of the pipeline grammar (coq/Pipeline.v), kept when the whole-program model
    cnfgen_main writes the same bytes (a disagreement there is C17's to report: tallied, not used) and the text is DIMACS"""
    import c17_pipeline as P17
    argvs = []
    for i in range(60 if quick else 600):
        c = P17.gen_base(rng, small=True) if i % 3 else P17.gen_graph_base(rng, small=True)
        c['chain'] = P17.gen_chain(rng, maxlen=2)
        argvs.append(P17.render(rng, c))
    argvs += [['-q', 'php', '2', '1'], ['-q', 'php', '3', '2', '-T', 'xor', '2'], ['-q', 'and', '0', '0'], ['-q', 'or', '0', '0'],
              ['-q', 'op', '3', '-T', 'flip'], ['-q', 'tseitin', 'first', 'complete', '4']]
    reals = P17.run_real(argvs)
    reps, _ = P17.model_replies(ctx, argvs)
    out = []
    for a, r, m in zip(argvs, reals, reps):
        if m[0] != 'out':
            ctx.tally('pipe: cnfgen model verdict', str(m[0]))
            continue
        if not P17.tool_agrees(m, r):
            ctx.tally('pipe: cnfgen model verdict', 'out, tool differs (left to C17)')
            continue
        text = r['out']
        f = read_dimacs(text)
        if f is None or len(text) > 200000:
            ctx.tally('pipe: cnfgen model verdict', 'out, not DIMACS or too long')
            continue
        ctx.tally('pipe: cnfgen model verdict', 'out = tool bytes')
        out.append((a, text, f[0], f[1]))
    return out


def run_shuffle_main(ctx):
    lib.import_impl()
    import random
    rng = random.Random(ctx.seed * 1000003 + 909)
    quick = ctx.tier == 'quick'
    t_start = time.time()
    from cnfgen.info import info
    version = str(info['version'])
    tmp = tempfile.mkdtemp(prefix='c09main-')
    try:
        _run(ctx, rng, quick, version, tmp)
    finally:
        shutil.rmtree(tmp, ignore_errors=True)
    ctx.note('cnfshuffle whole-program stream total %.1fs' % (time.time() - t_start))


def _run(ctx, rng, quick, version, tmp):
    import random as _random
    chain = chain_texts(ctx, _random.Random(ctx.seed * 1000003 + 9091), quick)
    cases = make_cases(rng, quick, tmp, chain)
    # a sample of seeded cases is run twice (two children of the fork server start from different generator states)
    seeded = [cs for cs in cases if cs['stream'] == 'valid' and cs['seed'] and not cs['outfile'] and cs['formula'][0] < WORD]
    again = rng.sample(seeded, min(len(seeded), 25 if quick else 150))
    reqs = [dict(argv=cs['argv'], stdin=cs['stdin'], cwd=cs['cwd']) for cs in cases + again]
    t0 = time.time()
    reals = run_real(reqs, tmp)
    t_real = time.time() - t0
    second = reals[len(cases):]
    reals = reals[:len(cases)]
    t0 = time.time()
    reps = model_batch(ctx, model_requests(cases, reals, version, False))
    reps_fixed = model_batch(ctx, model_requests([c for c, m in zip(cases, reps) if m[0] == 'crash'],
                                                 [r for r, m in zip(reals, reps) if m[0] == 'crash'], version, True))
    fixed_of = dict(zip([c['idx'] for c, m in zip(cases, reps) if m[0] == 'crash'], reps_fixed))
    parsed = model_batch(ctx, [cmd('shm_parse_args', cs['files'], cs['nowrite'], cs['argv']) for cs in cases], chunk=200)
    bounds_req, bounds_idx = [], []
    for cs, m in zip(cases, reps):
        if cs['formula'] is not None and m[0] == 'out' and cs['formula'][0] < 10 ** 6:
            bounds_idx.append(cs['idx'])
            bounds_req.append(cmd('shm_bounds', 'p' in cs['sw'], 'v' in cs['sw'], 'c' in cs['sw'], cs['formula'][0], len(cs['formula'][1])))
    bounds = dict(zip(bounds_idx, model_batch(ctx, bounds_req)))
    t_model = time.time() - t0
    ctx.note('cnfshuffle whole program: %d cases; tool %.1fs, model %.1fs' % (len(cases), t_real, t_model))

    for cs, r, m in zip(cases, reals, reps):
        stream = 'main-' + cs['stream']
        ctx.tally('main stream', cs['stream'])
        ctx.tally('main model verdict', str(m[0]))
        if cs['stream'] == 'valid':
            N, F = cs['formula']
            ctx.tally('main variables', '0' if N == 0 else '1-16' if N <= 16 else '17-300' if N <= 300 else '>=2^63' if N >= WORD else '>300')
            M = len(F)
            ctx.tally('main clauses', '0' if M == 0 else '1-14' if M <= 14 else '15-400' if M <= 400 else '>400')
            if M in SPECIAL or N in SPECIAL or any(len(c) in SPECIAL for c in F):
                ctx.tally('main threshold sizes (255..258, 1023..1025)', 'yes')
            ctx.tally('main switches', cs['sw'] or 'none')
            ctx.tally('main seed', 'none' if cs['seed'] is None else 'empty string' if cs['seed'] == '' else 'integer' if cs['seed'].lstrip('-').isdigit() else 'other string')
            ctx.tally('main input', 'file' if cs['infile'] else 'stdin')
            if cs.get('chain') is not None:
                ctx.tally('main pipe cnfgen | cnfshuffle', next((t for t in cs['chain'] if not t.startswith('-')), '?'))
            ctx.tally('main output', 'file' if cs['outfile'] else 'stdout')
            ctx.tally('main text style', cs['kind'].split(' / ')[-1])
            ctx.tally('main draws read', '0' if not r['bits'] else '<100' if len(r['bits']) < 100 else '<1000' if len(r['bits']) < 1000 else '>=1000')
        else:
            ctx.tally('main malformed kind', cs['kind'])
        nontrivial = cs['stream'] != 'valid' or any(len(c) for c in cs['formula'][1])
        ctx.count(stream, (tuple(cs['argv']), hashlib.sha1((cs['stdin'] + repr(cs['files'])).encode('utf-8')).hexdigest()), nontrivial,
                  sample=dict(argv=cs['argv'], input=_short(cs['stdin'] if not cs['infile'] else cs['files'][0][1], 200), kind=cs['kind']))
        judge(ctx, cs, r, m, fixed_of.get(cs['idx']), parsed[cs['idx']], bounds.get(cs['idx']))

    # ---- the same seed twice in the fork server: same draws, same bytes ----
    for cs, r2 in zip(again, second):
        r1 = reals[cs['idx']]
        ctx.count('main-seeded-twice', (tuple(cs['argv']), cs['idx']), True)
        if (r1['rc'], r1['out'], r1['bits']) != (r2['rc'], r2['out'], r2['bits']):
            ctx.disagreements_checked += 1
            ctx.violation('counterexample', 'cnfshuffle with the same --seed writes different bytes in two runs (C07)',
                          dict(replay_of(cs, None, r1), second=dict(rc=r2['rc'], stdout=_short(r2['out']))), True, site=SITE, cls='seed-not-reproducible')
    # ---- and in a fresh interpreter without the recorder ----
    sample = [cs for cs in again if len(cs['stdin']) < 200000][:6 if quick else 24]
    fresh = clirun.parallel([(lambda cs=cs: run_fresh(cs['argv'], cs['stdin'], cs['cwd'])) for cs in sample], workers=6)
    for cs, (rc, out, err) in zip(sample, fresh):
        r1 = reals[cs['idx']]
        ctx.count('main-fresh-process', (tuple(cs['argv']), cs['idx']), True)
        if (rc & 0xff, out) != (r1['rc'], r1['out']):
            ctx.disagreements_checked += 1
            ctx.violation('correspondence', 'the tool run in a fresh interpreter without the recorder differs from the recorded run with the same seed',
                          dict(replay_of(cs, None, r1), fresh=dict(rc=rc, stdout=_short(out), stderr=_short(err, 300))), False, site=SITE, cls='recorder-perturbs')


def decide(ctx, cs, r, m, what, cls):
    """a disagreement: look for a failure of C09 itself on the real output"""
    ctx.disagreements_checked += 1
    rp = replay_of(cs, m, r)
    if cs['formula'] is not None and r['rc'] == 0 and not r['timeout']:
        N, F = cs['formula']
        text = r['out']
        if cs['outfile']:
            try:
                text = open(cs['outfile'], encoding='latin-1', newline='').read()
            except OSError:
                text = ''
        bad = property_fails(N, F, text, 'p' in cs['sw'], 'v' in cs['sw'], 'c' in cs['sw'])
        if bad:
            ctx.violation('counterexample', 'cnfshuffle: %s' % bad, rp, True, site=SITE, cls='not-a-renaming')
            return
    elif cs['formula'] is not None and r['rc'] != 0 and not r['timeout'] and cs['formula'][0] < WORD:
        ctx.violation('counterexample', 'cnfshuffle fails on a valid DIMACS input (exit %s: %s)' % (r['rc'], r['err'].strip().split('\n')[-1][:160]),
                      rp, True, site=SITE, cls='valid-input-rejected')
        return
    ctx.violation('correspondence', what, rp, False, site=SITE, cls=cls)


def judge(ctx, cs, r, m, m_fixed, parsed, bounds):
    if lib.is_error(m):
        ctx.violation('correspondence', 'the extracted model did not answer: %s' % (m[1],), replay_of(cs, None, r), False, site=SITE, cls='model-error')
        return
    if r['timeout'] or r['rc'] is None:
        decide(ctx, cs, r, m, 'the tool did not finish within the time limit', 'timeout')
        return
    traceback = 'Traceback (most recent call last)' in r['err']
    verdict = str(m[0])
    if verdict == 'outside':
        ctx.tally('main outside: tool exit', r['rc'])
        if traceback:
            ctx.disagreements_checked += 1
            ctx.violation('counterexample', 'cnfshuffle ends in a traceback (%s)' % r['err'].strip().split('\n')[-1][:120], replay_of(cs, m, r), True,
                          site=SITE, cls='traceback-outside')
        return
    if verdict == 'crash':
        if traceback and 'OverflowError' in r['err'] and r['rc'] == 1 and r['out'] == '':
            ctx.disagreements_checked += 1
            ctx.violation('counterexample', 'cnfshuffle -p on a DIMACS file declaring 2^63 or more variables ends in an OverflowError traceback',
                          replay_of(cs, m, r), True, site=SITE, cls='overflow-numvar')
            return
        if m_fixed is not None and str(m_fixed[0]) == 'clierror' and r['rc'] == 255 and r['out'] == '' and not traceback:
            ctx.tally('main repaired OverflowError', 'clean error')
            return
        decide(ctx, cs, r, m, 'the model predicts the OverflowError of [1]*N (or, repaired, a clean error); the tool did something else (exit %s)' % r['rc'],
               'crash-mismatch')
        return
    if verdict in ('oracle_end', 'oracle_bad'):
        decide(ctx, cs, r, m, 'the recorded getrandbits values do not fit the draws of the model (%s): the tool draws differently' % verdict, 'draw-protocol')
        return
    if verdict == 'clierror':
        if r['rc'] == 255 and r['out'] == '' and not traceback and r['err'].strip():
            if cs['stream'] == 'valid':
                # the generator promised a valid case: the model and the tool agree that it is not; keep it visible
                ctx.tally('main valid case rejected by both', cs['kind'])
            return
        if traceback:
            ctx.disagreements_checked += 1
            ctx.violation('counterexample', 'cnfshuffle ends in a traceback (%s) where a clean error is due' % r['err'].strip().split('\n')[-1][:120],
                          replay_of(cs, m, r), True, site=SITE, cls='traceback')
            return
        decide(ctx, cs, r, m, 'the model says command line / DIMACS error, the tool exits %s with %d bytes of output' % (r['rc'], len(r['out'])), 'exit-class')
        return
    # ---- (out dest text used) ----
    dest, text, used = m[1], m[2], m[3]
    if traceback:
        ctx.disagreements_checked += 1
        ctx.violation('counterexample', 'cnfshuffle ends in a traceback (%s)' % r['err'].strip().split('\n')[-1][:120], replay_of(cs, m, r), True,
                      site=SITE, cls='traceback')
        return
    if r['rc'] != 0:
        decide(ctx, cs, r, m, 'the model writes a formula, the tool exits %s' % r['rc'], 'exit-class')
        return
    if dest is None:
        got = r['out']
    else:
        try:
            got = open(cs['outfile'] if cs['outfile'] else dest[1], encoding='latin-1', newline='').read()
        except OSError as e:
            got = '<no file: %s>' % e
        if r['out'] != '':
            decide(ctx, cs, r, m, 'the tool writes to standard output although -o names a file', 'stdout-with-file')
            return
    if got != text:
        decide(ctx, cs, r, m, 'the bytes written differ from the model (first difference at byte %d of %d)' %
               (next((i for i, (a, b) in enumerate(zip(got, text)) if a != b), min(len(got), len(text))), len(text)), 'bytes-differ')
        return
    n_used = used[1] if isinstance(used, list) else used
    if n_used != len(r['bits']):
        decide(ctx, cs, r, m, 'the model reads %r of the %d recorded getrandbits values' % (n_used, len(r['bits'])), 'draw-protocol')
        return
    if r['other']:
        decide(ctx, cs, r, m, 'random() was called %d times: a draw the model does not know' % r['other'], 'draw-protocol')
        return
    if bounds is not None and [b[0] for b in r['below']] != list(bounds):
        decide(ctx, cs, r, m, 'the bounds of the _randbelow calls differ from shm_bounds (theorem cnfshuffle_draw_protocol)', 'draw-protocol')
        return
    if parsed[0] == 'ok':
        seed = parsed[5]
        seed = seed[1] if isinstance(seed, list) else seed
        want = [repr(seed)] if seed else []
        if r['seeds'] != want:
            decide(ctx, cs, r, m, 'random.seed calls %r, the model installs %r' % (r['seeds'], want), 'seed-protocol')
            return
