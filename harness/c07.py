"""C07 -- output is a function of the command line and the seed only.

Theorem side (coq/Seeding.v, Prop_C07.v): a run whose trace is `disciplined`
(nothing drawn from the global generator before the seed is installed) gives
the same output from every initial generator state.  Correspondence: every
sampled command line is run in fresh child processes whose `random` module is
wrapped to log Seed/Draw events; the extracted `disciplined` judges the real
trace.  Differential part (what no theorem can carry): each command line is
run twice with different PYTHONHASHSEED, working directory and pre-seed
generator state; stdout must be byte-identical."""
import hashlib
import os
import re
import shutil
import tempfile

import cligen
import clirun
from lib import cmd, Sym, import_impl, outcome

META = dict(
    technique='Coq theorems on the seeding discipline (disciplined trace => output independent of the initial generator state) and on a whole-program model of seeded command lines over the stream of primitive draws (one stream consumed as graph arguments ++ family ++ transformations; seeded runs write the same bytes from every generator state) + run-time trace monitor judged by the extracted model + byte-for-byte replay of recorded draws + differential process runs',
    category='proof',
    text='Theorem: for every generator and every program, a run whose first random event installs the seed is independent of the initial '
         'generator state; the repaired phase order of cnfgen/pbgen satisfies it for every seed including 0, the order found in the pinned '
         'tree is refuted. The tie to the code is the recorded Seed/Draw trace of real runs of sampled command lines, judged by the extracted '
         '`disciplined`. PARTIAL: independence from hash randomisation, object addresses and working directory is runtime behaviour that the '
         'model cannot exhibit; it is covered by byte-comparison of paired runs in fresh processes, not by a theorem.',
    note='Trusted: the wrapper of the random module (harness/cli_child.py) sees every use of the global generator (networkx draws from random._inst); '
         'numpy or os.urandom randomness would be invisible to the trace and is only caught by the paired runs. Coq kernel, extraction, harness.',
    design_ref='5/C07',
)
RULE = ('command lines sampled from the grammar in harness/cligen.py (all sub-commands, random graph specs, random transformations) x seeds '
        '{0,1,-3,2^31,random}; a case is non-trivial when the tool accepted the command line and its run used the random generator; '
        'distinct = distinct argv')

SEEDS = [0, 1, -3, 2 ** 31]


def digest(b):
    return hashlib.sha1(b).hexdigest()[:12]


def classify_diff(a, b):
    la, lb = a.split(b'\n'), b.split(b'\n')
    diff = [(x, y) for x, y in zip(la, lb) if x != y]
    if len(la) != len(lb) and not diff:
        return 'length', []
    kinds = set()
    for x, y in diff[:50]:
        if re.sub(rb'0x[0-9a-f]+', b'', x) == re.sub(rb'0x[0-9a-f]+', b'', y):
            kinds.add('object-address')
        elif b'generator:' in x and b'generator:' in y:
            kinds.add('version-depends-on-cwd')
        else:
            kinds.add('body')
    return '+'.join(sorted(kinds)) or 'length', [(x.decode(errors='replace')[:120], y.decode(errors='replace')[:120]) for x, y in diff[:3]]


def to_events(trace, seed):
    """the recorded events as model events; cnfshuffle installs the seed as the
    string given on the command line: that IS the given seed"""
    ev = []
    for e in trace or []:
        if e[0] == 'seed':
            given = isinstance(e[1], int) or e[1] == repr(str(seed))
            ev.append([Sym('seed'), (e[1] if isinstance(e[1], int) else seed) if given else seed + 1])
        else:
            ev.extend([Sym('draw')] * min(e[1], 3))
    return ev[:40]


def run(ctx):
    quick = ctx.tier == 'quick'
    rng = ctx.rng
    ncases = 70 if quick else 500
    base = tempfile.mkdtemp(prefix='c07-')
    dirs = [os.path.join(base, 'a'), os.path.join(base, 'b', 'deeper')]
    for d in dirs:
        os.makedirs(d)
    cases = []
    seen = set()
    # corpus run first: every tool x every seed class on a command that draws; graph arguments with several
    # modifiers; transformations that sample an explicit random graph
    shuf_in = b'p cnf 6 5\n1 -2 0\n2 3 -4 0\n-1 5 0\n6 -3 0\n4 5 6 0\n'
    for seed in SEEDS + [rng.randint(-10 ** 6, 10 ** 6)]:
        cases.append(('cnfgen', ['--seed', seed, 'randkcnf', 3, 8, 6], b'', seed))
        cases.append(('pbgen', ['--seed', seed, 'randkxor', 2, 6, 4], b'', seed))
        cases.append(('cnfshuffle', ['--seed', seed], shuf_in, seed))
        cases.append(('cnfgen', ['-S', seed, 'kcolor', 3, 'gnp', 7, '.4', 'plantclique', 3, 'addedges', 3, 'splitedges', 2], b'', seed))
        cases.append(('cnfgen', ['-S', seed, 'php', 'glrp', 4, 4, '.5', 'plantbiclique', 2, 2, 'addedges', 2], b'', seed))
        cases.append(('cnfgen', ['--seed', seed, 'php', 3, 2, '-T', 'xorcomp', 'glrd', 6, 4, 2], b'', seed))
        cases.append(('cnfgen', ['--seed', seed, 'php', 3, 2, '-T', 'majcomp', 'glrm', 6, 5, 9], b'', seed))
        cases.append(('cnfgen', ['--seed', seed, 'op', 3, '-T', 'shuffle', '-T', 'xorcomp', 9, 2], b'', seed))
    # graph FILES named relative to the working directory (the same files exist in both directories), with vertex NAMES in
    # the dot / gml files: reading them must not bring hash order or the directory into the output (header included)
    names_l = ['p_ada', 'p_bob', 'p_cleo', 'p_dan', 'p_eve', 'p_fay', 'p_gus']
    names_r = ['h_red', 'h_blue', 'h_green', 'h_cyan', 'h_pink']
    bedges = sorted(set((pn, names_r[(2 * i + 3 * j) % len(names_r)]) for i, pn in enumerate(names_l) for j in range(i % 3 + 1)))
    vs = ['n_%s' % w for w in ('ash', 'birch', 'cedar', 'elm', 'fir', 'oak', 'pine', 'yew')]
    sedges = sorted(set(tuple(sorted((vs[i], vs[(i * 3 + j) % len(vs)]))) for i in range(len(vs)) for j in (1, 2) if vs[i] != vs[(i * 3 + j) % len(vs)]))
    files = {
        'b.dot': 'strict graph {\n' + ''.join('%s [bipartite=0];\n' % x for x in names_l) + ''.join('%s [bipartite=1];\n' % x for x in names_r)
                 + ''.join('%s -- %s;\n' % e for e in bedges) + '}\n',
        'g.dot': 'strict graph {\n' + ''.join('%s;\n' % x for x in vs) + ''.join('%s -- %s;\n' % e for e in sedges) + '}\n',
        'g.gml': 'graph [\n' + ''.join('  node [\n    id %d\n    label "%s"\n  ]\n' % (i, x) for i, x in enumerate(vs))
                 + ''.join('  edge [\n    source %d\n    target %d\n  ]\n' % (vs.index(a), vs.index(b)) for a, b in sedges) + ']\n',
        'b.kthlist': '7\n1 : 4 5 0\n2 : 5 6 0\n3 : 4 7 0\n',
        'b.matrix': '3 4\n1 1 0 0\n0 1 1 0\n1 0 0 1\n',
        'd.kthlist': '5\n1 : 0\n2 : 0\n3 : 1 2 0\n4 : 2 3 0\n5 : 3 4 0\n',
        'g.dimacs': 'p edge 5 5\ne 1 2\ne 2 3\ne 3 4\ne 4 5\ne 1 5\n',
        os.path.join('sub', 'g.kthlist'): '4\n1 : 2 3 0\n2 : 3 0\n3 : 4 0\n4 : 0\n',
    }
    for d in dirs:
        os.makedirs(os.path.join(d, 'sub'), exist_ok=True)
        for fn, text in files.items():
            with open(os.path.join(d, fn), 'w') as f:
                f.write(text)
    file_lines = [
        ('cnfgen', ['php', 'b.dot']), ('cnfgen', ['subsetcard', 'b.dot', 'addedges', 3]), ('pbgen', ['subsetcard', 'b.dot']),
        ('cnfgen', ['and', 2, 1, '-T', 'xorcomp', 'b.kthlist']), ('cnfgen', ['or', 3, 4, '-T', 'majcomp', 'b.dot']), ('cnfgen', ['php', 'b.matrix', 'addedges', 2]),
        ('cnfgen', ['kcolor', 3, 'g.gml', 'plantclique', 3]), ('cnfgen', ['kcolor', 2, 'g.dot', 'addedges', 2]), ('cnfgen', ['tseitin', 'randomodd', 'g.dot']),
        ('cnfgen', ['matching', 'g.gml']), ('pbgen', ['tseitin', 'random', 'g.gml']), ('cnfgen', ['domset', 2, 'g.dimacs', 'addedges', 1]),
        ('cnfgen', ['peb', 'd.kthlist', '-T', 'shuffle']), ('cnfgen', ['stone', 3, 'd.kthlist']), ('cnfgen', ['kclique', 3, os.path.join('sub', 'g.kthlist'), 'plantclique', 3]),
        ('cnfgen', ['-of', 'latex', 'kcolor', 2, 'g.dot']), ('pbgen', ['-of', 'latex', 'php', 'b.dot']), ('cnfgen', ['-v', '-of', 'opb', 'ec', 'g.gml']),
        ('cnfgen', ['iso', 'g.dot', '-e', 'g.gml']), ('cnfgen', ['subgraph', '-G', 'g.gml', '-H', os.path.join('sub', 'g.kthlist')]),
    ]
    for seed in [0, 5, rng.randint(-10 ** 6, 10 ** 6)][:2 if quick else 3]:
        for tool, ln in file_lines:
            cases.append((tool, ['--seed', seed] + ln, b'', seed))
    # `--seed` typed AFTER the formula arguments (or after a -T): the tools refuse it today; a tool that accepted it would have
    # sampled the graph argument before the seed was installed
    for seed in [0, 7, rng.randint(1, 10 ** 6)][:2 if quick else 3]:
        for opt in ('--seed', '-S'):
            cases.append(('cnfgen', ['kcolor', 3, 'gnp', 8, '.5', opt, seed], b'', seed))
            cases.append(('cnfgen', ['tseitin', 'randomodd', 'gnd', 10, 4, opt, seed], b'', seed))
            cases.append(('cnfgen', ['php', 'glrp', 5, 4, '.5', opt, seed], b'', seed))
            cases.append(('pbgen', ['kcolor', 3, 'gnp', 8, '.5', opt, seed], b'', seed))
            cases.append(('cnfgen', ['randkcnf', 3, 10, 5, opt, seed], b'', seed))
            cases.append(('cnfgen', ['kcolor', 3, 'gnm', 7, 9, '-T', 'shuffle', opt, seed], b'', seed))
    for c in cases:
        seen.add((c[0], tuple(map(str, c[1])), c[2]))
        ctx.tally('tool', c[0])
        ctx.tally('seed class', c[3] if c[3] in SEEDS else 'random')
        ctx.tally('sub-command', 'corpus')
    ncases += len(cases)
    while len(cases) < ncases:
        tool = rng.choice(['cnfgen'] * 6 + ['pbgen'] * 2 + ['cnfshuffle'])
        seed = rng.choice(SEEDS + [rng.randint(-10 ** 6, 10 ** 6)])
        stdin = b''
        if tool == 'cnfshuffle':
            argv = ['--seed', seed] + [o for o in ('-p', '-v', '-c', '-q') if rng.random() < 0.25]
            n = rng.randint(1, 6)
            cl = [[rng.choice([1, -1]) * rng.randint(1, n) for _ in range(rng.randint(0, 3))] for _ in range(rng.randint(0, 6))]
            stdin = ('p cnf %d %d\n' % (n, len(cl)) + ''.join(' '.join(map(str, c + [0])) + '\n' for c in cl)).encode()
        else:
            argv = cligen.valid_cmdline(rng, tool, seed=seed, allow_random=True)
        key = (tool, tuple(map(str, argv)), stdin)
        if key in seen:
            continue
        seen.add(key)
        cases.append((tool, argv, stdin, seed))
        ctx.tally('tool', tool)
        ctx.tally('seed class', seed if seed in SEEDS else 'random')
        sub = next((str(a) for a in argv if not str(a).startswith('-') and not str(a).lstrip('-').isdigit()), '?')
        ctx.tally('sub-command', sub if tool != 'cnfshuffle' else 'cnfshuffle')

    def pair(case):
        tool, argv, stdin, seed = case
        a = clirun.run_cli(tool, argv, stdin, cwd=dirs[0], hashseed=1, trace=True, prestate=11, timeout=30)
        if a['timeout']:
            return a, a
        b = clirun.run_cli(tool, argv, stdin, cwd=dirs[1], hashseed=2, trace=True, prestate=22, timeout=60)
        return a, b

    results = clirun.parallel([lambda c=c: pair(c) for c in cases])
    reqs = [cmd('disciplined', case[3], to_events(a['trace'], case[3])) for case, (a, b) in zip(cases, results)]
    verdicts = ctx.model.batch(reqs)
    accepted = 0
    for case, (a, b), ok in zip(cases, results, verdicts):
        tool, argv, stdin, seed = case
        descr = dict(tool=tool, argv=[str(x) for x in argv], seed=seed, stdin=stdin.decode())
        used_random = bool(a['trace']) and any(e[0] == 'draw' for e in a['trace'])
        good = a['rc'] == 0 and b['rc'] == 0
        if good:
            accepted += 1
        ctx.count('paired-runs', (tool, tuple(map(str, argv))), nontrivial=good and used_random,
                  sample=dict(descr, trace=a['trace'], rc=a['rc']))
        ctx.tally('outcome', 'formula' if good else 'rejected rc=%s/%s' % (a['rc'], b['rc']))
        ctx.tally('uses random', used_random)
        if a['timeout'] or b['timeout']:
            ctx.tally('outcome', 'skipped: formula too large for the time limit')
            continue
        if b'Traceback (most recent call last)' in a['err']:
            ctx.tally('outcome', 'traceback (reported by C18)')
            continue
        same = (a['out'] == b['out'] and a['rc'] == b['rc'])
        if ok is True and same:
            continue
        if same and not good and a['out'] == b'':
            # refused command line, nothing written, both runs alike: whatever was drawn while parsing never reached an output
            ctx.tally('outcome', 'refused after drawing (no output to judge)')
            continue
        ctx.disagreements_checked += 1
        if not same:
            kind, lines = classify_diff(a['out'], b['out'])
            if ok is not True:
                tr = a['trace'] or []
                site = 'seed-not-installed' if not any(e[0] == 'seed' for e in tr) else 'draw-before-seed'
                kind = site + ('(seed=0)' if seed == 0 and site == 'seed-not-installed' else '')
            ctx.violation('counterexample', 'two runs of the same command line and seed differ (%s)' % kind,
                          dict(input=descr, run_a=dict(hashseed=1, cwd=dirs[0], prestate=11, sha1=digest(a['out']), trace=a['trace']),
                               run_b=dict(hashseed=2, cwd=dirs[1], prestate=22, sha1=digest(b['out'])), first_differences=lines),
                          True, site='cli-determinism', cls=kind)
        else:
            # undisciplined trace but equal outputs on this pair: try other initial states
            found = None
            for ps in (33, 44, 55):
                c = clirun.run_cli(tool, argv, stdin, cwd=dirs[0], hashseed=1, trace=False, prestate=ps)
                if c['out'] != a['out']:
                    found = ps
                    break
            if found:
                ctx.violation('counterexample', 'output depends on the generator state before seeding',
                              dict(input=descr, trace=a['trace'], prestates=[11, found]), True, site='cli-determinism', cls='draw-before-seed')
            elif used_random:
                ctx.violation('correspondence', 'trace of the real run is not disciplined (theorem C07_disciplined_runs_are_deterministic does not apply)',
                              dict(input=descr, trace=a['trace'], theorem='C07_disciplined_runs_are_deterministic'), False,
                              site='cli-determinism', cls='undisciplined-trace')
    ctx.note('%d of %d sampled command lines were accepted by the tools' % (accepted, len(cases)))
    shutil.rmtree(base, ignore_errors=True)
    library_seeds(ctx)
    import c07_pipeline
    c07_pipeline.run_rand_pipeline(ctx)


def library_seeds(ctx):
    """library generators called twice with the same seed argument"""
    import_impl()
    import random
    import cnfgen
    from cnfgen import graphs
    rng = ctx.rng

    def edges(G):
        return (G.number_of_vertices() if hasattr(G, 'number_of_vertices') else None, sorted(map(tuple, G.edges())))
    calls = []
    for _ in range(10 if ctx.tier == 'quick' else 100):
        s = rng.choice([0, 1, -5, 'abc', rng.randint(0, 10 ** 9)])
        n = rng.randint(2, 8)
        k = rng.randint(1, min(3, n))
        calls += [
            ('RandomKCNF', s, lambda s=s, n=n, k=k: list(cnfgen.RandomKCNF(k, n, 3, seed=s).clauses())),
            ('RandomKXOR', s, lambda s=s, n=n, k=k: list(cnfgen.RandomKXOR(k, n, 2, seed=s).clauses())),
            ('bipartite_random_left_regular', s, lambda s=s, n=n: edges(graphs.bipartite_random_left_regular(n, n, 2, seed=s))),
            ('bipartite_random_m_edges', s, lambda s=s, n=n: edges(graphs.bipartite_random_m_edges(n, n, n, seed=s))),
            ('bipartite_random', s, lambda s=s, n=n: edges(graphs.bipartite_random(n, n, 0.5, seed=s))),
            ('bipartite_random_regular', s, lambda s=s: edges(graphs.bipartite_random_regular(4, 4, 2, seed=s))),
        ]
    for name, s, f in calls:
        random.seed(12345)
        a = outcome(f)
        random.seed(54321)
        random.random()
        b = outcome(f)
        ctx.count('library-seed', (name, repr(s)), nontrivial=True, sample=dict(call=name, seed=repr(s)))
        ctx.tally('library call', name)
        if a != b:
            ctx.violation('counterexample', 'library generator %s called twice with seed=%r returns different results' % (name, s),
                          dict(input=dict(call=name, seed=repr(s)), first=str(a)[:300], second=str(b)[:300]), True,
                          site='library-seed', cls=name)
