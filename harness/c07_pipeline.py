"""C07 / C17 (whole-program part, command lines that USE RANDOMNESS) -- the model
`cnfgen_main_rand : argv -> draws -> bytes` (coq/PipelineRand.v, theorems in coq/Prop_C07_pipeline.v) against the real
`cnfgen`.

`run_rand_pipeline(ctx)` is called from harness/c07.py.  For every generated command line

    tool   = the real cnfgen run in a child process (fork server harness/c07_pipeline_child.py) in which the global
             generator of the `random` module was replaced, before cnfgen was imported, by an instance that RECORDS the
             value of every getrandbits(k) call (and every seed, every random() call)
    model  = the extracted cnfgen_main_rand on the same argv and on the RECORDED getrandbits values as its oracle
             (driver command `pipeline_rand`)

When the model says (done (out T) UNREAD ..) the tool must exit 0 with exactly the bytes T on standard output (every case
runs under -q) and UNREAD must be 0: the model read the recorded stream exactly to its end; (done (clierror) ..): exit
255, nothing on standard output, no traceback; (done (outside) ..): no claim (a violation when the generator meant the
line to be inside the grammar); (end K) / (bad): the model wants a draw the tool did not make -- a disagreement.  The
seed the model records must be the last value the tool gave to random.seed.

On a disagreement of a seeded line the tool is run twice more in FRESH interpreters under different PYTHONHASHSEED and
working directories: different bytes => property C07 fails on that input (kind counterexample).  Otherwise the line is
replayed as ONE seeded library session (random.seed(S); graph argument; generator; transformations left to right) in a
fresh interpreter: different bytes => property C17, site `seeded-session` (kind counterexample, property named in the
replay).  Otherwise kind correspondence (the replay names the model).  A sample of agreeing seeded lines goes through
both extra runs as well.

Streams: valid (randkcnf / randkxor with and without --plant, up to the whole clause space and beyond; glrd / glrm
(sparse and dense) with plantbiclique / addedges under php and subsetcard; complete N / empty N with 0-3 of
plantclique / addedges / splitedges under kcolor matching ec tiling kclique kcliquebin domset tseitin; the six charge
words; deterministic families; chains of 0-3 transformations with shuffle in every combination of its switches and
spellings; several random parts in one line; seeds 0, 1, negative, 2^40, none, two seeds) and malformed (unknown
options, missing and surplus arguments, bad seeds, impossible sizes)."""
import json
import math
import os
import shutil
import subprocess
import tempfile
import time

import clirun
import lib
from lib import cmd

CHILD = os.path.join(os.path.dirname(os.path.abspath(__file__)), 'c07_pipeline_child.py')
SITE = 'seeded-session'
SEEDS = [0, 1, -1, -7, 2 ** 40, 77, 12345, 3]


# --------------------------------------------------------------------------
# the real tool
# --------------------------------------------------------------------------
def _env(hashseed='0'):
    env = dict(os.environ)
    env['PYTHONHASHSEED'] = hashseed
    env['PYTHONPATH'] = lib.REPO
    env['LC_ALL'] = 'C.UTF-8'
    env['LANG'] = 'C.UTF-8'
    env[lib.GUARD] = '1'
    env.pop('PYTHONSTARTUP', None)
    return env


def _cap():
    try:
        import resource
        resource.setrlimit(resource.RLIMIT_AS, (2 << 30, 2 << 30))
    except Exception:
        pass


def _serve(reqs, tmp, tag, limit=20):
    path = os.path.join(tmp, 'requests-%s.jsonl' % tag)
    with open(path, 'w') as f:
        for r in reqs:
            f.write(json.dumps(r) + '\n')
    p = subprocess.run([lib.PY, '-W', 'ignore', CHILD, lib.REPO, path, str(limit)], stdin=subprocess.DEVNULL,
                       stdout=subprocess.PIPE, stderr=subprocess.PIPE, cwd=lib.REPO, env=_env(),
                       timeout=limit * max(1, len(reqs)) + 120)
    lines = [ln for ln in p.stdout.decode().split('\n') if ln]
    if len(lines) != len(reqs):
        raise RuntimeError('fork server answered %d of %d (stderr %s)' % (len(lines), len(reqs), p.stderr.decode()[-300:]))
    return [json.loads(ln) for ln in lines]


def run_real(argvs, tmp, workers=8):
    reqs = [dict(argv=a, stdin='', cwd=None) for a in argvs]
    if not reqs:
        return []
    k = max(1, min(workers, len(reqs) // 8 or 1))
    shards = [reqs[i::k] for i in range(k)]
    res = clirun.parallel([(lambda s=s, i=i: _serve(s, tmp, str(i))) for i, s in enumerate(shards)], workers=k)
    out = [None] * len(reqs)
    for i, shard in enumerate(res):
        for j, r in enumerate(shard):
            out[i + j * k] = r
    return out


FRESH = r'''
import sys
sys.path.insert(0, sys.argv[1])
sys.argv = ['cnfgen'] + sys.argv[2:]
from cnfgen.clitools.cnfgen import main
main()
'''

SESSION = r'''
import sys, json, random
sys.path.insert(0, sys.argv[1])
rec = json.loads(sys.argv[2])
import cnfgen
from cnfgen.clitools.graph_args import make_graph_from_spec
try:
    random.seed(rec['seed'])
    G = make_graph_from_spec(rec['gtype'], rec['gspec']) if rec.get('gspec') else None
    f = rec['fam']
    if f[0] == 'randk':
        _, xor, k, n, m, plant = f
        kw = {}
        if plant:
            kw['planted_assignments'] = [[random.choice([-1, 1]) * v for v in range(1, n + 1)]]
        F = (cnfgen.RandomKXOR if xor else cnfgen.RandomKCNF)(k, n, m, **kw)
    elif f[0] == 'php':
        F = cnfgen.GraphPigeonholePrinciple(G, functional=f[1], onto=f[2])
    elif f[0] == 'subsetcard':
        F = cnfgen.SubsetCardinalityFormula(G, f[1])
    elif f[0] == 'kcolor':
        F = cnfgen.GraphColoringFormula(G, f[1])
    elif f[0] == 'matching':
        F = cnfgen.PerfectMatchingPrinciple(G)
    elif f[0] == 'tseitin':
        kind = f[1]
        if kind in ('random', 'randomodd', 'randomeven'):
            ch = [random.randint(0, 1) for _ in range(G.order() - 1)]
            par = sum(ch) % 2
            ch.append(random.randint(0, 1) if kind == 'random' else (1 - par if kind == 'randomodd' else par))
        else:
            ch = {'first': [1] + [0] * (G.order() - 1), 'zero': [0] * G.order(), 'one': [1] * G.order()}[kind]
        F = cnfgen.TseitinFormula(G, ch)
    elif f[0] == 'detphp':
        F = cnfgen.PigeonholePrinciple(f[1], f[2])
    else:
        raise KeyError(f[0])
    for t in rec['chain']:
        if t[0] == 'shuffle':
            F = cnfgen.Shuffle(F, polarity_flips='fixed' if t[1] else 'shuffle',
                               variables_permutation='fixed' if t[2] else 'shuffle',
                               clauses_permutation='fixed' if t[3] else 'shuffle')
        elif t[0] == 'xor':
            F = cnfgen.XorSubstitution(F, t[1])
        elif t[0] == 'flip':
            F = cnfgen.FlipPolarity(F)
        elif t[0] == 'none':
            pass
        else:
            raise KeyError(t[0])
except ValueError as e:
    sys.stderr.write('ValueError: %s\n' % e)
    sys.exit(255)
F.to_file(sys.stdout, fileformat='dimacs', export_header=False)
'''


def run_fresh(argv, cwd, hashseed):
    """the unmodified tool in a freshly started interpreter (no recorder, no fork server)"""
    p = subprocess.run([lib.PY, '-W', 'ignore', '-c', FRESH, lib.REPO] + argv, stdin=subprocess.DEVNULL,
                       stdout=subprocess.PIPE, stderr=subprocess.PIPE, cwd=cwd or lib.REPO, env=_env(hashseed), timeout=120,
                       preexec_fn=_cap)
    return p.returncode & 0xff, p.stdout.decode('latin-1'), p.stderr.decode('latin-1')


def run_session(recipe, cwd=None):
    p = subprocess.run([lib.PY, '-W', 'ignore', '-c', SESSION, lib.REPO, json.dumps(recipe)], stdin=subprocess.DEVNULL,
                       stdout=subprocess.PIPE, stderr=subprocess.PIPE, cwd=cwd or lib.REPO, env=_env('3'), timeout=120,
                       preexec_fn=_cap)
    return p.returncode & 0xff, p.stdout.decode('latin-1'), p.stderr.decode('latin-1')


# --------------------------------------------------------------------------
# command lines
# --------------------------------------------------------------------------
def gen_lead(rng, seed):
    lead = [rng.choice(['-q', '-q', '--quiet'])]
    if seed is not None:
        st = [rng.choice(['--seed', '-S']), str(seed)]
        if rng.random() < 0.12:
            st = [rng.choice(['--seed', '-S']), str(rng.choice(SEEDS))] + st      # the last one wins
        lead = lead + st if rng.random() < 0.5 else st + lead
    if rng.random() < 0.1:
        pos = rng.randrange(len(lead) + 1)
        if pos > 0 and lead[pos - 1] in ('--seed', '-S'):
            pos -= 1
        lead[pos:pos] = ['-of', 'dimacs']
    return lead


def gen_randk(rng):
    xor = rng.random() < 0.4
    k = rng.choice([1, 2, 2, 3, 3, 4])
    n = rng.randint(k, 12) if rng.random() < 0.93 else max(1, k - 1)
    while math.comb(n, k) * 2 ** k > 5000:
        n -= 1
    plant = rng.random() < 0.35
    total = math.comb(n, k) * (2 if xor else 2 ** k)
    if plant:
        total = math.comb(n, k) * (1 if xor else 2 ** k - 1)
    pick = rng.random()
    if pick < 0.5:
        m = rng.randint(0, min(8, max(total, 1)))
    elif pick < 0.8:
        m = rng.randint(0, min(40, total))
    elif total <= 80:
        m = max(0, total + rng.choice([-2, -1, 0, 0, 1]))
    else:
        m = rng.randint(0, 40)
    args = [str(k), str(n), str(m)]
    if plant:
        args.insert(rng.randrange(4), rng.choice(['--plant', '-p']))
    inside = True
    return dict(name='randkxor' if xor else 'randkcnf', args=args, fam=['randk', xor, k, n, m, plant], gtype=None, gspec=None,
                cls='randkxor' if xor else 'randkcnf', small=(k * m <= 120), inside=inside, places=1 + (1 if plant else 0))


def gen_bip_spec(rng):
    L, R = rng.randint(1, 6), rng.randint(1, 6)
    pick = rng.random()
    random_base = True
    if pick < 0.35:
        spec = ['glrd', L, R, rng.randint(0, R)]
    elif pick < 0.75:
        spec = ['glrm', L, R, rng.randint(0, L * R)]
    else:
        spec = [rng.choice(['complete', 'empty']), L, R]
        random_base = False
    mods = []
    if rng.random() < (0.45 if random_base else 0.8):
        a, b = rng.randint(0, L), rng.randint(0, R)
        if rng.random() < 0.06:
            a = L + 1
        mods.append(['plantbiclique', a, b])
    if rng.random() < (0.4 if random_base or mods else 0.9):
        mods.append(['addedges', rng.randint(0, max(1, L * R // 2))])
    rng.shuffle(mods)
    for mo in mods:
        spec += mo
    return [str(x) for x in spec], (1 if random_base else 0) + len(mods)


def gen_simple_spec(rng):
    N = rng.randint(1, 7)
    base = rng.choice(['complete', 'empty', 'empty'])
    spec = [base, N]
    E = N * (N - 1) // 2 if base == 'complete' else 0
    mods = []
    if rng.random() < 0.6:
        k = rng.randint(0, N) if rng.random() < 0.93 else N + 1
        mods.append(['plantclique', k])
        E = max(E, k * (k - 1) // 2)
    if rng.random() < 0.6:
        k = rng.randint(0, 5)
        mods.append(['addedges', k])
        E += k
    if rng.random() < 0.5:
        mods.append(['splitedges', rng.randint(0, max(0, min(E, 4)))])
    if not mods:
        mods.append(rng.choice([['plantclique', rng.randint(0, N)], ['addedges', rng.randint(0, 3)]]))
    rng.shuffle(mods)
    for mo in mods:
        spec += mo
    return [str(x) for x in spec], len(mods)


def gen_family(rng):
    pick = rng.random()
    if pick < 0.34:
        return gen_randk(rng)
    if pick < 0.56:
        spec, places = gen_bip_spec(rng)
        if rng.random() < 0.5:
            fu, on = rng.random() < 0.3, rng.random() < 0.3
            flags = (['--functional'] if fu else []) + (['--onto'] if on else [])
            args = spec + flags if rng.random() < 0.5 else flags + spec
            return dict(name='php', args=args, fam=['php', fu, on], gtype='bipartite', gspec=spec, cls='php', small=True, inside=True, places=places)
        eq = rng.random() < 0.3
        flags = [rng.choice(['--equal', '-e'])] if eq else []
        args = spec + flags if rng.random() < 0.5 else flags + spec
        return dict(name='subsetcard', args=args, fam=['subsetcard', eq], gtype='bipartite', gspec=spec, cls='subsetcard', small=True, inside=True, places=places)
    if pick < 0.9:
        spec, places = gen_simple_spec(rng)
        name = rng.choice(['kcolor', 'matching', 'ec', 'tiling', 'kclique', 'kcliquebin', 'domset', 'tseitin', 'tseitin', 'tseitin'])
        if name == 'kcolor':
            k = rng.randint(1, 3)
            return dict(name=name, args=[str(k)] + spec, fam=['kcolor', k], gtype='simple', gspec=spec, cls=name, small=True, inside=True, places=places)
        if name in ('kclique', 'kcliquebin', 'domset'):
            k = rng.randint(1, 3)
            extra = []
            if name == 'kclique' and rng.random() < 0.3:
                extra = ['--no-symmetry-breaking']
            if name == 'domset' and rng.random() < 0.3:
                extra = [rng.choice(['--alternative', '-a'])]
            return dict(name=name, args=extra + [str(k)] + spec, fam=None, gtype='simple', gspec=spec, cls=name, small=True, inside=True, places=places)
        if name == 'tseitin':
            ch = rng.choice(['first', 'zero', 'one', 'random', 'random', 'randomodd', 'randomeven'])
            return dict(name=name, args=[ch] + spec, fam=['tseitin', ch], gtype='simple', gspec=spec, cls='tseitin-' + ch, small=True, inside=True,
                        places=places + (1 if ch.startswith('random') else 0))
        return dict(name=name, args=spec, fam=(['matching'] if name == 'matching' else None), gtype='simple', gspec=spec, cls=name, small=True, inside=True, places=places)
    if pick < 0.96:
        m, n = rng.randint(1, 5), rng.randint(1, 4)
        return dict(name='php', args=[str(m), str(n)], fam=['detphp', m, n], gtype=None, gspec=None, cls='php-fixed', small=True, inside=True, places=0)
    # constructions that are outside the model: networkx's samplers, random.random()
    n = rng.randint(3, 7)
    spec = [str(x) for x in rng.choice([['gnp', n, '0.5'], ['gnm', n, rng.randint(0, n)], ['gnd', 2 * n, 3]])]
    return dict(name='matching', args=spec, fam=['matching'], gtype='simple', gspec=spec, cls='outside-' + spec[0], small=True, inside=False, places=1)


def gen_chain(rng, fam):
    out, rec = [], []
    n = rng.choice([0, 1, 1, 1, 2, 2, 3])
    subst = False
    for _ in range(n):
        pick = rng.random()
        if pick < 0.7:
            fl = [rng.random() < 0.3 for _ in range(3)]
            names = [('--no-polarity-flips', '-p'), ('--no-variables-permutation', '-v'), ('--no-clauses-permutation', '-c')]
            toks = [rng.choice(names[i]) for i in range(3) if fl[i]]
            rng.shuffle(toks)
            out += ['-T', 'shuffle'] + toks
            rec.append(['shuffle'] + fl)
        elif pick < 0.8 and not subst and fam['small']:
            out += ['-T', 'xor', '2']
            rec.append(['xor', 2])
            subst = True
        elif pick < 0.9:
            out += ['-T', 'flip']
            rec.append(['flip'])
        else:
            out += ['-T', 'none']
            rec.append(['none'])
    return out, rec


def gen_valid(rng):
    seed = rng.choice(SEEDS) if rng.random() < 0.85 else None
    fam = gen_family(rng)
    chain, rec = gen_chain(rng, fam)
    lead = gen_lead(rng, seed)
    argv = lead + [fam['name']] + fam['args'] + chain
    recipe = None
    if seed is not None and fam['fam'] is not None:
        recipe = dict(seed=seed, fam=fam['fam'], gtype=fam['gtype'], gspec=fam['gspec'], chain=rec)
    places = fam['places'] + sum(1 for t in rec if t[0] == 'shuffle' and not all(t[1:]))
    return dict(argv=argv, seed=seed, recipe=recipe, cls=fam['cls'], inside=fam['inside'], stream='valid', places=places,
                shuffles=sum(1 for t in rec if t[0] == 'shuffle'), lead_len=len(lead))


def gen_malformed(rng):
    cs = gen_valid(rng)
    argv = list(cs['argv'])
    kind = rng.choice(['unknown option', 'unknown option in shuffle', 'argument for shuffle', 'bad seed', 'seed eats the formula',
                       'empty -T', 'surplus argument', 'missing argument', 'negative number', 'unknown transformation'])
    if kind == 'unknown option':
        argv.insert(argv.index('-T') if '-T' in argv else len(argv), '--frobnicate')
    elif kind == 'unknown option in shuffle':
        argv += ['-T', 'shuffle', '--frobnicate']
    elif kind == 'argument for shuffle':
        argv += ['-T', 'shuffle', '3']
    elif kind == 'bad seed':
        argv = ['--seed', rng.choice(['x', '1.5', '', '0x10'])] + argv
    elif kind == 'seed eats the formula':
        argv = ['-q', '--seed'] + argv[cs['lead_len']:]
    elif kind == 'empty -T':
        argv += ['-T']
    elif kind == 'surplus argument':
        argv += ['7'] if '-T' not in argv else ['-T', 'flip', '7']
    elif kind == 'missing argument':
        if '-T' in argv:
            argv = argv[:argv.index('-T')]
        argv = argv[:-1]
    elif kind == 'negative number':
        if '-T' in argv:
            argv = argv[:argv.index('-T')]
        argv[-1] = '-3'
    else:
        argv += ['-T', 'shuffel']
    cs.update(argv=argv, recipe=None, stream='malformed', kind=kind, inside=True)
    return cs


# --------------------------------------------------------------------------
# comparison
# --------------------------------------------------------------------------
def verdict(m):
    if m[0] == 'done':
        return str(m[1][0])
    return str(m[0])


def agrees(m, r):
    if r is None or r.get('timeout'):
        return False
    if m[0] != 'done':
        return False
    res, unread = m[1], m[2]
    if res[0] == 'out':
        return r['rc'] == 0 and r['out'] == res[1] and unread == 0
    if res[0] == 'clierror':
        return r['rc'] == 255 and r['out'] == '' and 'Traceback' not in r['err']
    return False


def model_seed(m):
    s = m[3]
    if isinstance(s, list) and len(s) == 2:
        return s[1]
    return None


def run_rand_pipeline(ctx):
    rng = ctx.rng
    t_start = time.time()
    quick = ctx.tier == 'quick'
    n_valid, n_bad = (420, 70) if quick else (4200, 500)
    cases = [gen_valid(rng) for _ in range(n_valid)] + [gen_malformed(rng) for _ in range(n_bad)]
    # fixed cases: several random parts in one line
    for seed in (0, 1, -1, 2 ** 40):
        s = str(seed)
        cases.append(dict(argv=['-q', '--seed', s, 'tseitin', 'random', 'complete', '5', 'plantclique', '3', 'addedges', '2', 'splitedges', '2',
                                '-T', 'shuffle', '-T', 'flip', '-T', 'shuffle', '-c'], seed=seed,
                          recipe=dict(seed=seed, fam=['tseitin', 'random'], gtype='simple',
                                      gspec=['complete', '5', 'plantclique', '3', 'addedges', '2', 'splitedges', '2'],
                                      chain=[['shuffle', False, False, False], ['flip'], ['shuffle', False, False, True]]),
                          cls='tseitin-random', inside=True, stream='valid', places=7, shuffles=2))
        cases.append(dict(argv=['-S', s, '-q', 'php', 'glrm', '4', '5', '7', 'plantbiclique', '2', '2', 'addedges', '3', '-T', 'shuffle', '-p', '-T', 'shuffle'],
                          seed=seed, recipe=dict(seed=seed, fam=['php', False, False], gtype='bipartite',
                                                 gspec=['glrm', '4', '5', '7', 'plantbiclique', '2', '2', 'addedges', '3'],
                                                 chain=[['shuffle', True, False, False], ['shuffle', False, False, False]]),
                          cls='php', inside=True, stream='valid', places=5, shuffles=2))
        cases.append(dict(argv=['-q', '-S', s, 'randkcnf', '--plant', '3', '9', '20', '-T', 'shuffle', '-T', 'xor', '2', '-T', 'shuffle', '-v'],
                          seed=seed, recipe=dict(seed=seed, fam=['randk', False, 3, 9, 20, True], gtype=None, gspec=None,
                                                 chain=[['shuffle', False, False, False], ['xor', 2], ['shuffle', False, True, False]]),
                          cls='randkcnf', inside=True, stream='valid', places=4, shuffles=2))
    tmp = tempfile.mkdtemp(prefix='c07p-')
    try:
        t0 = time.time()
        real = run_real([c['argv'] for c in cases], tmp)
        t_real = time.time() - t0
        t0 = time.time()
        reqs = [cmd('pipeline_rand', c['argv'], [b[1] for b in (r.get('bits') or [])]) for c, r in zip(cases, real)]
        chunks = [reqs[i:i + 100] for i in range(0, len(reqs), 100)]
        parts = clirun.parallel([(lambda ch=ch: ctx.model.batch(ch, timeout=170)) for ch in chunks], workers=8)
        reps = [m for part in parts for m in part]
        t_model = time.time() - t0
        ctx.note('seeded pipeline: %d command lines; tool %.1fs, model %.1fs' % (len(cases), t_real, t_model))
        good_seeded = []
        bad = []
        for cs, r, m in zip(cases, real, reps):
            argv = cs['argv']
            v = verdict(m)
            ctx.tally('seeded pipeline stream', cs['stream'])
            ctx.tally('seeded pipeline model verdict', v)
            ctx.tally('seeded pipeline verdict by stream', cs['stream'] + ':' + v)
            if cs['stream'] == 'valid' and v == 'clierror':
                ctx.tally('seeded pipeline valid lines refused', cs['cls'])
            ctx.tally('seeded pipeline family', cs['cls'])
            ctx.tally('seeded pipeline seed', 'none' if cs['seed'] is None else ('0' if cs['seed'] == 0 else ('negative' if cs['seed'] < 0 else ('2^40' if cs['seed'] == 2 ** 40 else 'positive'))))
            ctx.tally('seeded pipeline places drawing random numbers', cs.get('places', 0))
            ctx.tally('seeded pipeline draws recorded', min(len(r.get('bits') or []), 2000) // 50 * 50)
            if cs['stream'] == 'malformed':
                ctx.tally('seeded pipeline malformed kind', cs['kind'])
            if m[0] == 'done' and m[1][0] == 'outside':
                ctx.count('seeded-pipeline-' + cs['stream'], tuple(argv), nontrivial=False)
                if cs['inside'] and cs['stream'] == 'valid':
                    ctx.violation('correspondence', 'the seeded pipeline model places a command line of its own grammar outside it',
                                  dict(input=dict(argv=argv), model='coq/PipelineRand.v', theorem='pipeline_rand_total'), False, site=SITE, cls='outside:' + cs['cls'])
                continue
            ctx.count('seeded-pipeline-' + cs['stream'], tuple(argv), nontrivial=(cs.get('places', 0) >= 1 or cs['stream'] == 'malformed'),
                      sample=dict(argv=argv, draws=len(r.get('bits') or []), verdict=v))
            ok = agrees(m, r)
            if ok and m[1][0] == 'out':
                ms = model_seed(m)
                seeds = r.get('seeds') or []
                if (ms is None and seeds) or (ms is not None and (not seeds or seeds[-1] != repr(ms))):
                    ctx.violation('correspondence', 'the seed the model records (%r) is not the one the tool installs (%r)' % (ms, seeds),
                                  dict(input=dict(argv=argv), model='coq/PipelineRand.v', theorem='pipeline_seeded_deterministic'), False, site='seed-option', cls=cs['cls'])
                if r.get('other'):
                    ctx.violation('correspondence', 'random.random() was called on a line the model claims', dict(input=dict(argv=argv)), False, site=SITE, cls='float:' + cs['cls'])
                n_opts = sum(1 for a in argv[:cs.get('lead_len', 0)] if a in ('--seed', '-S')) if 'lead_len' in cs else None
                if n_opts is not None and cs['stream'] == 'valid' and len(seeds) != n_opts:
                    # random.seed called more (or less) often than --seed occurs: the draws are not one seeded session
                    ctx.tally('seeded pipeline: random.seed calls differ from the seed options', '%d vs %d' % (len(seeds), n_opts))
                    ok = False
                elif cs['seed'] is not None:
                    good_seeded.append((cs, r))
            if not ok:
                bad.append((cs, r, m))
        # ---- disagreements: which property fails? ----
        for cs, r, m in bad[:12]:
            diagnose(ctx, cs, r, m, tmp)
        for cs, r, m in bad[12:]:
            if agrees(m, r):
                continue
            ctx.violation('correspondence', 'the seeded pipeline model and the tool disagree (model %s)' % verdict(m),
                          dict(input=dict(argv=cs['argv']), model='coq/PipelineRand.v'), False, site=SITE, cls=cs['cls'])
        # ---- a sample of agreeing seeded lines: fresh interpreters, other hash seeds, other directories; one library session ----
        rng.shuffle(good_seeded)
        multi = [x for x in good_seeded if x[0].get('places', 0) >= 2]
        sample = (multi[:4] + good_seeded[:4]) if quick else (multi[:25] + good_seeded[:25])
        jobs = []
        for cs, r in sample:
            jobs.append(lambda cs=cs: run_fresh(cs['argv'], tmp, '1'))
            jobs.append(lambda cs=cs: run_fresh(cs['argv'], lib.REPO, '2'))
            jobs.append(lambda cs=cs: run_session(cs['recipe']) if cs['recipe'] else None)
        res = clirun.parallel(jobs, workers=10)
        for i, (cs, r) in enumerate(sample):
            a, b, s = res[3 * i], res[3 * i + 1], res[3 * i + 2]
            ctx.count('seeded-pipeline-fresh-runs', tuple(cs['argv']), nontrivial=True)
            if (a[0], a[1]) != (r['rc'], r['out']) or (b[0], b[1]) != (r['rc'], r['out']):
                ctx.violation('counterexample', 'the same seeded command line writes different bytes under another PYTHONHASHSEED / working directory',
                              dict(input=dict(argv=cs['argv'], seed=cs['seed']), runs=[r['out'][:200], a[1][:200], b[1][:200]]), True, site='seeded-run', cls=cs['cls'])
            if s is not None:
                ctx.count('seeded-pipeline-library-session', tuple(cs['argv']), nontrivial=True)
                if (s[0], s[1]) != (r['rc'], r['out']):
                    # C07 itself (same bytes for the same argv and seed) was just re-checked on this input and holds: this is a break of
                    # the tie to coq/PipelineRand.v (one seeded library session), reported as such; the check of C17 judges the session reading
                    ctx.violation('correspondence', 'the seeded command line no longer follows coq/PipelineRand.v: it differs from the library session random.seed(S); graph; '
                                  'generator; transformations left to right (the output is still a function of argv and seed; see property C17)',
                                  dict(related_property='C17', input=dict(argv=cs['argv'], session=cs['recipe']), tool=r['out'][:200], session_out=s[1][:200],
                                       theorem='Prop_C07_pipeline.pipeline_draw_order'), False, site=SITE, cls=cs['cls'])
    finally:
        shutil.rmtree(tmp, ignore_errors=True)
    ctx.note('seeded pipeline stream total %.1fs' % (time.time() - t_start))


def diagnose(ctx, cs, r, m, tmp):
    argv = cs['argv']
    replay = dict(input=dict(argv=argv, seed=cs['seed']), model='coq/PipelineRand.v', model_verdict=verdict(m),
                  tool=dict(rc=r.get('rc'), out=(r.get('out') or '')[:300], err=(r.get('err') or '')[-300:], draws=len(r.get('bits') or [])))
    if r.get('timeout'):
        ctx.violation('correspondence', 'the tool did not finish within the time limit on a small seeded command line', replay, False, site=SITE, cls='timeout')
        return
    if r.get('rc') not in (0, 255) or 'Traceback' in (r.get('err') or ''):
        ctx.violation('counterexample', 'cnfgen ends in a Python traceback (%s)' % (r.get('err') or '').strip().split('\n')[-1][:120], replay, True, site=SITE, cls='traceback:' + cs['cls'])
        return
    if cs['seed'] is not None and cs['stream'] == 'valid':
        a = run_fresh(argv, tmp, '1')
        b = run_fresh(argv, lib.REPO, '2')
        if (a[0], a[1]) != (b[0], b[1]) or (a[0], a[1]) != (r['rc'], r['out']):
            replay['runs'] = [a[1][:200], b[1][:200]]
            ctx.violation('counterexample', 'the same seeded command line writes different bytes under another PYTHONHASHSEED / working directory', replay, True,
                          site='seeded-run', cls=cs['cls'])
            return
        if cs['recipe']:
            s = run_session(cs['recipe'])
            if (s[0], s[1]) != (r['rc'], r['out']):
                replay['related_property'] = 'C17'
                replay['session'] = cs['recipe']
                replay['session_out'] = s[1][:300]
                replay['theorem'] = 'Prop_C07_pipeline.pipeline_draw_order'
                ctx.violation('correspondence', 'the seeded command line no longer follows coq/PipelineRand.v: it differs from the library session random.seed(S); graph; '
                              'generator; transformations left to right (the output is still a function of argv and seed; see property C17)',
                              replay, False, site=SITE, cls=cs['cls'])
                return
    if agrees(m, r):
        # random.seed was called more often than --seed occurs, but bytes, draws and the library session agree
        ctx.tally('seeded pipeline: extra random.seed calls without effect on the output', cs['cls'])
        return
    ctx.violation('correspondence', 'the seeded pipeline model (coq/PipelineRand.v) and the tool disagree (model %s, tool exit %s, %d draws recorded)'
                  % (verdict(m), r.get('rc'), len(r.get('bits') or [])), replay, False, site=SITE, cls=cs['cls'])
