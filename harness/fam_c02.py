"""FAMILIES registry of the graph-problem families (property C02).

Each entry follows notes/AGENT_GUIDE.md ("Extra conventions for FORMULA FAMILY slices").
A simple graph is the JSON-able dict {'n': n, 'edges': [[u, v], ...]} with u < v, the
list sorted (the order of cnfgen.Graph.edges()).

Error convention: when the generator is documented/expected to raise ValueError the
model replies (raises "ValueError").

Extra keys used only by harness/c02.py:
  request_spec : request for the model variant that implements the DOCUMENTED behaviour
                 where the code is known to deviate (ramlb ignores s; iso ignores nontrivial)
  finding      : function p -> (site, cls) or None; the class of inputs on which as_is/spec differ
  count        : function p -> documented number of satisfying assignments of a satisfiable
                 instance, or None (a TEST by enumeration; for tseitin it is also a theorem, Prop_C02.C02_tseitin_model_count)
  small        : function p -> bool, instance is small enough for full enumeration

The oracles decode_ok / exists / count are written from the documentation of the families
(docstrings, variable labels) and from graph theory only; they never look at clauses."""
import itertools
import os

from lib import cmd, import_impl, Sym
import fam_streams as S
from fam_streams import arg

# --------------------------------------------------------------------------
# graphs
# --------------------------------------------------------------------------


def mkgraph(n, edges):
    return {'n': n, 'edges': sorted([min(u, v), max(u, v)] for u, v in edges)}


def all_graphs(n):
    """all labelled simple graphs on n vertices"""
    prs = list(itertools.combinations(range(1, n + 1), 2))
    for bits in range(1 << len(prs)):
        yield mkgraph(n, [prs[i] for i in range(len(prs)) if (bits >> i) & 1])


def small_graphs(maxn):
    out = []
    for n in range(0, maxn + 1):
        out.extend(all_graphs(n))
    return out


def random_graph(rng, n, p, isolated=0, maxdeg=None):
    """G(n,p) with `isolated` vertices forced to have no edge and an optional degree cap"""
    iso = set(rng.sample(range(1, n + 1), min(isolated, n)))
    deg = [0] * (n + 1)
    edges = []
    for u in range(1, n + 1):
        for v in range(u + 1, n + 1):
            if u in iso or v in iso:
                continue
            if rng.random() < p:
                if maxdeg is not None and (deg[u] >= maxdeg or deg[v] >= maxdeg):
                    continue
                edges.append([u, v])
                deg[u] += 1
                deg[v] += 1
    return mkgraph(n, edges)


def even_degree_graph(rng, n, cycles):
    """edge-disjoint union of random cycles: every degree even"""
    es = set()
    for _ in range(cycles):
        if n < 3:
            break
        k = rng.randint(3, min(n, 7))
        vs = rng.sample(range(1, n + 1), k)
        cyc = [(min(vs[i], vs[(i + 1) % k]), max(vs[i], vs[(i + 1) % k])) for i in range(k)]
        if any(e in es for e in cyc):
            continue
        es.update(cyc)
    return mkgraph(n, [list(e) for e in es])


def permuted(rng, g):
    n = g['n']
    perm = list(range(1, n + 1))
    rng.shuffle(perm)
    return mkgraph(n, [[perm[u - 1], perm[v - 1]] for u, v in g['edges']])


def to_impl_graph(g):
    import_impl()
    from cnfgen.graphs import Graph
    G = Graph(g['n'])
    # edges are added in reverse order and with alternating orientation: the sorted views of
    # cnfgen.Graph (edges(), neighbors()) must not depend on the insertion order
    for i, (u, v) in enumerate(reversed(g['edges'])):
        if i % 2:
            G.add_edge(v, u)
        else:
            G.add_edge(u, v)
    return G


def on_graph(p, key, call, ops='ops'):
    """call(G, overrides) on the graph argument p[key]: built by to_impl_graph or, for the history stream (p[ops]
    is a list of public API calls, see fam_streams), by replaying them -- the generator is then called on the same
    object at every 'gen' op and the value of the last call is returned."""
    import_impl()
    if ops in p:
        return S.replay(p[ops], call)
    return call(to_impl_graph(p[key]), {})


def gargs(g):
    return [g['n'], [list(e) for e in g['edges']]]


def adj(g):
    n = g['n']
    A = [set() for _ in range(n + 1)]
    for u, v in g['edges']:
        A[u].add(v)
        A[v].add(u)
    return A


def components(g):
    n = g['n']
    A = adj(g)
    seen = [False] * (n + 1)
    comps = []
    for s in range(1, n + 1):
        if seen[s]:
            continue
        comp, stack = [], [s]
        seen[s] = True
        while stack:
            x = stack.pop()
            comp.append(x)
            for y in A[x]:
                if not seen[y]:
                    seen[y] = True
                    stack.append(y)
        comps.append(sorted(comp))
    return comps


def write_graph(g, tmpdir, name):
    """kthlist file of the graph (through cnfgen's own writer)"""
    import_impl()
    from cnfgen.graphs import writeGraph
    path = os.path.join(tmpdir, name + '.kthlist')
    writeGraph(to_impl_graph(g), path, 'simple', 'kthlist')
    return path


def gsize(g):
    return 'n=%d' % g['n']


# --------------------------------------------------------------------------
# parameter streams
# --------------------------------------------------------------------------
def _sample(rng, items, k):
    items = list(items)
    if len(items) <= k:
        return items
    return rng.sample(items, k)


def _maxn(tier):
    return 4 if tier == 'quick' else 5


def _graphs_for(rng, tier, cap):
    """all graphs up to 4 vertices, plus (thorough) a seeded sample of the 1024 graphs on 5 vertices"""
    gs = small_graphs(4)
    if tier != 'quick':
        gs = gs + _sample(rng, list(all_graphs(5)), cap)
    return gs


def _random_graphs(rng, tier, count, nmax=40, maxdeg=None, pmax=0.9):
    out = []
    for i in range(count):
        n = rng.randint(6, nmax)
        p = rng.uniform(0.1, pmax)
        iso = rng.choice([0, 0, 1, 3])
        out.append(random_graph(rng, n, p, iso, maxdeg))
    return out


def _mark(ps, stream):
    for p in ps:
        p['stream'] = stream
    return ps


# ---- tseitin ----
def tseitin_params(rng, tier):
    out = []
    for g in _graphs_for(rng, tier, 300):
        n = g['n']
        out.append(dict(G=g, charges=None))
        if n <= 4:
            for ch in itertools.product([False, True], repeat=n):
                out.append(dict(G=g, charges=list(ch)))
        else:
            for _ in range(4):
                out.append(dict(G=g, charges=[rng.random() < 0.5 for _ in range(n)]))
        # shorter (padded) and longer (cut) charge lists
        if n >= 1:
            out.append(dict(G=g, charges=[True] * (n - 1)))
            out.append(dict(G=g, charges=[]))
        out.append(dict(G=g, charges=[rng.random() < 0.5 for _ in range(n + 2)]))
    _mark(out, 'small')
    big = []
    for g in _random_graphs(rng, tier, 12 if tier == 'quick' else 60, maxdeg=7):
        n = g['n']
        big.append(dict(G=g, charges=rng.choice([None, [rng.random() < 0.5 for _ in range(rng.choice([n, n, n - 2, n + 1]))]])))
    return out + _mark(big, 'random')


def tseitin_build(p, formula_class):
    import_impl()
    from cnfgen.families.tseitin import TseitinFormula
    return on_graph(p, 'G', lambda G, over: TseitinFormula(G, over.get('charges', p['charges']), formula_class=formula_class))


def tseitin_request(p):
    ch = p['charges']
    return cmd('fam_tseitin', *gargs(p['G']), None if ch is None else [Sym('some'), [bool(c) for c in ch]])


def _charge(p, v):
    ch = p['charges']
    if ch is None:
        return v == 1
    return bool(ch[v - 1]) if v - 1 < len(ch) else False


def tseitin_decode_ok(p, a):
    """variable i = i-th edge of the sorted edge list; every vertex sees a number of chosen
    incident edges of the parity of its charge"""
    g = p['G']
    for v in range(1, g['n'] + 1):
        cnt = sum(1 for i, (x, y) in enumerate(g['edges'], 1) if (x == v or y == v) and a[i])
        if (cnt % 2 == 1) != _charge(p, v):
            return False
    return True


def tseitin_exists(p):
    """classical criterion: every connected component has even total charge"""
    return all(sum(1 for v in comp if _charge(p, v)) % 2 == 0 for comp in components(p['G']))


def tseitin_count(p):
    g = p['G']
    return 2 ** (len(g['edges']) - g['n'] + len(components(g)))


def tseitin_cli(p, tmpdir):
    g = p['G']
    n = g['n']
    ch = p['charges']
    full = [_charge(p, v) for v in range(1, n + 1)]
    if n == 0:
        return None
    if full == [True] + [False] * (n - 1):
        word = 'first'
    elif not any(full):
        word = 'zero'
    elif all(full):
        word = 'one'
    else:
        return None
    return ['tseitin', word, write_graph(g, tmpdir, 'G')]


# ---- kcolor ----
def kcolor_params(rng, tier):
    out = []
    for g in _graphs_for(rng, tier, 1024):
        for k in range(0, 5 if g['n'] <= 4 else 4):
            for fn in (True, False):
                out.append(dict(G=g, k=k, functional=fn))
        out.append(dict(G=g, k=g['n'] + 2, functional=True))
    out.append(dict(G=mkgraph(3, [[1, 2]]), k=-1, functional=True))
    _mark(out, 'small')
    big = [dict(G=g, k=rng.randint(1, 6), functional=rng.random() < 0.6)
           for g in _random_graphs(rng, tier, 12 if tier == 'quick' else 60)]
    return out + _mark(big, 'random')


def kcolor_build(p, formula_class):
    import_impl()
    from cnfgen.families.coloring import GraphColoringFormula
    return on_graph(p, 'G', lambda G, over: GraphColoringFormula(G, p['k'], functional=arg(dict(p, **over), 'functional'),
                                                                 formula_class=formula_class))


def kcolor_request(p):
    return cmd('fam_kcolor', *gargs(p['G']), p['k'], p['functional'])


def kcolor_decode_ok(p, a):
    """x_{v,c} has identifier (v-1)*k+c: every vertex has a colour (exactly one when functional),
    adjacent vertices share no colour"""
    g, k = p['G'], p['k']
    cols = [None] + [{c for c in range(1, k + 1) if a[(v - 1) * k + c]} for v in range(1, g['n'] + 1)]
    for v in range(1, g['n'] + 1):
        if not cols[v] or (p['functional'] and len(cols[v]) != 1):
            return False
    return all(not (cols[u] & cols[v]) for u, v in g['edges'])


def _colourings(g, k):
    n = g['n']
    cnt = 0
    for phi in itertools.product(range(1, k + 1), repeat=n):
        if all(phi[u - 1] != phi[v - 1] for u, v in g['edges']):
            cnt += 1
    return cnt


def kcolor_exists(p):
    if p['k'] < 0:
        return None
    if p['G']['n'] > 6 or p['k'] > 6:
        return None
    return _colourings(p['G'], p['k']) > 0


def kcolor_count(p):
    if not p['functional'] or p['G']['n'] > 6:
        return None
    return _colourings(p['G'], p['k'])


def kcolor_cli(p, tmpdir):
    if not p['functional'] or p['k'] < 1:
        return None
    return ['kcolor', str(p['k']), write_graph(p['G'], tmpdir, 'G')]


# ---- ec ----
def ec_params(rng, tier):
    out = [dict(G=g) for g in _graphs_for(rng, tier, 1024)]
    _mark(out, 'small')
    big = []
    for i in range(12 if tier == 'quick' else 60):
        n = rng.randint(6, 40)
        big.append(dict(G=even_degree_graph(rng, n, rng.randint(1, max(1, n // 3)))))
    big.append(dict(G=random_graph(rng, 12, 0.3)))
    return out + _mark(big, 'random')


def ec_build(p, formula_class):
    import_impl()
    from cnfgen.families.coloring import EvenColoringFormula
    return on_graph(p, 'G', lambda G, over: EvenColoringFormula(G, formula_class=formula_class))


def ec_request(p):
    return cmd('fam_ec', *gargs(p['G']))


def ec_decode_ok(p, a):
    """edge variables; at every vertex exactly half of the incident edges are chosen"""
    g = p['G']
    for v in range(1, g['n'] + 1):
        inc = [i for i, (x, y) in enumerate(g['edges'], 1) if x == v or y == v]
        if 2 * sum(1 for i in inc if a[i]) != len(inc):
            return False
    return True


def ec_exists(p):
    """documented: defined when all degrees are even; satisfiable iff every component has an even number of edges"""
    g = p['G']
    A = adj(g)
    if any(len(A[v]) % 2 for v in range(1, g['n'] + 1)):
        return None   # ValueError expected
    for comp in components(g):
        cs = set(comp)
        if sum(1 for u, v in g['edges'] if u in cs) % 2:
            return False
    return True


def ec_cli(p, tmpdir):
    return ['ec', write_graph(p['G'], tmpdir, 'G')]


# ---- domset ----
def domset_params(rng, tier):
    out = []
    for g in _graphs_for(rng, tier, 1024):
        for d in range(1, 5 if g['n'] <= 4 else 4):
            for alt in (False, True):
                out.append(dict(G=g, d=d, alternative=alt))
        out.append(dict(G=g, d=g['n'] + 2, alternative=rng.random() < 0.5))
    out.append(dict(G=mkgraph(3, [[1, 2]]), d=0, alternative=False))
    out.append(dict(G=mkgraph(0, []), d=0, alternative=True))
    _mark(out, 'small')
    big = [dict(G=g, d=rng.randint(1, 6), alternative=rng.random() < 0.5)
           for g in _random_graphs(rng, tier, 12 if tier == 'quick' else 60, nmax=30)]
    return out + _mark(big, 'random')


def domset_build(p, formula_class):
    import_impl()
    from cnfgen.families.dominatingset import DominatingSet
    return on_graph(p, 'G', lambda G, over: DominatingSet(G, p['d'], alternative=arg(dict(p, **over), 'alternative'),
                                                          formula_class=formula_class))


def domset_request(p):
    return cmd('fam_domset', *gargs(p['G']), p['d'], p['alternative'])


def domset_decode_ok(p, a):
    """x_v (identifier v) marks the set; f(v)=i (identifier n+(v-1)*d+i) gives every chosen vertex a slot
    in 1..d, different chosen vertices get different slots; every closed neighbourhood meets the set.
    Documented kind of object: the chosen vertices form a dominating set, and the slot variables are a
    consistent numbering.  Standard encoding: slots only on chosen vertices, each slot used once, slots
    increase with the vertex.  Alternative encoding: constraints only on chosen vertices."""
    g, d = p['G'], p['d']
    n = g['n']
    if n == 0:
        return True
    A = adj(g)
    D = [None] + [a[v] for v in range(1, n + 1)]
    M = lambda v, i: a[n + (v - 1) * d + i]
    for v in range(1, n + 1):
        if not (D[v] or any(D[u] for u in A[v])):
            return False
        if D[v] and not any(M(v, i) for i in range(1, d + 1)):
            return False
    if p['alternative']:
        for v in range(1, n + 1):
            if D[v] and sum(1 for i in range(1, d + 1) if M(v, i)) > 1:
                return False
        for u in range(1, n + 1):
            for v in range(u + 1, n + 1):
                if D[u] and D[v] and any(M(u, i) and M(v, i) for i in range(1, d + 1)):
                    return False
        return True
    for v in range(1, n + 1):
        if not D[v] and any(M(v, i) for i in range(1, d + 1)):
            return False
    for i in range(1, d + 1):
        if sum(1 for v in range(1, n + 1) if M(v, i)) > 1:
            return False
    for u in range(1, n + 1):
        for v in range(u + 1, n + 1):
            for i in range(1, d + 1):
                for j in range(1, i):
                    if M(u, i) and M(v, j):
                        return False
    return True


def domset_exists(p):
    g, d = p['G'], p['d']
    n = g['n']
    if d <= 0:
        return None
    if n > 8:
        return None
    A = adj(g)
    for size in range(0, min(d, n) + 1):
        for S in itertools.combinations(range(1, n + 1), size):
            s = set(S)
            if all(v in s or (A[v] & s) for v in range(1, n + 1)):
                return True
    return False


def domset_cli(p, tmpdir):
    if p['d'] < 1:
        return None
    return ['domset'] + (['-a'] if p['alternative'] else []) + [str(p['d']), write_graph(p['G'], tmpdir, 'G')]


# ---- tiling ----
def tiling_params(rng, tier):
    out = _mark([dict(G=g) for g in _graphs_for(rng, tier, 1024)], 'small')
    big = [dict(G=g) for g in _random_graphs(rng, tier, 12 if tier == 'quick' else 60, maxdeg=12)]
    return out + _mark(big, 'random')


def tiling_build(p, formula_class):
    import_impl()
    from cnfgen.families.dominatingset import Tiling
    return on_graph(p, 'G', lambda G, over: Tiling(G, formula_class=formula_class))


def tiling_request(p):
    return cmd('fam_tiling', *gargs(p['G']))


def tiling_decode_ok(p, a):
    g = p['G']
    A = adj(g)
    return all(sum(1 for u in [v] + sorted(A[v]) if a[u]) == 1 for v in range(1, g['n'] + 1))


def tiling_exists(p):
    g = p['G']
    n = g['n']
    if n > 12:
        return None
    return any(tiling_decode_ok(p, [None] + [bool((bits >> i) & 1) for i in range(n)]) for bits in range(1 << n))


def tiling_count(p):
    g = p['G']
    n = g['n']
    if n > 12:
        return None
    return sum(1 for bits in range(1 << n) if tiling_decode_ok(p, [None] + [bool((bits >> i) & 1) for i in range(n)]))


def tiling_cli(p, tmpdir):
    return ['tiling', write_graph(p['G'], tmpdir, 'G')]


# ---- iso / automorphism ----
def iso_params(rng, tier):
    out = []
    gs3 = small_graphs(3)
    for g1 in gs3:                       # all pairs up to 3 vertices (also different orders)
        for g2 in gs3:
            out.append(dict(G1=g1, G2=g2, nontrivial=False))
    gs = small_graphs(4) if tier == 'quick' else small_graphs(4) + _sample(rng, list(all_graphs(5)), 400)
    for g in gs:                         # automorphism of every small graph, and G against a relabelled copy
        out.append(dict(G1=g, G2=None, nontrivial=False))
        out.append(dict(G1=g, G2=permuted(rng, g), nontrivial=False))
        out.append(dict(G1=g, G2=g, nontrivial=True))
    for _ in range(300 if tier == 'quick' else 4000):
        g1, g2 = rng.choice(gs), rng.choice(gs)
        out.append(dict(G1=g1, G2=g2, nontrivial=rng.random() < 0.15))
    _mark(out, 'small')
    big = []
    for g in _random_graphs(rng, tier, 4 if tier == 'quick' else 16, nmax=16 if tier == 'quick' else 24):
        big.append(dict(G1=g, G2=permuted(rng, g), nontrivial=False))
        big.append(dict(G1=g, G2=None, nontrivial=False))
        big.append(dict(G1=g, G2=random_graph(rng, rng.randint(3, g['n']), 0.5), nontrivial=False))
    return out + _mark(big, 'random')


def iso_build(p, formula_class):
    import_impl()
    from cnfgen.families.graphisomorphism import GraphIsomorphism, GraphAutomorphism
    if p['G2'] is None:
        return on_graph(p, 'G1', lambda G, over: GraphAutomorphism(G, formula_class=formula_class))
    if p.get('same_object'):          # one Graph object passed for both arguments
        return on_graph(p, 'G1', lambda G, over: GraphIsomorphism(G, G, nontrivial=arg(dict(p, **over), 'nontrivial'),
                                                                  formula_class=formula_class))
    H = to_impl_graph(p['G2'])
    if 'raw' in p or 'ops' in p:
        return on_graph(p, 'G1', lambda G, over: GraphIsomorphism(G, H, nontrivial=arg(dict(p, **over), 'nontrivial'),
                                                                  formula_class=formula_class))
    if p.get('nontrivial'):
        return GraphIsomorphism(to_impl_graph(p['G1']), H, nontrivial=True, formula_class=formula_class)
    return GraphIsomorphism(to_impl_graph(p['G1']), H, formula_class=formula_class)


def iso_request(p):
    """the code as it is (the keyword nontrivial is ignored)"""
    if p['G2'] is None:
        return cmd('fam_iso', *gargs(p['G1']))
    return cmd('fam_iso', *gargs(p['G1']), *gargs(p['G2']))


def iso_request_spec(p):
    if p['G2'] is None or not p.get('nontrivial'):
        return iso_request(p)
    return cmd('fam_iso_nontrivial', *gargs(p['G1']), *gargs(p['G2']))


def iso_finding(p):
    if p['G2'] is not None and p.get('nontrivial'):
        return ('GraphIsomorphism', 'nontrivial=True')
    return None


def _iso_target(p):
    return p['G1'] if p['G2'] is None else p['G2']


def _is_iso(g1, g2, phi):
    """phi : list, phi[u-1] image of u"""
    n1, n2 = g1['n'], g2['n']
    if n1 != n2 or sorted(phi) != list(range(1, n2 + 1)):
        return False
    e2 = {tuple(e) for e in g2['edges']}
    img = {(min(phi[u - 1], phi[v - 1]), max(phi[u - 1], phi[v - 1])) for u, v in g1['edges']}
    return img == e2


def _forbid_identity(p):
    return p['G2'] is None or bool(p.get('nontrivial'))


def iso_decode_ok(p, a):
    """x_{u,v} has identifier (u-1)*n2+v: the true variables are the graph of an isomorphism
    (not the identity for the automorphism formula / nontrivial=True)"""
    g1, g2 = p['G1'], _iso_target(p)
    n1, n2 = g1['n'], g2['n']
    phi = []
    for u in range(1, n1 + 1):
        im = [v for v in range(1, n2 + 1) if a[(u - 1) * n2 + v]]
        if len(im) != 1:
            return False
        phi.append(im[0])
    if not _is_iso(g1, g2, phi):
        return False
    if _forbid_identity(p) and phi == list(range(1, n1 + 1)):
        return False
    return True


def _isos(p):
    g1, g2 = p['G1'], _iso_target(p)
    if g1['n'] != g2['n']:
        return 0
    cnt = 0
    for phi in itertools.permutations(range(1, g1['n'] + 1)):
        if _is_iso(g1, g2, list(phi)):
            if _forbid_identity(p) and list(phi) == list(range(1, g1['n'] + 1)):
                continue
            cnt += 1
    return cnt


def iso_exists(p):
    if max(p['G1']['n'], _iso_target(p)['n']) > 7:
        return None
    return _isos(p) > 0


def iso_count(p):
    if max(p['G1']['n'], _iso_target(p)['n']) > 7:
        return None
    return _isos(p)


def iso_cli(p, tmpdir):
    if p.get('nontrivial'):
        return None
    if p['G2'] is None:
        return ['iso', write_graph(p['G1'], tmpdir, 'G1')]
    return ['iso', write_graph(p['G1'], tmpdir, 'G1'), '-e', write_graph(p['G2'], tmpdir, 'G2')]


# ---- subgraph ----
def subgraph_params(rng, tier):
    out = []
    gs3 = small_graphs(3)
    gs4 = small_graphs(4)
    for G in gs3:
        for H in gs3:
            for ind in (False, True):
                for sb in (False, True):
                    out.append(dict(G=G, H=H, induced=ind, symbreak=sb))
    pool = gs4 if tier == 'quick' else gs4 + _sample(rng, list(all_graphs(5)), 400)
    for _ in range(600 if tier == 'quick' else 8000):
        G, H = rng.choice(pool), rng.choice(gs4)
        out.append(dict(G=G, H=H, induced=rng.random() < 0.5, symbreak=rng.random() < 0.5))
    _mark(out, 'small')
    big = []
    for G in _random_graphs(rng, tier, 5 if tier == 'quick' else 20, nmax=25):
        H = random_graph(rng, rng.randint(2, 5), 0.6)
        big.append(dict(G=G, H=H, induced=rng.random() < 0.5, symbreak=rng.random() < 0.5))
    return out + _mark(big, 'random')


def subgraph_build(p, formula_class):
    import_impl()
    from cnfgen.families.subgraph import SubgraphFormula
    def call(G, over):
        q = dict(p, **over)
        H = G if p.get('same_object') else to_impl_graph(p['H'])
        return SubgraphFormula(G, H, induced=arg(q, 'induced'), symbreak=arg(q, 'symbreak'), formula_class=formula_class)
    return on_graph(p, 'G', call)


def subgraph_request(p):
    return cmd('fam_subgraph', *gargs(p['G']), *gargs(p['H']), p['induced'], p['symbreak'])


def _read_map(a, off, k, N):
    """s_{i,j} has identifier off+(i-1)*N+j; returns the function or None when it is not one"""
    phi = []
    for i in range(1, k + 1):
        im = [j for j in range(1, N + 1) if a[off + (i - 1) * N + j]]
        if len(im) != 1:
            return None
        phi.append(im[0])
    return phi


def _embeds(G, H, induced, symbreak, phi):
    if len(set(phi)) != len(phi):
        return False
    if symbreak and any(phi[i] >= phi[i + 1] for i in range(len(phi) - 1)):
        return False
    eg = {tuple(e) for e in G['edges']}
    eh = {tuple(e) for e in H['edges']}
    k = H['n']
    for i1 in range(1, k + 1):
        for i2 in range(i1 + 1, k + 1):
            j1, j2 = phi[i1 - 1], phi[i2 - 1]
            ge = (min(j1, j2), max(j1, j2)) in eg
            he = (i1, i2) in eh
            if he and not ge:
                return False
            if induced and ge and not he:
                return False
    return True


def subgraph_decode_ok(p, a):
    """the true variables are the graph of an injective map H -> G sending edges to edges (and non-edges
    to non-edges when induced), increasing when symbreak"""
    G, H = p['G'], p['H']
    phi = _read_map(a, 0, H['n'], G['n'])
    return phi is not None and _embeds(G, H, p['induced'], p['symbreak'], phi)


def _count_embeddings(G, H, induced, symbreak):
    N, k = G['n'], H['n']
    it = itertools.combinations(range(1, N + 1), k) if symbreak else itertools.permutations(range(1, N + 1), k)
    return sum(1 for phi in it if _embeds(G, H, induced, symbreak, list(phi)))


def subgraph_exists(p):
    if p['G']['n'] > 7:
        return None
    return _count_embeddings(p['G'], p['H'], p['induced'], p['symbreak']) > 0


def subgraph_count(p):
    if p['G']['n'] > 7:
        return None
    return _count_embeddings(p['G'], p['H'], p['induced'], p['symbreak'])


def subgraph_cli(p, tmpdir):
    if p['induced'] or p['symbreak']:
        return None
    return ['subgraph', '-G', write_graph(p['G'], tmpdir, 'G'), '-H', write_graph(p['H'], tmpdir, 'H')]


# ---- kclique / kcliquebin ----
def kclique_params(rng, tier):
    out = []
    for g in _graphs_for(rng, tier, 1024):
        for k in range(0, 6 if g['n'] <= 4 else 5):
            for sb in (True, False):
                out.append(dict(G=g, k=k, symbreak=sb))
    out.append(dict(G=mkgraph(3, [[1, 2]]), k=-1, symbreak=True))
    _mark(out, 'small')
    big = [dict(G=g, k=rng.randint(2, 6), symbreak=rng.random() < 0.5)
           for g in _random_graphs(rng, tier, 12 if tier == 'quick' else 60)]
    return out + _mark(big, 'random')


def kclique_build(p, formula_class):
    import_impl()
    from cnfgen.families.subgraph import CliqueFormula
    return on_graph(p, 'G', lambda G, over: CliqueFormula(G, p['k'], symbreak=arg(dict(p, **over), 'symbreak'), formula_class=formula_class))


def kclique_request(p):
    return cmd('fam_kclique', *gargs(p['G']), p['k'], p['symbreak'])


def _complete(k):
    return mkgraph(k, list(itertools.combinations(range(1, k + 1), 2)))


def kclique_decode_ok(p, a):
    G, k = p['G'], p['k']
    phi = _read_map(a, 0, k, G['n'])
    return phi is not None and _embeds(G, _complete(k), False, p['symbreak'], phi)


def _has_clique(G, k, edge=True):
    eg = {tuple(e) for e in G['edges']}
    for S in itertools.combinations(range(1, G['n'] + 1), k):
        if all(((u, v) in eg) == edge for u, v in itertools.combinations(S, 2)):
            return True
    return False


def _count_cliques(G, k):
    eg = {tuple(e) for e in G['edges']}
    return sum(1 for S in itertools.combinations(range(1, G['n'] + 1), k)
               if all((u, v) in eg for u, v in itertools.combinations(S, 2)))


def kclique_exists(p):
    if p['k'] < 0:
        return None
    if p['G']['n'] > 12:
        return None
    return _has_clique(p['G'], p['k'])


def _fact(k):
    r = 1
    for i in range(2, k + 1):
        r *= i
    return r


def kclique_count(p):
    if p['k'] < 0 or p['G']['n'] > 12:
        return None
    c = _count_cliques(p['G'], p['k'])
    return c if p['symbreak'] else c * _fact(p['k'])


def kclique_cli(p, tmpdir):
    if p['k'] < 0:
        return None
    return ['kclique'] + ([] if p['symbreak'] else ['--no-symmetry-breaking']) + [str(p['k']), write_graph(p['G'], tmpdir, 'G')]


def kcliquebin_params(rng, tier):
    out = []
    for g in _graphs_for(rng, tier, 1024):
        for k in range(0, 6 if g['n'] <= 4 else 5):
            for sb in (True, False):
                out.append(dict(G=g, k=k, symbreak=sb))
    _mark(out, 'small')
    big = [dict(G=g, k=rng.randint(2, 5), symbreak=rng.random() < 0.5)
           for g in _random_graphs(rng, tier, 12 if tier == 'quick' else 60, nmax=33)]
    return out + _mark(big, 'random')


def kcliquebin_build(p, formula_class):
    import_impl()
    from cnfgen.families.subgraph import BinaryCliqueFormula
    return on_graph(p, 'G', lambda G, over: BinaryCliqueFormula(G, p['k'], symbreak=arg(dict(p, **over), 'symbreak'),
                                                                formula_class=formula_class))


def kcliquebin_request(p):
    return cmd('fam_kcliquebin', *gargs(p['G']), p['k'], p['symbreak'])


def _bits(N):
    b = 0
    while (1 << b) < N:
        b += 1
    return b


def kcliquebin_decode_ok(p, a):
    """y_{i,b-1} ... y_{i,0} (identifiers (i-1)*b+1 .. i*b, most significant first) spell the vertex of the
    i-th clique member minus one"""
    G, k = p['G'], p['k']
    N = G['n']
    b = _bits(N)
    phi = []
    for i in range(1, k + 1):
        val = 0
        for q in range(1, b + 1):
            val = 2 * val + (1 if a[(i - 1) * b + q] else 0)
        if val >= N:
            return False
        phi.append(val + 1)
    return _embeds(G, _complete(k), False, p['symbreak'], phi)


def kcliquebin_exists(p):
    if p['k'] < 1 or p['G']['n'] < 1:
        return None   # ValueError (binary mapping needs a non-empty domain and range)
    if p['G']['n'] > 12:
        return None
    return _has_clique(p['G'], p['k'])


def kcliquebin_numvar(p):
    if p['k'] < 1 or p['G']['n'] < 1:
        return None
    return p['k'] * _bits(p['G']['n'])


def kcliquebin_cli(p, tmpdir):
    if not p['symbreak'] or p['k'] < 0:
        return None
    return ['kcliquebin', str(p['k']), write_graph(p['G'], tmpdir, 'G')]


# ---- ramlb ----
def ramlb_params(rng, tier):
    out = []
    for g in _graphs_for(rng, tier, 150):
        top = 5 if g['n'] <= 3 else 4
        for k in range(0, top + 1):
            for s in range(0, top + 1):
                for sb in ((True, False) if (k + s + len(g['edges'])) % 2 == 0 or g['n'] <= 3 else (True,)):
                    out.append(dict(G=g, k=k, s=s, symbreak=sb))
    _mark(out, 'small')
    big = []
    for g in _random_graphs(rng, tier, 12 if tier == 'quick' else 60, nmax=30):
        k = rng.randint(2, 5)
        big.append(dict(G=g, k=k, s=rng.choice([k, k, rng.randint(2, 5)]), symbreak=rng.random() < 0.5))
    return out + _mark(big, 'random')


def ramlb_build(p, formula_class):
    import_impl()
    from cnfgen.families.subgraph import RamseyWitnessFormula
    return on_graph(p, 'G', lambda G, over: RamseyWitnessFormula(G, p['k'], p['s'], symbreak=arg(dict(p, **over), 'symbreak'),
                                                                 formula_class=formula_class))


def ramlb_request(p):
    """the code as it is (s ignored)"""
    return cmd('fam_ramlb', *gargs(p['G']), p['k'], p['s'], p['symbreak'], Sym('as_is'))


def ramlb_request_spec(p):
    return cmd('fam_ramlb', *gargs(p['G']), p['k'], p['s'], p['symbreak'], Sym('spec'))


def ramlb_finding(p):
    return ('RamseyWitnessFormula', 'k!=s') if p['k'] != p['s'] else None


def ramlb_exists(p):
    """documented: the graph contains a k-clique or an independent set of size s"""
    if p['k'] < 0 or p['s'] < 0:
        return None
    if p['G']['n'] > 12:
        return None
    return _has_clique(p['G'], p['k'], True) or _has_clique(p['G'], p['s'], False)


def ramlb_cli(p, tmpdir):
    if not p['symbreak']:
        return None
    return ['ramlb', str(p['k']), str(p['s']), write_graph(p['G'], tmpdir, 'G')]



# --------------------------------------------------------------------------
# threshold / shape / history streams (notes/LARGE_STREAMS.md, harness/fam_streams.py)
# --------------------------------------------------------------------------
def _g(n, es):
    return {'n': n, 'edges': S.norm_edges(es)}


def _star(n, hub=1):
    return _g(n, S.star(n, hub))


def _path(n):
    return _g(n, S.path(n))


def _cycle(n):
    return _g(n, S.cycle(n))


def _two(k):
    return _g(2 * k, S.two_cycles(k))


def _kminus(n, miss):
    return _g(n, S.complete_minus(n, miss))


def _windmill(t):
    """hub 1 with t triangles: hub degree 2t, every degree even"""
    return _g(2 * t + 1, [e for i in range(t) for e in ([1, 2 * i + 2], [1, 2 * i + 3], [2 * i + 2, 2 * i + 3])])


def _with_isolated(g, extra):
    return {'n': g['n'] + extra, 'edges': g['edges']}


HUBS = (15, 16, 17, 63, 64, 65, 127, 128, 129, 256, 257)
LIN = (16, 17, 64, 65, 128, 129, 256, 257, 258, 300)


def _hist(rng, count, flagsets, mk, maxdeg=None):
    """count histories of one Graph object; mk(flags, graph dict, ops) -> param dict"""
    out = []
    for _ in range(count):
        phases = S.simple_history(rng, maxdeg=maxdeg)
        fls = flagsets(rng) if callable(flagsets) else flagsets
        for ops, fl, st in S.history_points(phases, fls):
            n, es = S.simple_fields(st)
            out.append(mk(fl, {'n': n, 'edges': es}, ops))
    return out


def _shapes(rng, flags, count, mk, per_value):
    bases = [mk(random_graph(rng, rng.randint(1, 4), 0.6)) for _ in range(count)]
    return S.flag_shapes(rng, flags, bases, per_value=per_value)


ODD_CHARGES = [2, 3, -1, 0.5, 7, 256, 1.0]         # truthy, not 0/1: documented as bool-cast
EVEN_CHARGES = [0, 0.0]
NONNUMERIC_CHARGES = ['a', [0], '', [], None]      # "any non-boolean value is interpreted via bool cast"


def tseitin_raise_class(p, exc):
    """class of a call that raised: the code adds the charges up before casting them (finding C02-tseitin-charges)"""
    ch = p.get('charges')
    if exc == 'TypeError' and ch is not None and any(not isinstance(c, (bool, int, float)) for c in ch):
        return 'non-numeric-charges'
    return None


def tseitin_streams(rng, tier):
    quick = tier == 'quick'
    out = []
    for n in LIN + (() if quick else (1000, 1025)):
        g = _path(n) if n % 2 else _cycle(n)
        out.append(dict(G=g, charges=rng.choice([None, [rng.random() < 0.5 for _ in range(n)], [True] * n])))
    out.append(dict(G=_g(300, S.hub_on_path(300, 12, hub=150)), charges=[True, False] * 150))
    out.append(dict(G=_star(13, hub=13), charges=None))
    out.append(dict(G=_two(129), charges=[True] * 129 + [False] * 128 + [True]))          # two equal components, odd / even
    out.append(dict(G=_two(128), charges=[True] * 256))
    out.append(dict(G=_with_isolated(_path(100), 20), charges=[False] * 110 + [True]))    # odd charge on an isolated vertex
    out.append(dict(G=_g(300, []), charges=[False] * 299 + [True]))
    out.append(dict(G=_g(257, []), charges=[]))
    _mark(out, 'thresholds')
    sh = []
    for _ in range(12 if quick else 80):
        n = rng.randint(1, 5)
        g = random_graph(rng, n, 0.6)
        m = rng.choice([n, n, n, max(0, n - 1), n + 2, 0, 1])
        sh.append(dict(G=g, charges=[rng.choice(ODD_CHARGES + EVEN_CHARGES + [True, False, 1]) for _ in range(m)]))
    for c in ODD_CHARGES + EVEN_CHARGES:
        sh.append(dict(G=_g(2, [[1, 2]]), charges=[c, True]))
        sh.append(dict(G=_g(3, [[1, 2], [2, 3]]), charges=[True, c]))             # shorter than the vertex count
        sh.append(dict(G=_g(2, [[1, 2]]), charges=[False, True, c, c]))         # longer: the rest is ignored
    for c in NONNUMERIC_CHARGES:
        sh.append(dict(G=_g(2, [[1, 2]]), charges=[c, True]))
    _mark(sh, 'shapes')

    def fls(r):
        return [dict(charges=r.choice([None, [r.choice([True, False, 2, 0, -1]) for _ in range(r.randint(0, 12))]])) for _ in range(4)]
    hist = _hist(rng, 8 if quick else 80, fls, lambda fl, g, ops: dict(G=g, charges=fl['charges'], ops=ops), maxdeg=6)
    return sh + _mark(hist, 'history') + out


def kcolor_streams(rng, tier):
    quick = tier == 'quick'
    out = []
    for d in HUBS:
        out.append(dict(G=_star(d + 1, hub=(1, d + 1, d // 2)[d % 3]), k=rng.choice([1, 2, 3]), functional=d % 2 == 0))
    for k in (15, 16, 17, 63, 64, 65, 127, 128, 129) + (() if quick else (255, 256, 257, 258)):
        out.append(dict(G=_path(3), k=k, functional=True))
        out.append(dict(G=_g(2, [[1, 2]]), k=k, functional=False))
    for n in LIN + (1000, 1025):
        out.append(dict(G=_path(n) if n % 2 else _cycle(n), k=2, functional=n % 4 < 2))
    out.append(dict(G=_kminus(17, [[1, 17]]), k=3, functional=True))
    out.append(dict(G=_kminus(65, [[1, 65], [32, 33]]), k=2, functional=False))
    out.append(dict(G=_two(64), k=2, functional=True))
    out.append(dict(G=_with_isolated(_star(130), 5), k=2, functional=True))
    out.append(dict(G=_g(300, []), k=1, functional=True))
    _mark(out, 'thresholds')
    sh = _shapes(rng, ['functional'], 8, lambda g: dict(G=g, k=rng.randint(0, 3)), 1 if quick else 4)
    hist = _hist(rng, 6 if quick else 60, [dict(functional=True), dict(functional=False)],
                 lambda fl, g, ops: dict(G=g, k=rng.randint(1, 3), functional=fl['functional'], ops=ops))
    return _mark(sh, 'shapes') + _mark(hist, 'history') + out


def ec_streams(rng, tier):
    out = [dict(G=_cycle(n)) for n in LIN if tier != 'quick' or n <= 129 or n == 257] + [dict(G=_two(k)) for k in (8, 64, 129)]
    out += [dict(G=_windmill(t)) for t in (1, 4, 5, 6)]                              # hub degree up to 12
    out.append(dict(G=_with_isolated(_cycle(65), 64)))
    out.append(dict(G=_g(300, [])))
    out.append(dict(G=_star(17)))                                                   # odd degrees: ValueError
    _mark(out, 'thresholds')
    hist = _hist(rng, 6 if tier == 'quick' else 60, [], lambda fl, g, ops: dict(G=g, ops=ops), maxdeg=6)
    # histories that end with all degrees even: a cycle, then one of its edges replaced by a path through new vertices
    for _ in range(4 if tier == 'quick' else 30):
        n = rng.randint(3, 8)
        vs = list(range(1, n + 1))
        rng.shuffle(vs)
        cyc = [[vs[i], vs[(i + 1) % n]] for i in range(n)]
        rng.shuffle(cyc)
        phases = [[['new', n]] + [['add'] + e for e in cyc],
                  [['rm'] + cyc[0][::-1], ['grow', n + 2], ['add', cyc[0][0], n + 2], ['add', n + 1, n + 2], ['add', n + 1, cyc[0][1]]]]
        for ops, fl, st in S.history_points(phases, []):
            nn, es = S.simple_fields(st)
            hist.append(dict(G={'n': nn, 'edges': es}, ops=ops))
    return _mark(hist, 'history') + out


def domset_streams(rng, tier):
    quick = tier == 'quick'
    out = []
    for d in HUBS:
        if quick and d in (15, 63, 127, 256):
            continue
        out.append(dict(G=_star(d + 1, hub=(1, d + 1, d // 2)[d % 3]), d=1, alternative=d % 2 == 0 and (d <= 129 or not quick)))
    out.append(dict(G=_star(130), d=2, alternative=False))
    for n in (64, 65, 128, 129, 257, 300):
        out.append(dict(G=_path(n) if n % 2 else _cycle(n), d=1, alternative=n % 4 < 2))
    for d in (15, 16, 17, 63, 64, 65):
        out.append(dict(G=_path(4), d=d, alternative=False))
        out.append(dict(G=_path(3), d=d, alternative=True))
    out.append(dict(G=_kminus(65, [[1, 65]]), d=2, alternative=False))
    out.append(dict(G=_two(33), d=3, alternative=True))
    out.append(dict(G=_with_isolated(_star(65), 3), d=4, alternative=False))
    out.append(dict(G=_g(129, []), d=2, alternative=True))
    _mark(out, 'thresholds')
    sh = _shapes(rng, ['alternative'], 8, lambda g: dict(G=g, d=rng.randint(1, 3)), 1 if quick else 4)
    hist = _hist(rng, 6 if quick else 60, [dict(alternative=False), dict(alternative=True)],
                 lambda fl, g, ops: dict(G=g, d=rng.randint(1, 3), alternative=fl['alternative'], ops=ops))
    return _mark(sh, 'shapes') + _mark(hist, 'history') + out


def tiling_streams(rng, tier):
    out = [dict(G=_star(d + 1, hub=(1, d + 1, d // 2)[d % 3])) for d in HUBS]
    out += [dict(G=_path(n) if n % 2 else _cycle(n)) for n in S.TH]
    out += [dict(G=_two(k)) for k in (8, 129)]
    out += [dict(G=_with_isolated(_star(258), 4)), dict(G=_g(300, [])), dict(G=_kminus(65, [[1, 65], [2, 3]]))]
    _mark(out, 'thresholds')
    hist = _hist(rng, 8 if tier == 'quick' else 80, [], lambda fl, g, ops: dict(G=g, ops=ops))
    return _mark(hist, 'history') + out


def iso_streams(rng, tier):
    quick = tier == 'quick'
    out = []
    for n in (15, 16, 17) + (() if quick else (32, 33)):
        out.append(dict(G1=_path(n), G2=_cycle(n), nontrivial=False))
        out.append(dict(G1=_star(n), G2=_star(n, hub=n), nontrivial=n % 2 == 0))
        out.append(dict(G1=_star(n, hub=2), G2=None, nontrivial=False))
        out.append(dict(G1=_g(n, []), G2=_g(n, []), nontrivial=True))
    out.append(dict(G1=_path(16), G2=_path(17), nontrivial=False))                      # different orders
    out.append(dict(G1=_two(8), G2=permuted(rng, _two(8)), nontrivial=False))
    out.append(dict(G1=_g(65, []), G2=_g(1, []), nontrivial=False))
    out.append(dict(G1=_g(0, []), G2=_g(129, []), nontrivial=False))
    _mark(out, 'thresholds')
    sh = S.flag_shapes(rng, ['nontrivial'], [(lambda g: dict(G1=g, G2=permuted(rng, g)))(random_graph(rng, rng.randint(1, 4), 0.5))
                                             for _ in range(8)], per_value=1 if quick else 4)
    for _ in range(6 if quick else 40):                                                   # one object for both arguments
        g = random_graph(rng, rng.randint(0, 4), 0.5)
        sh.append(dict(G1=g, G2=g, nontrivial=rng.random() < 0.5, same_object=True))
    hist = []
    for _ in range(6 if quick else 60):
        phases = S.simple_history(rng, n0=rng.randint(2, 4))
        other = rng.choice([None, 'copy', 'random'])
        for ops, fl, st in S.history_points(phases, [dict(nontrivial=False), dict(nontrivial=True)]):
            n, es = S.simple_fields(st)
            g = {'n': n, 'edges': es}
            g2 = None if other is None else permuted(rng, g) if other == 'copy' else random_graph(rng, n, 0.5)
            hist.append(dict(G1=g, G2=g2, nontrivial=fl['nontrivial'] if g2 is not None else False, ops=ops))
    return _mark(sh, 'shapes') + _mark(hist, 'history') + out


def subgraph_streams(rng, tier):
    quick = tier == 'quick'
    tri = _g(3, [[1, 2], [2, 3], [1, 3]])
    out = [dict(G=_star(258), H=_path(2), induced=False, symbreak=False),
           dict(G=_star(130, hub=130), H=_path(3), induced=True, symbreak=True),
           dict(G=_path(300), H=_path(2), induced=True, symbreak=False),
           dict(G=_kminus(65, [[1, 65], [32, 33]]), H=tri, induced=False, symbreak=True),
           dict(G=_g(129, []), H=_g(2, []), induced=True, symbreak=True),
           dict(G=_path(5), H=_path(17), induced=False, symbreak=False),                # H larger than G
           dict(G=_path(4), H=_g(16, []), induced=True, symbreak=True),
           dict(G=_cycle(17), H=_path(3), induced=False, symbreak=True),
           dict(G=_two(8), H=_cycle(4), induced=True, symbreak=False),
           dict(G=_with_isolated(_star(65), 64), H=_g(2, []), induced=True, symbreak=False)]
    if not quick:
        out += [dict(G=_kminus(129, [[1, 129], [64, 65]]), H=tri, induced=True, symbreak=True),
                dict(G=_kminus(257, [[1, 257], [128, 129]]), H=_path(2), induced=False, symbreak=False)]
    _mark(out, 'thresholds')
    sh = S.flag_shapes(rng, ['induced', 'symbreak'],
                       [dict(G=random_graph(rng, rng.randint(1, 4), 0.6), H=random_graph(rng, rng.randint(1, 3), 0.6)) for _ in range(8)],
                       per_value=1 if quick else 4)
    for _ in range(4 if quick else 30):
        g = random_graph(rng, rng.randint(0, 3), 0.5)
        sh.append(dict(G=g, H=g, induced=rng.random() < 0.5, symbreak=rng.random() < 0.5, same_object=True))
    fl4 = [dict(induced=i, symbreak=b) for i in (False, True) for b in (False, True)]
    hist = _hist(rng, 6 if quick else 60, lambda r: r.sample(fl4, 4),
                 lambda fl, g, ops: dict(G=g, H=random_graph(rng, rng.randint(1, 3), 0.6), induced=fl['induced'], symbreak=fl['symbreak'], ops=ops))
    return _mark(sh, 'shapes') + _mark(hist, 'history') + out


def kclique_streams(rng, tier):
    quick = tier == 'quick'
    out = [dict(G=_star(258), k=2, symbreak=True), dict(G=_star(130, hub=65), k=2, symbreak=False),
           dict(G=_kminus(65, [[1, 65], [32, 33]]), k=3, symbreak=False), dict(G=_two(64), k=2, symbreak=True),
           dict(G=_with_isolated(_kminus(17, [[1, 2]]), 16), k=3, symbreak=True), dict(G=_g(129, []), k=2, symbreak=True)]
    for k in (15, 16, 17, 33, 64, 65):
        out.append(dict(G=_path(4), k=k, symbreak=k % 2 == 0))
    out.append(dict(G=_kminus(17, []), k=17, symbreak=True))
    out.append(dict(G=_kminus(16, []), k=17, symbreak=False))
    if not quick:
        out += [dict(G=_kminus(129, [[1, 129], [64, 65]]), k=3, symbreak=False), dict(G=_kminus(257, [[1, 257]]), k=2, symbreak=True)]
    _mark(out, 'thresholds')
    sh = _shapes(rng, ['symbreak'], 8, lambda g: dict(G=g, k=rng.randint(0, 3)), 1 if quick else 4)
    hist = _hist(rng, 6 if quick else 60, [dict(symbreak=True), dict(symbreak=False)],
                 lambda fl, g, ops: dict(G=g, k=rng.randint(1, 3), symbreak=fl['symbreak'], ops=ops))
    return _mark(sh, 'shapes') + _mark(hist, 'history') + out


def kcliquebin_streams(rng, tier):
    """the number of bits changes at 2^b + 1 vertices"""
    quick = tier == 'quick'
    out = []
    for n in (15, 16, 17, 31, 32, 33, 63, 64, 65, 127, 128, 129):
        g = (_star(n, hub=n), _cycle(n), _kminus(n, [[1, n], [2, 3]]))[n % 3] if n < 100 else _kminus(n, [[1, n], [2, 3], [n // 2, n // 2 + 1]])
        out.append(dict(G=g, k=2, symbreak=n % 2 == 0))
    out.append(dict(G=_kminus(33, [[1, 33]]), k=3, symbreak=True))
    out.append(dict(G=_path(5), k=17, symbreak=True))
    out.append(dict(G=_with_isolated(_kminus(9, []), 8), k=3, symbreak=False))
    out.append(dict(G=_star(257), k=2, symbreak=True, only_cnf=True))
    if not quick:
        out += [dict(G=_star(n, hub=n), k=2, symbreak=True) for n in (255, 256, 258)]
        out += [dict(G=_kminus(257, [[1, 257], [128, 129], [5, 256]]), k=2, symbreak=False), dict(G=_star(65), k=3, symbreak=False)]
    _mark(out, 'thresholds')
    sh = _shapes(rng, ['symbreak'], 8, lambda g: dict(G=g, k=rng.randint(1, 3)), 1 if quick else 4)
    hist = _hist(rng, 6 if quick else 60, [dict(symbreak=True), dict(symbreak=False)],
                 lambda fl, g, ops: dict(G=g, k=rng.randint(1, 3), symbreak=fl['symbreak'], ops=ops))
    return _mark(sh, 'shapes') + _mark(hist, 'history') + out


def ramlb_streams(rng, tier):
    quick = tier == 'quick'
    out = [dict(G=_kminus(65, [[1, 65]]), k=2, s=2, symbreak=True), dict(G=_path(65), k=2, s=2, symbreak=False),
           dict(G=_star(130), k=2, s=2, symbreak=True), dict(G=_cycle(17), k=3, s=3, symbreak=True),
           dict(G=_two(16), k=3, s=3, symbreak=False), dict(G=_with_isolated(_star(17), 16), k=3, s=3, symbreak=True),
           dict(G=_path(4), k=17, s=17, symbreak=True), dict(G=_g(33, []), k=2, s=2, symbreak=False)]
    if not quick:
        out += [dict(G=_kminus(129, [[1, 129]]), k=2, s=2, symbreak=True), dict(G=_star(258), k=2, s=2, symbreak=True)]
    _mark(out, 'thresholds')
    sh = _shapes(rng, ['symbreak'], 8, lambda g: (lambda k: dict(G=g, k=k, s=k))(rng.randint(0, 3)), 1 if quick else 4)
    hist = _hist(rng, 6 if quick else 60, [dict(symbreak=True), dict(symbreak=False)],
                 lambda fl, g, ops: (lambda k: dict(G=g, k=k, s=k, symbreak=fl['symbreak'], ops=ops))(rng.randint(1, 3)))
    return _mark(sh, 'shapes') + _mark(hist, 'history') + out


def _small_default(p):
    return True


FAMILIES = [
    dict(name='tseitin', prop='C02', params=tseitin_params, streams=tseitin_streams, build=tseitin_build, request=tseitin_request,
         numvar_doc=lambda p: len(p['G']['edges']), decode_ok=tseitin_decode_ok, exists=tseitin_exists,
         cli=tseitin_cli, count=lambda p: tseitin_count(p), site='TseitinFormula', raise_class=tseitin_raise_class),
    dict(name='kcolor', prop='C02', params=kcolor_params, streams=kcolor_streams, build=kcolor_build, request=kcolor_request,
         numvar_doc=lambda p: p['G']['n'] * p['k'] if p['k'] >= 0 else None, decode_ok=kcolor_decode_ok,
         exists=kcolor_exists, cli=kcolor_cli, count=kcolor_count, site='GraphColoringFormula'),
    dict(name='ec', prop='C02', params=ec_params, streams=ec_streams, build=ec_build, request=ec_request,
         numvar_doc=lambda p: len(p['G']['edges']), decode_ok=ec_decode_ok, exists=ec_exists, cli=ec_cli,
         count=None, site='EvenColoringFormula'),
    dict(name='domset', prop='C02', params=domset_params, streams=domset_streams, build=domset_build, request=domset_request,
         numvar_doc=lambda p: p['G']['n'] * (1 + p['d']) if p['d'] > 0 else None, decode_ok=domset_decode_ok,
         exists=domset_exists, cli=domset_cli, count=None, site='DominatingSet'),
    dict(name='tiling', prop='C02', params=tiling_params, streams=tiling_streams, build=tiling_build, request=tiling_request,
         numvar_doc=lambda p: p['G']['n'], decode_ok=tiling_decode_ok, exists=tiling_exists, cli=tiling_cli,
         count=tiling_count, site='Tiling'),
    dict(name='iso', prop='C02', params=iso_params, streams=iso_streams, build=iso_build, request=iso_request,
         request_spec=iso_request_spec, finding=iso_finding,
         numvar_doc=lambda p: p['G1']['n'] * _iso_target(p)['n'], decode_ok=iso_decode_ok, exists=iso_exists,
         cli=iso_cli, count=iso_count, site='GraphIsomorphism'),
    dict(name='subgraph', prop='C02', params=subgraph_params, streams=subgraph_streams, build=subgraph_build, request=subgraph_request,
         numvar_doc=lambda p: p['G']['n'] * p['H']['n'], decode_ok=subgraph_decode_ok, exists=subgraph_exists,
         cli=subgraph_cli, count=subgraph_count, site='SubgraphFormula'),
    dict(name='kclique', prop='C02', params=kclique_params, streams=kclique_streams, build=kclique_build, request=kclique_request,
         numvar_doc=lambda p: p['G']['n'] * p['k'] if p['k'] >= 0 else None, decode_ok=kclique_decode_ok,
         exists=kclique_exists, cli=kclique_cli, count=kclique_count, site='CliqueFormula'),
    dict(name='kcliquebin', prop='C02', params=kcliquebin_params, streams=kcliquebin_streams, build=kcliquebin_build, request=kcliquebin_request,
         numvar_doc=kcliquebin_numvar, decode_ok=kcliquebin_decode_ok, exists=kcliquebin_exists, cli=kcliquebin_cli,
         count=kclique_count, site='BinaryCliqueFormula'),
    dict(name='ramlb', prop='C02', params=ramlb_params, streams=ramlb_streams, build=ramlb_build, request=ramlb_request,
         request_spec=ramlb_request_spec, finding=ramlb_finding,
         numvar_doc=None, decode_ok=None, exists=ramlb_exists, cli=ramlb_cli, count=None,
         site='RamseyWitnessFormula'),
]
