"""Registry of the C01 formula families (pigeonhole, counting, matching, subset
cardinality, clique-colouring).  See notes/AGENT_GUIDE.md ("FORMULA FAMILY slices").

Every entry of FAMILIES is a dict
    name, prop, params(rng, tier), build(p, formula_class), request(p), numvar_doc(p),
    decode_ok(p, a), exists(p), cli(p, tmpdir)
`build`, `request` and `cli` are side-effect free (cli writes graph files under tmpdir only).

The oracles `decode_ok` / `exists` are written from the DOCUMENTATION of the
families only (docstrings of cnfgen/families/*.py): they never look at clauses.
Documented variable order: the variables of a group are numbered in the order of
its indices (pairs (i,j) lexicographically; edges by first then second endpoint;
p-subsets in the order of itertools.combinations); groups follow each other in
the order in which the docstring/code introduces them.

Parameter dicts are JSON-able.  Graphs: bipartite = {'L','R','adj'} with adj[u-1] the
sorted list of right neighbours of left vertex u; simple = {'n','edges'} with edges
(u<v) sorted lexicographically.  Key 'big': True marks an instance meant for the
cheap comparison only (no brute force).
"""
import itertools
import os

from lib import cmd
import fam_streams as S
from fam_streams import arg


# ----------------------------------------------------------------------------
# small helpers
# ----------------------------------------------------------------------------
def _impl():
    from lib import import_impl
    import_impl()


def all_bipartite(L, R):
    """all bipartite graphs on L+R vertices as adjacency lists"""
    cells = [(u, v) for u in range(1, L + 1) for v in range(1, R + 1)]
    for bits in range(1 << len(cells)):
        adj = [[] for _ in range(L)]
        for k, (u, v) in enumerate(cells):
            if (bits >> k) & 1:
                adj[u - 1].append(v)
        yield adj


def all_simple(n):
    cells = [(u, v) for u in range(1, n + 1) for v in range(u + 1, n + 1)]
    for bits in range(1 << len(cells)):
        yield [list(e) for k, e in enumerate(cells) if (bits >> k) & 1]


def random_bipartite(rng, L, R, density, isolated=0.15, maxdeg=None):
    """random bipartite graph; some left/right vertices are forced to be isolated"""
    dead_l = {u for u in range(1, L + 1) if rng.random() < isolated}
    dead_r = {v for v in range(1, R + 1) if rng.random() < isolated}
    adj = []
    rdeg = {}
    for u in range(1, L + 1):
        row = []
        if u not in dead_l:
            for v in range(1, R + 1):
                if v in dead_r or rng.random() >= density:
                    continue
                if maxdeg is not None and (len(row) >= maxdeg or rdeg.get(v, 0) >= maxdeg):
                    continue
                row.append(v)
                rdeg[v] = rdeg.get(v, 0) + 1
        adj.append(row)
    return adj


def random_simple(rng, n, density, isolated=0.15):
    dead = {u for u in range(1, n + 1) if rng.random() < isolated}
    return [[u, v] for u in range(1, n + 1) for v in range(u + 1, n + 1)
            if u not in dead and v not in dead and rng.random() < density]


def on_graph(p, plain, call):
    """call(G, overrides) on the graph argument of p: built by plain(p) or, for the history stream (p['ops'] is a
    list of public API calls, see fam_streams), by replaying them -- the generator is then called on the same
    object at every 'gen' op and the value of the last call is returned."""
    _impl()
    if 'ops' in p:
        return S.replay(p['ops'], call)
    return call(plain(p), {})


def build_bipartite(p):
    _impl()
    if 'ops' in p:
        return S.build_only(p['ops'])
    from cnfgen.graphs import BipartiteGraph
    B = BipartiteGraph(p['L'], p['R'])
    edges = [(u + 1, v) for u, row in enumerate(p['adj']) for v in row]
    # insertion order must not matter: insert in reverse
    for u, v in reversed(edges):
        B.add_edge(u, v)
    return B


def build_simple(p):
    _impl()
    if 'ops' in p:
        return S.build_only(p['ops'])
    from cnfgen.graphs import Graph
    G = Graph(p['n'])
    for k, (u, v) in enumerate(reversed(p['edges'])):
        if k % 2:
            G.add_edge(v, u)
        else:
            G.add_edge(u, v)
    return G


def write_graph_file(G, tmpdir, kind, stem):
    from cnfgen.graphs import writeGraph
    path = os.path.join(tmpdir, '%s.kthlist' % stem)
    writeGraph(G, path, kind, 'kthlist')
    return path


def edge_ids(p):
    """documented numbering of the edges of a bipartite graph"""
    ids = {}
    k = 0
    for u, row in enumerate(p['adj']):
        for v in row:
            k += 1
            ids[(u + 1, v)] = k
    return ids


def has_left_saturating_matching(adj, L):
    """is there an injective choice of a neighbour for every left vertex (brute force)"""
    def go(u, used):
        if u == L:
            return True
        return any(v not in used and go(u + 1, used | {v}) for v in adj[u])
    return go(0, frozenset())


# ----------------------------------------------------------------------------
# PigeonholePrinciple
# ----------------------------------------------------------------------------
def php_params(rng, tier):
    top = 4 if tier == 'quick' else 6
    out = [dict(m=m, n=n, functional=f, onto=o) for m in range(top + 1) for n in range(top + 1)
           for f in (False, True) for o in (False, True)]
    k = 14 if tier == 'quick' else 50
    hi = (70, 45) if tier == 'quick' else (120, 60)
    for i in range(k):
        m, n = rng.randint(5, hi[0]), rng.randint(3, hi[1])
        if i == 0:
            m, n = hi
        if i == 1:
            m, n = hi[1], hi[0]
        out.append(dict(m=m, n=n, functional=rng.random() < .5, onto=rng.random() < .5, big=True))
    for (m, n) in ((0, 17), (17, 0), (1, 23), (23, 1)):
        out.append(dict(m=m, n=n, functional=True, onto=True, big=True))
    return out


def php_build(p, formula_class):
    _impl()
    from cnfgen.families.pigeonhole import PigeonholePrinciple
    return PigeonholePrinciple(p['m'], p['n'], functional=arg(p, 'functional'), onto=arg(p, 'onto'), formula_class=formula_class)


def php_decode_ok(p, a):
    m, n = p['m'], p['n']
    x = lambda i, j: a[(i - 1) * n + j]
    if not all(any(x(i, j) for j in range(1, n + 1)) for i in range(1, m + 1)):
        return False      # every pigeon sits somewhere
    if any(sum(1 for i in range(1, m + 1) if x(i, j)) > 1 for j in range(1, n + 1)):
        return False      # no collisions
    if p['functional'] and any(sum(1 for j in range(1, n + 1) if x(i, j)) > 1 for i in range(1, m + 1)):
        return False
    if p['onto'] and not all(any(x(i, j) for i in range(1, m + 1)) for j in range(1, n + 1)):
        return False
    return True


def php_exists(p):
    m, n = p['m'], p['n']
    if m > 7 or n > 7:
        return None
    # a placement exists iff an injective map exists, plus for onto: holes can all be covered
    inj = any(True for _ in itertools.permutations(range(n), m)) if m <= n else False
    if not inj:
        return False
    if p['onto']:
        if p['functional']:
            return m == n          # injective function that is onto: a bijection
        return m >= 1 or n == 0    # one pigeon may sit in many holes
    return True


def php_cli(p, tmpdir):
    return ['php', str(p['m']), str(p['n'])] + (['--functional'] if p['functional'] else []) + (['--onto'] if p['onto'] else [])


# ----------------------------------------------------------------------------
# GraphPigeonholePrinciple
# ----------------------------------------------------------------------------
def bip_sizes(tier):
    if tier == 'quick':
        return [(L, R) for L in range(4) for R in range(3)]
    return [(L, R) for L in range(4) for R in range(4)] + [(4, 1), (4, 2), (1, 4), (2, 4)]


def gphp_params(rng, tier):
    out = []
    for (L, R) in bip_sizes(tier):
        for adj in all_bipartite(L, R):
            for f in (False, True):
                for o in (False, True):
                    out.append(dict(L=L, R=R, adj=adj, functional=f, onto=o))
    k = 16 if tier == 'quick' else 120
    for i in range(k):
        L, R = rng.randint(3, 20), rng.randint(3, 20)
        if i == 0:
            L, R = 20, 20
        if i == 1:
            L, R = 5, 35
        if i == 2:
            L, R = 35, 5
        dens = rng.uniform(0.1, 0.9)
        out.append(dict(L=L, R=R, adj=random_bipartite(rng, L, R, dens), functional=rng.random() < .5,
                        onto=rng.random() < .5, big=True, density=round(dens, 2)))
    return out


def gphp_build(p, formula_class):
    _impl()
    from cnfgen.families.pigeonhole import GraphPigeonholePrinciple
    def call(B, over):
        q = dict(p, **over)
        return GraphPigeonholePrinciple(B, functional=arg(q, 'functional'), onto=arg(q, 'onto'), formula_class=formula_class)
    return on_graph(p, build_bipartite, call)


def gphp_decode_ok(p, a):
    ids = edge_ids(p)
    L, R = p['L'], p['R']
    chosen = {e for e, k in ids.items() if a[k]}
    ldeg = [sum(1 for (u, v) in chosen if u == x) for x in range(1, L + 1)]
    rdeg = [sum(1 for (u, v) in chosen if v == y) for y in range(1, R + 1)]
    if any(d < 1 for d in ldeg) or any(d > 1 for d in rdeg):
        return False
    if p['functional'] and any(d > 1 for d in ldeg):
        return False
    if p['onto'] and any(d < 1 for d in rdeg):
        return False
    return True


def gphp_exists(p):
    L, R = p['L'], p['R']
    if L > 6 or R > 6:
        return None
    ids = edge_ids(p)
    edges = sorted(ids)
    if len(edges) > 16:
        return None
    for bits in range(1 << len(edges)):
        a = [None] + [bool((bits >> k) & 1) for k in range(len(edges))]
        if gphp_decode_ok(p, a):
            return True
    return False


def gphp_cli(p, tmpdir):
    B = build_bipartite(p)
    path = write_graph_file(B, tmpdir, 'bipartite', 'gphp')
    return ['php', path] + (['--functional'] if p['functional'] else []) + (['--onto'] if p['onto'] else [])


# ----------------------------------------------------------------------------
# BinaryPigeonholePrinciple
# ----------------------------------------------------------------------------
def bphp_params(rng, tier):
    top = 4 if tier == 'quick' else 6
    out = [dict(m=m, n=n) for m in range(top + 1) for n in range(top + 3)]
    k = 6 if tier == 'quick' else 14
    hi = (20, 40) if tier == 'quick' else (40, 70)
    for i in range(k):
        out.append(dict(m=rng.randint(2, hi[0]), n=rng.randint(2, hi[1]), big=True))
    if tier != 'quick':
        out.append(dict(m=12, n=129, big=True))
    for n in (8, 9, 16, 17, 31, 32, 33, 64):
        out.append(dict(m=3, n=n, big=True))
    return out


def bphp_build(p, formula_class):
    _impl()
    from cnfgen.families.pigeonhole import BinaryPigeonholePrinciple
    return BinaryPigeonholePrinciple(p['m'], p['n'], formula_class=formula_class)


def nbits(n):
    b = 0
    while (1 << b) < n:
        b += 1
    return b


def bphp_decode_ok(p, a):
    m, n = p['m'], p['n']
    if m == 0:
        return True
    if n == 0:
        return False
    b = nbits(n)
    holes = []
    for i in range(1, m + 1):
        bits = [a[(i - 1) * b + t] for t in range(1, b + 1)]   # most significant first
        h = 0
        for x in bits:
            h = 2 * h + (1 if x else 0)
        holes.append(h)
    return all(h < n for h in holes) and len(set(holes)) == m


def bphp_exists(p):
    m, n = p['m'], p['n']
    if m > 7 or n > 9:
        return None
    return any(True for _ in itertools.permutations(range(n), m))   # an injective map [m] -> [n]


def bphp_numvar(p):
    if p['m'] < 1 or p['n'] < 1:
        return 0
    return p['m'] * nbits(p['n'])


def bphp_cli(p, tmpdir):
    if p['m'] < 1 or p['n'] < 1:
        return None
    return ['bphp', str(p['m']), str(p['n'])]


# ----------------------------------------------------------------------------
# RelativizedPigeonholePrinciple
# ----------------------------------------------------------------------------
def rphp_params(rng, tier):
    top = 3 if tier == 'quick' else 4
    out = [dict(m=m, r=r, n=n) for m in range(top + 1) for r in range(top + 1) for n in range(top + 1)]
    if tier != 'quick':
        out += [dict(m=m, r=r, n=n) for (m, r, n) in ((5, 2, 1), (1, 5, 2), (2, 1, 5), (5, 5, 1), (0, 6, 6), (6, 0, 6), (6, 6, 0))]
    k = 12 if tier == 'quick' else 60
    hi = 12 if tier == 'quick' else 25
    for i in range(k):
        out.append(dict(m=rng.randint(0, hi), r=rng.randint(0, hi), n=rng.randint(0, hi), big=True))
    return out


def rphp_build(p, formula_class):
    _impl()
    from cnfgen.families.pigeonhole import RelativizedPigeonholePrinciple
    return RelativizedPigeonholePrinciple(p['m'], p['r'], p['n'], formula_class=formula_class)


def rphp_decode_ok(p, a):
    """pigeons rest in places (no two in the same place), a place with a pigeon is active,
    the pigeon of an active place flies to a hole, no two active places share a hole"""
    m, r, n = p['m'], p['r'], p['n']
    P = lambda u, v: a[(u - 1) * r + v]
    Q = lambda v, w: a[m * r + (v - 1) * n + w]
    S = lambda v: a[m * r + r * n + v]
    for u in range(1, m + 1):
        if not any(P(u, v) for v in range(1, r + 1)):
            return False
    for v in range(1, r + 1):
        if sum(1 for u in range(1, m + 1) if P(u, v)) > 1:
            return False
        if any(P(u, v) for u in range(1, m + 1)) and not S(v):
            return False
        if S(v) and not any(Q(v, w) for w in range(1, n + 1)):
            return False
    for w in range(1, n + 1):
        if sum(1 for v in range(1, r + 1) if S(v) and Q(v, w)) > 1:
            return False
    return True


def rphp_exists(p):
    m, r, n = p['m'], p['r'], p['n']
    if max(m, r, n) > 6:
        return None
    # pigeons -> distinct resting places -> distinct holes
    return any(True for _ in itertools.permutations(range(r), m)) and any(True for _ in itertools.permutations(range(n), m)) \
        if (m <= r and m <= n) else False


# ----------------------------------------------------------------------------
# CountingPrinciple
# ----------------------------------------------------------------------------
def comb(n, k):
    if k < 0 or k > n:
        return 0
    x = 1
    for i in range(k):
        x = x * (n - i) // (i + 1)
    return x


def count_params(rng, tier):
    topM, topp = (5, 4) if tier == 'quick' else (7, 5)
    out = [dict(M=M, p=q) for M in range(topM + 1) for q in range(1, topp + 1)]
    out += [dict(M=6, p=2), dict(M=6, p=3), dict(M=3, p=7)]
    k = 10 if tier == 'quick' else 40
    hi = 11 if tier == 'quick' else 15
    n = 0
    while n < k:
        M, q = rng.randint(5, hi), rng.randint(1, 5)
        if comb(M - 1, q - 1) > 130:
            continue
        out.append(dict(M=M, p=q, big=True))
        n += 1
    return out


def count_build(p, formula_class):
    _impl()
    from cnfgen.families.counting import CountingPrinciple
    return CountingPrinciple(p['M'], p['p'], formula_class=formula_class)


def count_decode_ok(p, a):
    M, q = p['M'], p['p']
    blocks = [S for k, S in enumerate(itertools.combinations(range(1, M + 1), q)) if a[k + 1]]
    return all(sum(1 for S in blocks if i in S) == 1 for i in range(1, M + 1))


def count_exists(p):
    M, q = p['M'], p['p']
    if M > 9:
        return None

    def go(rest):
        if not rest:
            return True
        x = rest[0]
        if len(rest) < q:
            return False
        return any(go([y for y in rest if y != x and y not in S]) for S in itertools.combinations(rest[1:], q - 1))
    return go(list(range(1, M + 1)))


def count_cli(p, tmpdir):
    return ['count', str(p['M']), str(p['p'])]


# ----------------------------------------------------------------------------
# PerfectMatchingPrinciple
# ----------------------------------------------------------------------------
def matching_params(rng, tier):
    top = 4 if tier == 'quick' else 5
    out = [dict(n=n, edges=es) for n in range(top + 1) for es in all_simple(n)]
    k = 16 if tier == 'quick' else 120
    for i in range(k):
        n = rng.randint(5, 40 if i % 2 else 14)
        dens = rng.uniform(0.1, 0.9)
        if n > 25:
            dens = min(dens, 0.5)
        out.append(dict(n=n, edges=random_simple(rng, n, dens), big=True, density=round(dens, 2)))
    return out


def matching_build(p, formula_class):
    _impl()
    from cnfgen.families.counting import PerfectMatchingPrinciple
    return on_graph(p, build_simple, lambda G, over: PerfectMatchingPrinciple(G, formula_class=formula_class))


def matching_decode_ok(p, a):
    chosen = [e for k, e in enumerate(p['edges']) if a[k + 1]]
    return all(sum(1 for (u, v) in chosen if x in (u, v)) == 1 for x in range(1, p['n'] + 1))


def matching_exists(p):
    n, edges = p['n'], [tuple(e) for e in p['edges']]
    if n > 8:
        return None

    def go(rest):
        if not rest:
            return True
        x = rest[0]
        return any(go([y for y in rest if y != x and y != w]) for w in rest[1:] if (x, w) in edges or (w, x) in edges)
    return go(list(range(1, n + 1)))


def matching_cli(p, tmpdir):
    return ['matching', write_graph_file(build_simple(p), tmpdir, 'simple', 'matching')]


# ----------------------------------------------------------------------------
# SubsetCardinalityFormula
# ----------------------------------------------------------------------------
def subsetcard_params(rng, tier):
    out = []
    for (L, R) in bip_sizes(tier):
        for adj in all_bipartite(L, R):
            for eq in (False, True):
                out.append(dict(L=L, R=R, adj=adj, equalities=eq))
    k = 16 if tier == 'quick' else 120
    for i in range(k):
        if i % 2:
            L, R = rng.randint(3, 20), rng.randint(3, 20)
            dens = rng.uniform(0.1, 0.5)
            adj = random_bipartite(rng, L, R, dens, maxdeg=9)
        else:
            L, R = rng.randint(2, 9), rng.randint(2, 9)
            dens = rng.uniform(0.1, 0.9)
            adj = random_bipartite(rng, L, R, dens)
        out.append(dict(L=L, R=R, adj=adj, equalities=rng.random() < .5, big=True, density=round(dens, 2)))
    return out


def subsetcard_build(p, formula_class):
    _impl()
    from cnfgen.families.subsetcardinality import SubsetCardinalityFormula
    def call(B, over):
        return SubsetCardinalityFormula(B, arg(dict(p, **over), 'equalities'), formula_class=formula_class)
    return on_graph(p, build_bipartite, call)


def subsetcard_decode_ok(p, a):
    ids = edge_ids(p)
    for x in range(1, p['L'] + 1):
        row = [k for (u, v), k in ids.items() if u == x]
        s = sum(1 for k in row if a[k])
        if p['equalities']:
            if s != (len(row) + 1) // 2:
                return False
        elif 2 * s < len(row):
            return False
    for y in range(1, p['R'] + 1):
        col = [k for (u, v), k in ids.items() if v == y]
        s = sum(1 for k in col if a[k])
        if p['equalities']:
            if s != len(col) // 2:
                return False
        elif 2 * s > len(col):
            return False
    return True


def subsetcard_exists(p):
    ne = sum(len(r) for r in p['adj'])
    if ne > 14:
        return None
    for bits in range(1 << ne):
        if subsetcard_decode_ok(p, [None] + [bool((bits >> k) & 1) for k in range(ne)]):
            return True
    return False


def subsetcard_cli(p, tmpdir):
    path = write_graph_file(build_bipartite(p), tmpdir, 'bipartite', 'subsetcard')
    return ['subsetcard', path] + (['--equal'] if p['equalities'] else [])


# ----------------------------------------------------------------------------
# CliqueColoring
# ----------------------------------------------------------------------------
def cliquecol_params(rng, tier):
    top = 3 if tier == 'quick' else 4
    out = [dict(n=n, k=k, c=c) for n in range(top + 1) for k in range(top + 1) for c in range(top + 1)]
    kk = 12 if tier == 'quick' else 60
    hi = 9 if tier == 'quick' else 14
    for i in range(kk):
        out.append(dict(n=rng.randint(3, hi), k=rng.randint(0, 7), c=rng.randint(0, 7), big=True))
    return out


def cliquecol_build(p, formula_class):
    _impl()
    from cnfgen.families.cliquecoloring import CliqueColoring
    return CliqueColoring(p['n'], p['k'], p['c'], formula_class=formula_class)


def cliquecol_decode_ok(p, a):
    """a graph on n vertices (e), an injective function [k]->[n] onto a clique (q),
    a function [n]->[c] that is a proper colouring (r)"""
    n, k, c = p['n'], p['k'], p['c']
    pairs = list(itertools.combinations(range(1, n + 1), 2))
    eid = {e: i + 1 for i, e in enumerate(pairs)}
    ne = len(pairs)
    E = lambda u, v: a[eid[(min(u, v), max(u, v))]]
    Q = lambda i, v: a[ne + (i - 1) * n + v]
    Rr = lambda v, l: a[ne + k * n + (v - 1) * c + l]
    member = []
    for i in range(1, k + 1):
        vs = [v for v in range(1, n + 1) if Q(i, v)]
        if len(vs) != 1:
            return False
        member.append(vs[0])
    if len(set(member)) != k:
        return False
    if any(not E(u, v) for u, v in itertools.combinations(member, 2)):
        return False
    colour = []
    for v in range(1, n + 1):
        ls = [l for l in range(1, c + 1) if Rr(v, l)]
        if len(ls) != 1:
            return False
        colour.append(ls[0])
    return all(not (E(u, v) and colour[u - 1] == colour[v - 1]) for (u, v) in pairs)


def cliquecol_exists(p):
    n, k, c = p['n'], p['k'], p['c']
    if n > 5:
        return None
    # brute force over graphs is too much; use: a graph with a k-clique and a c-colouring exists iff
    # the k-clique itself (plus isolated vertices) is c-colourable: search colourings of that graph.
    if k > n:
        return False
    for col in itertools.product(range(c), repeat=n):
        if len(set(col[:k])) == k:
            return True
    return False


def cliquecol_cli(p, tmpdir):
    if p['k'] < 1 or p['c'] < 1:
        return None
    return ['cliquecoloring', str(p['n']), str(p['k']), str(p['c'])]



# ----------------------------------------------------------------------------
# threshold / shape / history streams (notes/LARGE_STREAMS.md, harness/fam_streams.py)
# ----------------------------------------------------------------------------
def _st(ps, stream):
    for q in ps:
        q['stream'] = stream
        q['big'] = True
    return ps


BB = [(False, False), (False, True), (True, False), (True, True)]


def php_streams(rng, tier):
    quick = tier == 'quick'
    out = []
    for t in S.TH:
        for (m, n) in ((1, t), (t, 1), (2, t), (t, 2), (3, t)):
            cost = lambda f: n * m * (m - 1) // 2 + (m * n * (n - 1) // 2 if f else 0)
            for (f, o) in BB:
                if cost(f) > (17000 if quick else 600000) and not (quick and (m, n, f, o) in ((2, 257, True, True), (257, 2, False, True))):
                    continue
                if t > 129 and (f, o) in ((False, True), (True, False)) and rng.random() < 0.5:
                    continue
                out.append(dict(m=m, n=n, functional=f, onto=o))
    out += [dict(m=16, n=17, functional=True, onto=True), dict(m=17, n=16, functional=True, onto=False),
            dict(m=33, n=32, functional=False, onto=True)]
    _st(out, 'thresholds')
    sh = S.flag_shapes(rng, ['functional', 'onto'], [dict(m=m, n=n) for m in range(0, 5) for n in range(0, 5)], per_value=1 if quick else 4)
    return _st(sh, 'shapes') + out


def bphp_streams(rng, tier):
    quick = tier == 'quick'
    ns = sorted(set(S.TH + [31, 32, 33, 511, 512, 513, 1023, 1024]))
    out = [dict(m=2, n=n) for n in ns] + [dict(m=3, n=n) for n in ns if n <= (129 if quick else 1025)]
    out += [dict(m=m, n=n) for m in (15, 16, 17, 64, 65) for n in (2, 3, 4, 5)]
    if not quick:
        out += [dict(m=m, n=n) for m in (128, 129, 257) for n in (2, 3)] + [dict(m=1, n=n) for n in (2047, 2048, 2049, 4097)]
    return _st(out, 'thresholds')


def rphp_streams(rng, tier):
    quick = tier == 'quick'
    out = []
    for t in S.TH:
        out += [dict(m=1, r=1, n=t), dict(m=2, r=2, n=t), dict(m=0, r=t, n=0), dict(m=t, r=0, n=t)]
        if t <= (258 if quick else 1025):
            out += [dict(m=t, r=1, n=1)]
        if t <= (65 if quick else 300):
            out += [dict(m=1, r=t, n=1), dict(m=2, r=t, n=2)]
        if t <= (65 if quick else 129):
            out += [dict(m=t, r=2, n=2), dict(m=t, r=2, n=1)]
    if quick:
        out += [dict(m=1, r=129, n=1), dict(m=129, r=2, n=1), dict(m=1, r=257, n=0)]
    return _st(out, 'thresholds')


def count_streams(rng, tier):
    quick = tier == 'quick'
    out = [dict(M=M, p=1) for M in S.TH if M <= (300 if quick else 1025)]
    out += [dict(M=M, p=2) for M in (15, 16, 17, 24, 33)]
    out += [dict(M=M, p=3) for M in (15, 16, 17)]
    out += [dict(M=M, p=M - d) for M in (15, 16, 17) for d in (0, 1)] + [dict(M=M, p=M + 1) for M in (15, 16, 17)]
    if not quick:
        out += [dict(M=M, p=2) for M in (63, 64, 65)] + [dict(M=20, p=20), dict(M=20, p=19), dict(M=18, p=16)]
    return _st(out, 'thresholds')


HUBS = (15, 16, 17, 63, 64, 65, 127, 128, 129, 256, 257)


def matching_streams(rng, tier):
    out = []
    for d in HUBS:
        n = d + 1
        out.append(dict(n=n, edges=S.star(n, hub=(1, n, n // 2)[d % 3])))
    out.append(dict(n=262, edges=S.star(258) + [[259, 260]]))                 # hub of degree 257 and isolated vertices
    for n in (16, 17, 64, 65, 128, 129, 256, 257, 258, 300, 1000, 1025):
        out.append(dict(n=n, edges=S.path(n) if n % 2 else S.cycle(n)))
    out += [dict(n=2 * k, edges=S.two_cycles(k)) for k in (8, 64, 128, 129)]
    out += [dict(n=n, edges=[]) for n in (17, 300)]
    out.append(dict(n=40, edges=S.hub_on_path(40, 17, hub=40)))
    out.append(dict(n=20, edges=S.complete_minus(20, [[1, 20], [3, 4]])))
    _st(out, 'thresholds')
    hist = []
    for i in range(8 if tier == 'quick' else 80):
        for ops, fl, st in S.history_points(S.simple_history(rng), []):
            n, es = S.simple_fields(st)
            hist.append(dict(n=n, edges=es, ops=ops))
    return _st(hist, 'history') + out


def _ring(L, R, d):
    """left vertex i sees i, i+1, ..., i+d-1 (mod R): all degrees about d when L = R"""
    return [sorted({1 + ((i + j) % R) for j in range(d)}) if R else [] for i in range(L)]


def _huge_sides(rng, tier):
    """vertex NUMBERS of 65535 and more on a sparse graph (formula of a handful of variables)"""
    out = []
    for R in (65535, 65536, 65537, 70000):
        adj = [sorted({1, R - 1, R}), sorted({R - 2, R}) if R % 2 else sorted({65535, R}), [], [2, R]]
        out.append(dict(L=4, R=R, adj=adj, fast=True))
    out.append(dict(L=2, R=131073, adj=[[65536, 65537, 131072, 131073], [1, 65537]], fast=True))
    L = 65537
    out.append(dict(L=L, R=3, adj=[[1, 2]] + [[] for _ in range(L - 3)] + [[2, 3], [1, 3]], fast=True))
    return out


def gphp_streams(rng, tier):
    quick = tier == 'quick'
    out = []
    for d in HUBS:
        fo = rng.sample(BB, 2)
        out.append(dict(L=1, R=d, adj=[list(range(1, d + 1))], functional=fo[0][0], onto=fo[0][1]))
        out.append(dict(L=d, R=2, adj=[[1] if i % 5 else [1, 2] for i in range(d)], functional=fo[1][0], onto=fo[1][1]))
        out.append(dict(L=3, R=d + 2, adj=[[1, d + 2], list(range(2, d + 2)), []], functional=True, onto=True))
    for t in (16, 17, 64, 65, 128, 129, 256, 257, 258, 300, 1000, 1025):
        (f, o) = rng.choice(BB)
        out.append(dict(L=t, R=t, adj=_ring(t, t, 2), functional=f, onto=o))
        out.append(dict(L=0, R=t, adj=[], functional=f, onto=not o))                       # empty sides
        out.append(dict(L=t, R=0, adj=[[] for _ in range(t)], functional=not f, onto=o))
    out.append(dict(L=16, R=17, adj=_ring(16, 17, 17), functional=True, onto=True))       # complete
    out.append(dict(L=130, R=130, adj=_ring(65, 65, 3) + [[v + 65 for v in r] for r in _ring(65, 65, 3)], functional=False, onto=True))  # two equal components
    for i, q in enumerate(_huge_sides(rng, tier)):
        if quick and q['R'] in (65535, 131073):
            continue
        for (f, o) in (BB if not quick else [BB[(i + 2) % 4]]):
            out.append(dict(q, functional=f, onto=o))
    _st(out, 'thresholds')
    sh = S.flag_shapes(rng, ['functional', 'onto'],
                       [dict(L=L, R=R, adj=random_bipartite(rng, L, R, 0.6)) for L in range(1, 4) for R in range(1, 4)], per_value=1 if quick else 4)
    hist = []
    for i in range(8 if quick else 80):
        phases = S.bipartite_history(rng)
        fls = [dict(functional=f, onto=o) for (f, o) in rng.sample(BB, 3)]
        for ops, fl, st in S.history_points(phases, fls):
            hist.append(dict(fl, L=st['L'], R=st['R'], adj=S.bip_adj(st), ops=ops))
    return _st(sh, 'shapes') + _st(hist, 'history') + out


def subsetcard_streams(rng, tier):
    quick = tier == 'quick'
    out = []
    for d in (8, 9, 11, 12):           # the CNF of a majority over d edges has C(d, d/2) clauses: degrees stay small
        out.append(dict(L=1, R=d, adj=[list(range(1, d + 1))], equalities=d % 2 == 0))
        out.append(dict(L=d, R=1, adj=[[1] for _ in range(d)], equalities=d % 2 == 1))
    for t in (16, 17, 64, 65, 128, 129, 256, 257, 258, 300, 1000, 1025):
        out.append(dict(L=t, R=t, adj=_ring(t, t, 3 if t % 2 else 4), equalities=t % 4 < 2))
        out.append(dict(L=0, R=t, adj=[], equalities=t % 2 == 0))
        out.append(dict(L=t, R=0, adj=[[] for _ in range(t)], equalities=t % 2 == 1))
        if t <= 300:
            out.append(dict(L=t, R=2 * t, adj=[[i + 1, t + i + 1] for i in range(t)], equalities=t % 3 == 0))    # right degree 1, left 2
    for i, q in enumerate(_huge_sides(rng, tier)):
        if quick and q['R'] not in (65536, 70000):
            continue
        for eq in ((False, True) if not quick else (i % 2 == 0,)):
            out.append(dict(q, equalities=eq))
    _st(out, 'thresholds')
    sh = S.flag_shapes(rng, ['equalities'],
                       [dict(L=L, R=R, adj=random_bipartite(rng, L, R, 0.6)) for L in range(1, 4) for R in range(1, 4)], per_value=1 if quick else 4)
    hist = []
    for i in range(8 if quick else 80):
        phases = S.bipartite_history(rng, maxdeg=8)
        fls = [dict(equalities=e) for e in rng.sample([False, True, False, True], 3)]
        for ops, fl, st in S.history_points(phases, fls):
            hist.append(dict(fl, L=st['L'], R=st['R'], adj=S.bip_adj(st), ops=ops))
    return _st(sh, 'shapes') + _st(hist, 'history') + out


def cliquecol_streams(rng, tier):
    out = [dict(n=n, k=k, c=c) for (n, k, c) in
           ((15, 2, 2), (16, 2, 2), (17, 2, 2), (16, 3, 3), (17, 1, 3), (33, 2, 1), (8, 15, 2), (8, 16, 2), (8, 17, 2), (8, 2, 15), (8, 2, 16),
            (8, 2, 17), (5, 33, 1), (5, 1, 33), (17, 17, 0), (17, 0, 17), (32, 1, 1), (33, 1, 1))]
    if tier != 'quick':
        out += [dict(n=n, k=k, c=c) for (n, k, c) in ((63, 1, 1), (64, 1, 1), (65, 1, 1), (65, 2, 2), (4, 65, 1), (4, 1, 65), (4, 129, 1), (4, 2, 257))]
    return _st(out, 'thresholds')


# instances on which the *_fast driver commands are compared with the extracted functions themselves
def fast_check_params(rng, tier):
    out = []
    for R in (0, 1, 7, 300, 3000):
        for L in (0, 1, 3, 40):
            adj = random_bipartite(rng, L, R, 0.5 if R < 10 else 3.0 / max(1, R), maxdeg=9)
            out.append(('gphp', dict(L=L, R=R, adj=adj, functional=rng.random() < .5, onto=rng.random() < .5)))
            out.append(('subsetcard', dict(L=L, R=R, adj=adj, equalities=rng.random() < .5)))
    return out

# ----------------------------------------------------------------------------
FAMILIES = [
    dict(name='php', prop='C01', params=php_params, streams=php_streams, build=php_build,
         request=lambda p: cmd('fam_php', p['m'], p['n'], p['functional'], p['onto']),
         numvar_doc=lambda p: p['m'] * p['n'], decode_ok=php_decode_ok, exists=php_exists, cli=php_cli,
         site='PigeonholePrinciple'),
    dict(name='gphp', prop='C01', params=gphp_params, build=gphp_build,
         # p['fast']: the same model through native ranges (ocaml/glue_fam_c01.ml), for sides of >= 65535 vertices
         request=lambda p: cmd('fam_gphp_fast' if p.get('fast') else 'fam_gphp', p['adj'], p['R'], p['functional'], p['onto']),
         streams=gphp_streams,
         numvar_doc=lambda p: sum(len(r) for r in p['adj']), decode_ok=gphp_decode_ok, exists=gphp_exists, cli=gphp_cli,
         site='GraphPigeonholePrinciple'),
    dict(name='bphp', prop='C01', params=bphp_params, streams=bphp_streams, build=bphp_build,
         request=lambda p: cmd('fam_bphp', p['m'], p['n']),
         numvar_doc=bphp_numvar, decode_ok=bphp_decode_ok, exists=bphp_exists, cli=bphp_cli,
         site='BinaryPigeonholePrinciple',
         # documented domain: pigeons, holes >= 0.  The code (and the faithful model) raise below 1.
         documented_valid=lambda p: p['m'] >= 0 and p['n'] >= 0,
         spec_request=lambda p: cmd('fam_bphp_spec', p['m'], p['n'])),
    dict(name='rphp', prop='C01', params=rphp_params, streams=rphp_streams, build=rphp_build,
         request=lambda p: cmd('fam_rphp', p['m'], p['r'], p['n']),
         numvar_doc=lambda p: p['m'] * p['r'] + p['r'] * p['n'] + p['r'], decode_ok=rphp_decode_ok, exists=rphp_exists,
         cli=lambda p, tmpdir: ['rphp', str(p['m']), str(p['r']), str(p['n'])],
         site='RelativizedPigeonholePrinciple'),
    dict(name='count', prop='C01', params=count_params, streams=count_streams, build=count_build,
         request=lambda p: cmd('fam_count', p['M'], p['p']),
         numvar_doc=lambda p: comb(p['M'], p['p']), decode_ok=count_decode_ok, exists=count_exists, cli=count_cli,
         site='CountingPrinciple'),
    dict(name='matching', prop='C01', params=matching_params, streams=matching_streams, build=matching_build,
         request=lambda p: cmd('fam_matching', p['n'], p['edges']),
         numvar_doc=lambda p: len(p['edges']), decode_ok=matching_decode_ok, exists=matching_exists, cli=matching_cli,
         site='PerfectMatchingPrinciple'),
    dict(name='subsetcard', prop='C01', params=subsetcard_params, build=subsetcard_build,
         request=lambda p: cmd('fam_subsetcard_fast' if p.get('fast') else 'fam_subsetcard', p['adj'], p['R'], p['equalities']),
         streams=subsetcard_streams,
         numvar_doc=lambda p: sum(len(r) for r in p['adj']), decode_ok=subsetcard_decode_ok, exists=subsetcard_exists,
         cli=subsetcard_cli, site='SubsetCardinalityFormula'),
    dict(name='cliquecol', prop='C01', params=cliquecol_params, streams=cliquecol_streams, build=cliquecol_build,
         request=lambda p: cmd('fam_cliquecol', p['n'], p['k'], p['c']),
         numvar_doc=lambda p: comb(p['n'], 2) + p['k'] * p['n'] + p['n'] * p['c'], decode_ok=cliquecol_decode_ok,
         exists=cliquecol_exists, cli=cliquecol_cli, site='CliqueColoring'),
]

# malformed arguments: the documentation promises ValueError (negative) / TypeError (not an integer)
MALFORMED = [
    ('php', dict(m=-1, n=2, functional=False, onto=False), 'ValueError'),
    ('php', dict(m=2, n=-3, functional=True, onto=False), 'ValueError'),
    ('bphp', dict(m=-1, n=2), 'ValueError'),
    ('bphp', dict(m=2, n=-2), 'ValueError'),
    ('rphp', dict(m=-1, r=1, n=1), 'ValueError'),
    ('rphp', dict(m=1, r=-1, n=1), 'ValueError'),
    ('rphp', dict(m=1, r=1, n=-1), 'ValueError'),
    ('count', dict(M=-1, p=2), 'ValueError'),
    ('count', dict(M=3, p=0), 'ValueError'),
    ('count', dict(M=3, p=-2), 'ValueError'),
    ('cliquecol', dict(n=-1, k=1, c=1), 'ValueError'),
    ('cliquecol', dict(n=1, k=-1, c=1), 'ValueError'),
    ('cliquecol', dict(n=1, k=1, c=-1), 'ValueError'),
]
