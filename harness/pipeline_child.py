"""Fork server used by the C17 pipeline stream (harness/c17_pipeline.py).

    python pipeline_child.py <repo> <tool>      requests on stdin, replies on stdout, one JSON value per line

A request is a JSON list of strings: the arguments of one run of the tool
(sys.argv[1:]).  cnfgen is imported ONCE; every request is then served by a
child obtained with os.fork(): the child starts from the interpreter state a
fresh process has right after its imports (nothing the tool did for an earlier
request can be seen), installs sys.argv = [tool] + argv, points the file
descriptors 1 and 2 to two temporary files (sys.stdout / sys.stderr stay the
interpreter's own objects, named '<stdout>' / '<stderr>') and calls the tool's main().  The
reply is {"rc": exit status, "out": stdout bytes (latin-1), "err": stderr (the middle
is cut out when it is longer than 6000 bytes), "timeout": bool}.  Standard input of the tool is /dev/null.
"""
import importlib
import json
import os
import signal
import sys
import tempfile
import time


MEMORY_LIMIT = 2 << 30      # address space of one run of the tool (a run that needs more ends in MemoryError)


def serve(tool, modname, limit):
    m = importlib.import_module(modname)
    inp = sys.stdin
    out = sys.stdout
    tmpdir = tempfile.mkdtemp(prefix='pipe-child-')
    fo = os.path.join(tmpdir, 'o')
    fe = os.path.join(tmpdir, 'e')
    for line in inp:
        line = line.strip()
        if not line:
            continue
        argv = json.loads(line)
        out.flush()
        pid = os.fork()
        if pid == 0:
            # ---- the run ----
            rc = 70
            try:
                try:
                    import resource
                    resource.setrlimit(resource.RLIMIT_AS, (MEMORY_LIMIT, MEMORY_LIMIT))
                except Exception:
                    pass
                o = os.open(fo, os.O_WRONLY | os.O_CREAT | os.O_TRUNC, 0o600)
                e = os.open(fe, os.O_WRONLY | os.O_CREAT | os.O_TRUNC, 0o600)
                z = os.open(os.devnull, os.O_RDONLY)
                os.dup2(z, 0)
                os.dup2(o, 1)
                os.dup2(e, 2)
                sys.argv = [tool] + [str(a) for a in argv]
                rc = 0
                try:
                    m.main()
                except SystemExit as x:
                    c = x.code
                    if c is None:
                        rc = 0
                    elif isinstance(c, int):
                        rc = c & 0xff
                    else:
                        try:
                            sys.stderr.write(str(c) + '\n')
                        except Exception:
                            pass
                        rc = 1
                except BaseException:
                    import traceback
                    try:
                        traceback.print_exc(file=sys.stderr)
                    except Exception:
                        os.write(2, traceback.format_exc().encode())
                    rc = 1
                try:
                    sys.stdout.flush()
                except Exception:
                    pass
                try:
                    sys.stderr.flush()
                except Exception:
                    pass
            finally:
                os._exit(rc)
        # ---- parent ----
        t0 = time.time()
        timed_out = False
        while True:
            done, status = os.waitpid(pid, os.WNOHANG)
            if done:
                break
            if time.time() - t0 > limit:
                os.kill(pid, signal.SIGKILL)
                os.waitpid(pid, 0)
                timed_out = True
                status = None
                break
            time.sleep(0.0005 if time.time() - t0 < 0.2 else 0.01)
        if status is None:
            rc = None
        elif os.WIFEXITED(status):
            rc = os.WEXITSTATUS(status)
        else:
            rc = -os.WTERMSIG(status)
        try:
            ob = open(fo, 'rb').read()
        except OSError:
            ob = b''
        try:
            eb = open(fe, 'rb').read()
        except OSError:
            eb = b''
        out.write(json.dumps(dict(rc=rc, out=ob.decode('latin-1'), err=(eb.decode('latin-1') if len(eb) < 6000 else eb[:2000].decode('latin-1') + ' ... ' + eb[-3000:].decode('latin-1')), timeout=timed_out)) + '\n')
        out.flush()
    for f in (fo, fe):
        try:
            os.unlink(f)
        except OSError:
            pass
    try:
        os.rmdir(tmpdir)
    except OSError:
        pass


def main():
    repo, tool = sys.argv[1:3]
    limit = float(sys.argv[3]) if len(sys.argv) > 3 else 60.0
    sys.path.insert(0, repo)
    mods = {'cnfgen': 'cnfgen.clitools.cnfgen', 'pbgen': 'cnfgen.clitools.pbgen'}
    serve(tool, mods[tool], limit)


if __name__ == '__main__':
    main()
