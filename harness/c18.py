"""C18 -- any command line ends in a usable formula or a clean, shielded error.

Theorem side (coq/Cli.v, Prop_C18.v): the validators + generator preconditions
of the numeric sub-commands never lead to a crash (`run_cli_no_crash`), and
acceptance implies the generator's precondition.  Correspondence: the outcome
class (formula / command-line error) of real runs must equal `run_cli` of the
extracted model on the same tokens.  Monitor (for ALL command lines, modelled
or not): the process must end in (a) exit 0 with a complete formula accepted
by a strict reader of the chosen format, (b) a help text, or (c) a non-zero
exit with empty stdout and an error message on stderr whose every line carries
the comment prefix of the output format.  A Python traceback is always a
violation."""
import itertools
import os
import re
import shutil
import tempfile

import cligen
import clirun
import c18_graphspec
from lib import cmd, Sym

META = dict(
    technique='Coq theorem (validated numeric sub-commands never crash; guard => precondition) + extracted-model outcome comparison + run-time monitor of every sampled command line with strict output readers',
    category='proof',
    text='Theorems: for every token list, the modelled validators and generator preconditions of 16 numeric sub-commands end in a formula or a '
         'command-line error, never in a crash; acceptance implies the generator precondition (e.g. pitfall: d<v, v*d even, nz>=2, k even). '
         'The model is tied to the code by comparing the outcome class of real child-process runs with the extracted run_cli over boundary '
         'sweeps. PARTIAL: argparse, graph-spec parsing, file handling and process exit paths are not modelled; they are covered by the '
         'monitor stream (grammar + one-mutation + malformed files), which checks the observable contract on every run.',
    note='Trusted: argparse/CPython; the strict DIMACS/OPB readers of the monitor (harness/c18.py); Coq kernel, extraction, harness. '
         'Sub-commands taking graphs are judged by the monitor only (their generators are modelled by the family slices, not here).',
    design_ref='5/C18',
)
TRUSTED = c18_graphspec.TRUSTED
RULE = ('stream graphspec: token lists for every graph construction/option/format (in-process parse_graph_argument and make_graph_from_spec vs the extracted GraphSpec model); stream numeric: boundary sweep of integer/non-integer tokens for each modelled sub-command (outcome vs model); stream grammar: command '
        'lines from harness/cligen.py, valid and with one perturbation; stream files: malformed/unreadable input files; stream tools: cnfshuffle, '
        'kthlist2pebbling. Non-trivial = the tool was actually started on a distinct argv; distinct = distinct (tool, argv, stdin)')

PREFIX = {'dimacs': 'c ', 'opb': '* ', 'latex': '% '}
NUMERIC = {'and': 2, 'or': 2, 'bphp': 2, 'cliquecoloring': 3, 'count': 2, 'parity': 1, 'ptn': 1, 'ram': 3, 'rphp': 3,
           'cpls': 3, 'vdw': 3, 'randkcnf': 3, 'randkxor': 3, 'pitfall': 5, 'op': 1, 'php': 2}


# ---- strict readers (monitor side) ----
def strict_dimacs(text):
    n = m = None
    clauses = 0
    for ln in text.split('\n'):
        if ln == '':
            continue
        if ln.startswith('c'):
            continue
        if ln.startswith('p'):
            if n is not None:
                return 'second problem line'
            t = ln.split()
            if len(t) != 4 or t[1] != 'cnf' or not t[2].isdigit() or not t[3].isdigit():
                return 'bad problem line %r' % ln
            n, m = int(t[2]), int(t[3])
            continue
        if n is None:
            return 'clause before problem line: %r' % ln[:40]
        t = ln.split()
        if not t or t[-1] != '0':
            return 'clause line not terminated by 0: %r' % ln[:40]
        for x in t[:-1]:
            if not re.fullmatch(r'-?[1-9][0-9]*', x) or abs(int(x)) > n:
                return 'bad literal %r' % x
        clauses += 1
    if n is None:
        return 'no problem line'
    if clauses != m:
        return 'declared %d clauses, found %d' % (m, clauses)
    return None


def strict_opb(text):
    lines = text.split('\n')
    if not lines or not re.fullmatch(r'\* #variable= \d+ #constraint= \d+', lines[0].strip()):
        return 'bad first line %r' % (lines[0][:60] if lines else '')
    n, m = map(int, re.findall(r'\d+', lines[0]))
    cons = 0
    for ln in lines[1:]:
        if ln == '' or ln.startswith('*'):
            continue
        mt = re.fullmatch(r'((?:[+-]?\d+ ~?x\d+ )*)(>=|=) (-?\d+)\s*;?', ln.strip() + '' if False else ln.strip())
        if not mt:
            return 'bad constraint line %r' % ln[:60]
        for v in re.findall(r'x(\d+)', mt.group(1)):
            if not 1 <= int(v) <= n:
                return 'variable x%s out of range' % v
        cons += 1
    if cons != m:
        return 'declared %d constraints, found %d' % (m, cons)
    return None


def out_format(tool, argv):
    """the output format the LEADING options ask for (what the comment marker of every message must follow): the same reading as
    cnfgen/clitools/cmdline.py early_output_format - exact spellings -of/--output-format <fmt>, --output-format=<fmt>, -l/--latex;
    -o/--output and -S/--seed take an argument; any other dash token is a flag; the first other token ends the options.
    pbgen refuses dimacs: its messages keep its own marker."""
    default = 'opb' if tool == 'pbgen' else 'dimacs'
    fmt = default
    a = [str(x) for x in argv]
    i = 0
    while i < len(a):
        t = a[i]
        if t in ('-of', '--output-format'):
            if i + 1 < len(a) and a[i + 1] in PREFIX:
                fmt = a[i + 1]
            i += 2
        elif t.startswith('--output-format='):
            if t.split('=', 1)[1] in PREFIX:
                fmt = t.split('=', 1)[1]
            i += 1
        elif t in ('-l', '--latex'):
            fmt = 'latex'
            i += 1
        elif t in ('-o', '--output', '-S', '--seed'):
            i += 2
        elif t.startswith('-') and t != '-':
            i += 1
        else:
            break
    if tool == 'pbgen' and fmt == 'dimacs':
        fmt = 'opb'
    return fmt


def classify(tool, argv, r, fmt=None):
    """(class, detail).  class in formula | help | clierror | VIOLATION:<kind>"""
    fmt = fmt or out_format(tool, argv)
    out = r['out'].decode(errors='replace')
    err = r['err'].decode(errors='replace')
    a_ = [str(x) for x in argv]
    for i_, t_ in enumerate(a_):
        # the formula goes to the file named by -o: that file is the output (the format may follow its extension)
        if t_ in ('-o', '--output') and i_ + 1 < len(a_) and a_[i_ + 1] != '-' and os.path.isfile(a_[i_ + 1]) and not a_[i_ + 1].startswith(('/dev/', '/proc/')):
            try:
                out = out + open(a_[i_ + 1], errors='replace').read()
            except OSError:
                pass
            if a_[i_ + 1].endswith('.tex'):
                fmt = 'latex'
            elif a_[i_ + 1].endswith('.opb'):
                fmt = 'opb'
            break
    if r['timeout']:
        return 'timeout', ''
    if 'Traceback (most recent call last)' in err:
        last = err.strip().split('\n')[-1]
        return 'VIOLATION:traceback', last[:160]
    if r['rc'] == 0:
        a = [str(x) for x in argv]
        if any(h in a for h in ('-h', '--help', '--tutorial', '--help-graph', '--help-bipartite', '--help-dag', '-V', '--version')):
            return ('help', '') if out.strip() or err.strip() else ('VIOLATION:silent-exit-0', 'help requested, nothing printed')
        if out == '':
            return 'VIOLATION:silent-exit-0', 'exit status 0 and no output' + (' (stderr: %s)' % err.strip()[:80] if err.strip() else '')
        if fmt == 'dimacs':
            why = strict_dimacs(out)
        elif fmt == 'opb':
            why = strict_opb(out)
        else:
            why = None if ('\\begin' in out or '\\' in out or '%' in out) else 'no latex'
        if why:
            return 'VIOLATION:malformed-formula', why
        return 'formula', ''
    # non-zero exit
    if out != '':
        return 'VIOLATION:partial-output', 'non-zero exit but %d bytes on stdout' % len(out)
    if err.strip() == '':
        return 'VIOLATION:silent-failure', 'non-zero exit, nothing on stderr'
    return 'clierror', err


def prefix_ok(err, fmt, tool):
    pre = PREFIX[fmt]
    bad = [ln for ln in err.split('\n') if ln.strip() != '' and not ln.startswith(pre.rstrip())]
    return bad[:2]


def wrong_prefix_kind(err, fmt):
    """'wrong-prefix-c': every line carries the DIMACS marker although another format was chosen (D29)"""
    lines = [ln for ln in err.split('\n') if ln.strip() != '']
    if fmt != 'dimacs' and lines and all(ln.startswith('c') for ln in lines):
        return 'wrong-prefix-c'
    if fmt == 'latex' and lines and all(ln.startswith('*') for ln in lines):
        return 'wrong-prefix-star'
    return 'unprefixed-error'


def run(ctx):
    c18_graphspec.run_graphspec(ctx)      # graph arguments: parse_graph_argument / make_graph_from_spec vs coq/GraphSpec.v
    quick = ctx.tier == 'quick'
    rng = ctx.rng
    base = tempfile.mkdtemp(prefix='c18-')
    jobs = []    # (stream, tool, argv, stdin, expect or None, fmt)

    # ---------------- stream numeric ----------------
    vals = [-1, 0, 1, 2, 3, 4]
    junk = ['x', '1.5', '', '1e2']
    for sub, n in NUMERIC.items():
        combos = []
        if n <= 2:
            combos = list(itertools.product(vals if (n == 1 or not quick) else [-1, 0, 1, 3], repeat=n))
        elif sub == 'pitfall':
            combos = [(v, d, ny, nz, k) for v in (0, 3, 4, 5) for d in (0, 2, 3, 4, 5) for ny in (0, 1, 2) for nz in (0, 1, 2, 3) for k in (0, 1, 2)]
            combos = rng.sample(combos, 25 if quick else 200) + [(4, 3, 2, 1, 2), (4, 4, 2, 2, 2), (4, 2, 2, 2, 2), (5, 4, 1, 2, 2)]
        else:
            combos = list(itertools.product([-1, 0, 1, 2, 3] if sub != 'cpls' else [0, 1, 2, 3, 4], repeat=3))
            if quick:
                combos = rng.sample(combos, min(len(combos), 25))
        if sub == 'vdw':
            combos += [(5, 1, 2), (6, 2, 2, 1), (5, 1, 1), (7, 3, 3, 3), (0, 1, 1)]
        if sub == 'php':
            combos += [(3,), (0,), (4, 3, 2), (4, 3, 3), (4, 3, 4), (4, 3, 2, 1), (-1,)]
        if sub in ('randkcnf', 'randkxor'):
            combos += [(2, 3, 12), (2, 3, 13), (2, 3, 6), (2, 3, 7), (3, 3, 8), (3, 3, 9), (1, 1, 2), (1, 1, 3)]
        extra = []
        for c in rng.sample(combos, min(6, len(combos))):
            c = list(c)
            extra.append(c[:-1])                       # missing argument
            if sub not in ('op', 'php', 'vdw'):        # (these take optional further integers; `op N d` builds a random graph: not modelled)
                extra.append(c + [rng.choice(vals)])   # extra argument
            d = list(c)
            d[rng.randrange(len(d))] = rng.choice(junk)
            extra.append(d)                            # non-integer token
        for c in [list(c) for c in combos] + extra:
            planted = sub in ('randkcnf', 'randkxor') and rng.random() < 0.3
            toks = [(int(x) if isinstance(x, int) else None) for x in c]
            argv = ['-q', sub] + (['--plant'] if planted else []) + [str(x) for x in c]
            model_args = [[Sym('some'), t] if t is not None else None for t in toks]
            tool = 'pbgen' if rng.random() < 0.2 else 'cnfgen'
            jobs.append(('numeric', tool, argv, b'', cmd('run_cli', planted, sub, model_args), None))
            ctx.tally('numeric sub-command', sub)

    # ---------------- stream grammar (+ one perturbation) ----------------
    ngram = 150 if quick else 1500
    for i in range(ngram):
        tool = rng.choice(['cnfgen'] * 4 + ['pbgen'])
        argv = [str(a) for a in cligen.valid_cmdline(rng, tool, seed=rng.choice([None, 0, 7]), allow_random=True)]
        kind = rng.choice(['valid', 'valid', 'drop', 'truncate', 'junk', 'unknown-option', 'boundary', 'empty-token', 'help', 'dup-T', 'bad-file'])
        if kind == 'drop' and len(argv) > 1:
            del argv[rng.randrange(len(argv))]
        elif kind == 'truncate' and len(argv) > 1:
            del argv[-rng.randint(1, min(2, len(argv) - 1)):]
        elif kind == 'junk':
            argv.insert(rng.randrange(len(argv) + 1), rng.choice(['foo', '-', '--', '3.7', 'gnp', 'save', '0x10', '١']))
        elif kind == 'unknown-option':
            argv.insert(rng.randrange(len(argv) + 1), rng.choice(['--frobnicate', '-Z', '--seed']))
        elif kind == 'boundary':
            idx = [j for j, t in enumerate(argv) if t.lstrip('-').isdigit()]
            if idx:
                j = rng.choice(idx)
                argv[j] = str(rng.choice([0, -1, int(argv[j]) + 1, int(argv[j]) * 10 + 7, 10 ** 3]))
        elif kind == 'empty-token':
            argv.insert(rng.randrange(1, len(argv) + 1), '')
        elif kind == 'help':
            argv.insert(rng.randrange(len(argv) + 1), rng.choice(['-h', '--help', '--help-graph', '--tutorial', '-V']))
        elif kind == 'dup-T':
            argv += ['-T'] + ([] if rng.random() < 0.5 else ['bogus', '1'])
        elif kind == 'bad-file':
            argv = argv[:1] if argv and argv[0].startswith('-') else []
            argv = ['kcolor', '2', rng.choice([base, os.path.join(base, 'missing.gml'), '/dev/null', 'gml', 'kthlist', 'dot'])]
        ctx.tally('grammar perturbation', kind)
        jobs.append(('grammar', tool, argv, b'', None, None))

    # ---------------- stream graphspec: numeric arguments of the graph constructions inside, at and beyond their range ----------------
    gs = []
    small = [0, 1, 2, 3, 4]
    for L in (1, 2, 3, 4, 6):
        for R in (1, 2, 3, 4):
            for d in small + [5, 6]:
                gs.append(['php', 'regular', L, R, d])
                gs.append(['php', 'glrd', L, R, d])
            for m_ in (0, 1, L * R // 3, L * R // 3 + 1, L * R - 1, L * R, L * R + 1):
                gs.append(['php', 'glrm', L, R, m_])
    for n in (0, 1, 2, 3, 4, 5):
        for d in (0, 1, 2, 3, 4, 5):
            gs.append(['kcolor', 2, 'gnd', n, d])
            gs.append(['op', n, d])
        for m_ in (0, 1, n * (n - 1) // 2, n * (n - 1) // 2 + 1):
            gs.append(['kcolor', 2, 'gnm', n, m_])
        for k_ in (0, 1, n, n + 1):
            gs.append(['kclique', 2, 'gnp', n, '.5', 'plantclique', k_])
            gs.append(['kcolor', 2, 'complete', n, 'addedges', k_])
            gs.append(['kcolor', 2, 'gnm', n, min(2, n * (n - 1) // 2), 'splitedges', k_])
        gs.append(['peb', 'pyramid', n])
        gs.append(['peb', 'tree', n])
        gs.append(['stone', 2, 'path', n, '--sparse', n])
        gs.append(['tseitin', n, 3])
        gs.append(['subsetcard', n, 2])
    huge = [10 ** 19, 2 ** 63, 10 ** 400, '1' + '0' * 4400]
    gs += [['tseitin', h_] for h_ in huge] + [['op', h_, 4] for h_ in huge] + [['subsetcard', h_] for h_ in huge] + [['kcolor', 2, 'gnm', h_, 0] for h_ in huge]
    gs += [['php', h_, 2] for h_ in huge[:2]] + [['vdw', h_, 2, 2] for h_ in huge[2:]] + [['randkcnf', 3, h_, 2] for h_ in huge[2:]]
    gs += [['kcolor', 2, 'gnp', 3, p_] for p_ in ('-0.1', '0', '1', '1.1', 'x')]
    gs += [['php', 'shift', 3, 4] + pat for pat in ([], [0], [1, 2], [4], [5], [-1], [1, 1])]
    gs += [['kcolor', 2, 'grid'] + dims for dims in ([], [0], [1], [2, 2], [2, 0], [-1, 2])] + [['kcolor', 2, 'torus'] + dims for dims in ([], [2], [3, 3], [1, 1])]
    gs += [['php', 'complete', a_, b_] for a_ in (0, 1, 2) for b_ in (0, 1, 2)] + [['php', 'empty', 0, 0], ['kcolor', 2, 'empty', 0], ['kcolor', 2, 'complete', 0]]
    gsel = gs if not quick else rng.sample(gs, 170) + [g_ for g_ in gs if any((isinstance(x, int) and x >= 10 ** 19) or (isinstance(x, str) and len(x) > 100) for x in g_)]
    for g_ in gsel:
        argv = ['-q'] + [str(x) for x in g_]
        # a `save` with and without its file name, at the end of the graph argument
        r_ = rng.random()
        if r_ < 0.12:
            argv += ['save', os.path.join(base, 'saved%d.kthlist' % len(jobs))]
        elif r_ < 0.2:
            argv += ['save']
        elif r_ < 0.25:
            argv += ['save', 'kthlist']
        ctx.tally('graphspec construction', str(g_[1]) if not str(g_[1]).lstrip('-').isdigit() else str(g_[2]) if len(g_) > 2 and not str(g_[2]).lstrip('-').isdigit() else g_[0])
        jobs.append(('graphspec', rng.choice(['cnfgen', 'cnfgen', 'pbgen']), argv, b'', None, None))
    # transformations given an explicit graph
    for t_ in (['xorcomp', 'glrd', 6, 3, 2], ['majcomp', 'glrd', 6, 3, 4], ['xorcomp', 'regular', 6, 3, 2], ['xorcomp', 'regular', 6, 3, 4], ['majcomp', 'glrd', 5, 3, 2],
               ['xorcomp', 'glrd', 6, 3, 2, 'save'], ['xorcomp', 6, 7], ['xorcomp', 0, 1], ['majcomp', 'complete', 6, 2]):
        jobs.append(('graphspec', 'cnfgen', ['-q', 'php', '3', '2', '-T'] + [str(x) for x in t_], b'', None, None))

    # ---------------- stream stdin: formulas read from a pipe (not seekable) ----------------
    for text in ('p cnf 2 2\n1 -2 0\n2 0\n', 'p cnf 0 0\n', 'c only a comment\n', '', 'p cnf 2 1\n1 3 0\n', 'p cnf 3 2\n1 -3 0\n2 3 -1 0\n'):
        for extra in ([], ['-T', 'flip'], ['-T', 'xor', '2'], ['-T', 'shuffle']):
            for pre in ([], ['-q'], ['-of', 'opb'], ['-of', 'latex']):
                if quick and rng.random() < 0.5:
                    continue
                jobs.append(('stdin', 'cnfgen', pre + ['dimacs'] + extra, text.encode(), None, None))
                ctx.tally('stdin formula', 'valid' if text.startswith('p cnf') and '3 0' not in text.split('\n')[1:2] else 'other')

    # ---------------- stream files: malformed inputs ----------------
    files = {
        'empty.kthlist': '', 'ok.kthlist': 'c comment\n3\n1 : 0\n2 : 1 0\n3 : 1 2 0\n', 'blank.kthlist': '3\n\n1 : 0\n',
        'bad.kthlist': '3\n1 : 2 0\n2 : x 0\n', 'cyc.kthlist': '2\n1 : 2 0\n2 : 1 0\n', 'trunc.kthlist': '3\n1 : 0\n2 : 1',
        'ok.dimacs': 'p edge 3 2\ne 1 2\ne 2 3\n', 'blank.dimacs': 'p edge 3 2\n\ne 1 2\ne 2 3\n', 'bad.dimacs': 'p edge 3 2\ne 1 9\n',
        'empty.dimacs': '', 'ok.matrix': '2 3\n1 0 1\n0 1 1\n', 'bad.matrix': '2 3\n1 0\n0 1 1\n', 'neg.matrix': '-1 3\n',
        'empty.matrix': '', 'ok.gml': 'graph [\n node [ id 1 ]\n node [ id 2 ]\n edge [ source 1 target 2 ]\n]\n', 'bad.gml': 'graph [ node [',
        'ok.cnf': 'p cnf 2 2\n1 -2 0\n2 0\n', 'bad.cnf': 'p cnf 2 2\n1 -3 0\n', 'empty.cnf': '', 'trunc.cnf': 'p cnf 2 2\n1 -2 0\n2',
        'junk.cnf': 'hello world\n', 'ok.dot': 'graph G { 1 -- 2; 2 -- 3; }\n', 'bad.dot': 'graph G { 1 -- ',
    }
    for name, text in files.items():
        with open(os.path.join(base, name), 'w') as f:
            f.write(text)
    os.mkdir(os.path.join(base, 'adir'))
    fjobs = []
    # well-formed files with unusual NAMES (braces, blanks, percent signs, non-ASCII), and unusual save targets
    odd = ['cyc{v2}.kthlist', 'K{}.kthlist', 'a b.kthlist', '100%s.kthlist', 'pyr{h=2}.kthlist', '\u00fc\u03b1.kthlist', "q'uote.kthlist", 'x.kthlist.kthlist', '-dash.kthlist']
    for nm in odd:
        with open(os.path.join(base, nm), 'w') as f:
            f.write(files['ok.kthlist'])
        pth = os.path.join(base, nm)
        fjobs += [('cnfgen', ['peb', pth]), ('cnfgen', ['kcolor', '2', 'kthlist', pth]), ('cnfgen', ['-of', 'opb', 'stone', '2', pth]), ('kthlist2pebbling', ['-i', pth])]
    with open(os.path.join(base, 'o{dd} name.cnf'), 'w') as f:
        f.write(files['ok.cnf'])
    fjobs += [('cnfgen', ['dimacs', os.path.join(base, 'o{dd} name.cnf')]), ('cnfshuffle', ['-i', os.path.join(base, 'o{dd} name.cnf')])]
    for target in ['/no/such/dir/g.gml', os.path.join(base, 'adir'), '/dev/full', os.path.join(base, 'missing', 'deeper', 'g.kthlist'), os.path.join(base, 's{a}ved.kthlist'), '/proc/version']:
        fjobs += [('cnfgen', ['kcolor', '2', 'gnp', '5', '.5', 'save', target]), ('cnfgen', ['php', 'glrd', '3', '3', '2', 'save', 'kthlist', target]),
                  ('cnfgen', ['peb', 'pyramid', '2', 'save', target]), ('pbgen', ['kcolor', '2', 'complete', '3', 'save', target]),
                  ('cnfgen', ['php', '3', '2', '-T', 'xorcomp', 'glrd', '6', '3', '2', 'save', target]), ('cnfgen', ['-o', target if not target.endswith('.kthlist') else target + '.out{1} x.cnf', 'php', '3', '2'])]
    for name in list(files) + ['adir', 'nonexistent.kthlist']:
        p = os.path.join(base, name)
        ext = name.split('.')[-1]
        if ext == 'cnf':
            fjobs += [('cnfgen', ['dimacs', p]), ('cnfshuffle', ['-i', p]), ('cnfgen', ['-of', 'opb', 'dimacs', p])]
        elif ext == 'kthlist':
            fjobs += [('cnfgen', ['peb', p]), ('cnfgen', ['peb', 'kthlist', p]), ('kthlist2pebbling', ['-i', p]), ('cnfgen', ['kcolor', '2', p]),
                      ('cnfgen', ['php', p]), ('cnfgen', ['stone', '2', p])]
        elif ext == 'matrix':
            fjobs += [('cnfgen', ['php', p]), ('cnfgen', ['subsetcard', p]), ('pbgen', ['php', p])]
        elif ext in ('dimacs', 'gml', 'dot'):
            fjobs += [('cnfgen', ['kcolor', '2', p]), ('cnfgen', ['tseitin', 'first', ext, p]), ('cnfgen', ['-of', 'opb', 'ec', p])]
        else:
            fjobs += [('cnfgen', ['kcolor', '2', p]), ('cnfgen', ['peb', p]), ('cnfgen', ['php', p]), ('cnfgen', ['dimacs', p]),
                      ('cnfshuffle', ['-i', p]), ('kthlist2pebbling', ['-i', p]), ('cnfgen', ['kcolor', '2', 'gml', p])]
    for tool, argv in fjobs:
        ctx.tally('file stream', os.path.basename(argv[-1]))
        jobs.append(('files', tool, argv, b'', None, None))

    # ---------------- stream tools: cnfshuffle / kthlist2pebbling on stdin ----------------
    for i in range(30 if quick else 300):
        n = rng.randint(0, 5)
        cl = [[rng.choice([1, -1]) * rng.randint(1, max(n, 1)) for _ in range(rng.randint(0, 3))] for _ in range(rng.randint(0, 5))]
        text = 'p cnf %d %d\n' % (n, len(cl)) + ''.join(' '.join(map(str, c + [0])) + '\n' for c in cl)
        mut = rng.choice(['valid', 'valid', 'truncate', 'junk', 'count'])
        if mut == 'truncate':
            text = text[:rng.randrange(len(text) + 1)]
        elif mut == 'junk':
            pos = rng.randrange(len(text) + 1)
            text = text[:pos] + rng.choice([' x ', '\n\n', ' 99 ', 'p cnf 1 1\n', '-']) + text[pos:]
        elif mut == 'count':
            text = text.replace('p cnf %d %d' % (n, len(cl)), 'p cnf %d %d' % (n, len(cl) + 1))
        argv = [o for o in ('-p', '-v', '-c', '-q') if rng.random() < 0.25] + (['--seed', '3'] if rng.random() < 0.5 else [])
        ctx.tally('cnfshuffle input', mut)
        jobs.append(('tools', 'cnfshuffle', argv, text.encode(), None, 'dimacs'))
    for i in range(20 if quick else 200):
        k = rng.randint(0, 4)
        text = '%d\n' % k + ''.join('%d : %s0\n' % (v, ''.join('%d ' % u for u in sorted(rng.sample(range(1, v), rng.randint(0, min(2, v - 1)))))) for v in range(1, k + 1))
        mut = rng.choice(['valid', 'valid', 'truncate', 'junk'])
        if mut == 'truncate':
            text = text[:rng.randrange(len(text) + 1)]
        elif mut == 'junk':
            pos = rng.randrange(len(text) + 1)
            text = text[:pos] + rng.choice([' x ', '\n\n', ' 99 ', ':']) + text[pos:]
        argv = rng.choice([[], ['-T', 'xor', '2'], ['-q'], ['-T', 'lift', '2']])
        ctx.tally('kthlist2pebbling input', mut)
        jobs.append(('tools', 'kthlist2pebbling', argv, text.encode(), None, 'dimacs'))

    # ---------------- run ----------------
    seen = set()
    uniq = []
    for j in jobs:
        key = (j[1], tuple(j[2]), j[3])
        if key in seen:
            continue
        seen.add(key)
        uniq.append(j)
    results = clirun.parallel([lambda j=j: clirun.run_cli(j[1], j[2], j[3], cwd=base, timeout=25) for j in uniq])
    mreqs = [j[4] for j in uniq if j[4] is not None]
    mrep = iter(ctx.model.batch(mreqs))
    for (stream, tool, argv, stdin, mreq, fmt), r in zip(uniq, results):
        cls, detail = classify(tool, argv, r, fmt)
        descr = dict(tool=tool, argv=argv, stdin=stdin.decode(errors='replace')[:400])
        ctx.count(stream, (tool, tuple(argv), stdin), nontrivial=cls != 'timeout', sample=dict(descr, outcome=cls))
        ctx.tally('outcome', cls)
        expect = None
        if mreq is not None:
            expect = str(next(mrep))
        if cls == 'timeout':
            continue
        if cls.startswith('VIOLATION:'):
            kind = cls.split(':', 1)[1]
            site, c2 = site_of(tool, argv, kind, detail)
            ctx.violation('counterexample', 'command line ends in %s: %s' % (kind, detail),
                          dict(input=descr, exit_status=r['rc'], stderr=r['err'].decode(errors='replace')[-600:],
                               stdout_head=r['out'].decode(errors='replace')[:200], model_outcome=expect), True, site=site, cls=c2)
            continue
        if cls == 'clierror':
            f = fmt or out_format(tool, argv)
            bad = prefix_ok(detail, f, tool)
            if bad:
                wk = wrong_prefix_kind(detail, f)
                site, c2 = ('parse-error-prefix', wk) if wk != 'unprefixed-error' else site_of(tool, argv, 'unprefixed-error', bad[0])
                ctx.violation('counterexample', 'error message is not shielded by the comment prefix %r of the output format' % PREFIX[f],
                              dict(input=descr, exit_status=r['rc'], stderr=detail[-600:], offending_lines=bad), True, site=site, cls=c2)
                continue
        if expect is not None:
            want = {'OFormula': 'formula', 'OCliError': 'clierror', 'OCrash': 'crash'}[expect]
            if want != cls:
                ctx.disagreements_checked += 1
                ctx.violation('correspondence', 'outcome %s differs from the model (Cli.v run_cli says %s); theorem C18_validated_never_crashes no longer covers this sub-command' % (cls, want),
                              dict(input=descr, implementation=cls, model=want, theorem='C18_validated_never_crashes', stderr=r['err'].decode(errors='replace')[-300:]),
                              False, site='numeric-outcome', cls=argv[1] if len(argv) > 1 else '?')
    shutil.rmtree(base, ignore_errors=True)


def site_of(tool, argv, kind, detail):
    """deterministic classification of a failing command line (for known findings / dedup)"""
    exc = ''
    m = re.match(r'([A-Za-z_.]+(?:Error|Exception|Iteration|Interrupt|Exit))', detail or '')
    if m:
        exc = m.group(1).split('.')[-1]
    sub = next((t for t in argv if t and not t.startswith('-') and not t.lstrip('-').replace('.', '').isdigit()), '?')
    if tool in ('cnfshuffle', 'kthlist2pebbling'):
        sub = tool
    if '' in argv:
        return 'empty-token', '%s-%s' % (kind, exc)
    if exc == 'OverflowError' and sub in ('randkcnf', 'randkxor') and any(len(str(t)) > 18 for t in argv):
        return 'randk-huge-n', '%s-%s' % (kind, exc)      # D47: n beyond the machine word
    if kind == 'traceback' and any(str(t).endswith(('.kthlist', '.dimacs', '.matrix', '.gml', '.dot')) for t in argv):
        ext = next(str(t).rsplit('.', 1)[1] for t in argv if str(t).endswith(('.kthlist', '.dimacs', '.matrix', '.gml', '.dot')))
        return 'graph-reader', '%s-%s' % (ext, exc)
    return '%s:%s' % (tool if tool != 'pbgen' else 'pbgen', sub), '%s-%s' % (kind, exc)
