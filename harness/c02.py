"""C02 -- graph-problem families are satisfiable exactly when the graph has the property.

Correspondence: for every family of harness/fam_c02.py the formula built by cnfgen (classes CNF and
OPB) is compared with the formula of the extracted Coq model (coq/Fam_*.v) on the same graph and
parameters: number of variables, canonical clause set (sorted set of sorted clauses) and canonical
OPB constraint multiset; the ordered lists are compared too and an order-only difference is a
note, not a violation (cnf_sat / opb_sat are conjunctions: SemFacts.cnf_sat_set_ext).
The theorems of coq/Prop_C02.v are about the model's formulas.

When model and implementation differ, the implementation's formula is evaluated on all assignments
(bit-parallel truth tables, <= 20 variables; z3 above that for the SAT/UNSAT verdict) against
oracles written from the documentation only (fam_c02.decode_ok / exists / count), to find a
concrete input on which the PROPERTY fails.

Independently of any mismatch, on the small instances the same oracles are TESTED against the
implementation (labelled 'semantic test' in the evidence): SAT/UNSAT versus brute-force existence
of the witness, number of models versus number of witnesses (2^(|E|-|V|+c) for Tseitin, number of
isomorphisms, proper colourings, ...).  These are tests, not theorems; they are how the two known
deviations (ramlb ignores s; iso ignores nontrivial=True) get their failing inputs.

Two model variants exist for the known deviations (DESIGN.md section 6.6): agreement with the
variant `as_is` on an input of the finding's class is reported with the finding's site/class,
agreement with `spec` is silent, agreement with neither is a new violation."""
import json
import os
import subprocess
import tempfile

from lib import import_impl, outcome, is_error, Sym
import fam_c02
from fam_streams import fast_batch

META = dict(
    technique='Coq theorems about executable family models (T1 characterisation, T2 existence/bijection, T3 Tseitin and '
              'even-colouring criteria in both directions, Tseitin model count) + extracted-model differential check '
              '(numvar, canonical clause set, OPB list)',
    category='proof',
    text='For each of tseitin, kcolor, ec, domset (both encodings), tiling, iso/automorphism, subgraph, kclique, kcliquebin '
         'and ramlb a Gallina function produces the list of builder calls the Python generator makes; machine-checked theorems '
         'state for every graph, parameter and assignment that the formula holds exactly when the assignment encodes the '
         'documented witness, hence satisfiable iff the witness exists, with a models<->witnesses bijection for iso and '
         'functional kcolor; Tseitin formulas are satisfiable iff every connected component has even total charge, and then '
         'have exactly 2^(|E|-|V|+components) models (models <-> values on the edges outside a spanning forest); even '
         'colouring formulas are satisfiable iff every component has an even number of edges. The models are '
         'tied to the code by exact comparison of variable count, clause set and OPB constraints on all graphs up to 4 (5) '
         'vertices times parameters and on seeded random graphs up to 40 vertices.',
    note='Trusted: Coq kernel, extraction, OCaml driver, this harness and its oracles. The Tseitin converse, the model '
         'count 2^(|E|-|V|+c) and the even-colouring converse are theorems (the *_statement definitions are proved as '
         'written); they are additionally tested by enumeration on small graphs. '
         'RamseyWitnessFormula ignores s and GraphIsomorphism ignores nontrivial=True on the unchanged tree (known findings).',
    design_ref='5/C02',
)

RULE = ('one case = one (family, graph(s), parameters) instance compared under both formula classes; non-trivial = at least one '
        'vertex; distinct = distinct (family, parameters) keys; semantic tests are counted in streams named */semantic')

MAX_ENUM = 20          # variables for full truth tables in failing-input search
TEST_ENUM = 14         # variables for the always-on semantic tests
DECODE_ENUM = 10       # variables for per-assignment decode_ok tests


# --------------------------------------------------------------------------
# bit-parallel truth tables
# --------------------------------------------------------------------------
_VT = {}


def var_table(i, n):
    """truth table (as an int with 2^n bits) of variable i (1-based) over assignments idx, bit (i-1) of idx"""
    key = (i, n)
    t = _VT.get(key)
    if t is None:
        half = 1 << (i - 1)
        t = ((1 << half) - 1) << half
        size = half * 2
        total = 1 << n
        while size < total:
            t |= t << size
            size *= 2
        _VT[key] = t
    return t


def cnf_table(n, clauses):
    full = (1 << (1 << n)) - 1
    acc = full
    for c in clauses:
        t = 0
        for l in c:
            v = var_table(abs(l), n)
            t |= v if l > 0 else (full & ~v)
        acc &= t
        if not acc:
            break
    return acc


def opb_models(n, constraints):
    """truth table of an OPB constraint list by plain enumeration (small n only)"""
    acc = 0
    for idx in range(1 << n):
        ok = True
        for c in constraints:
            *terms, op, deg = c
            s = 0
            for co, l in terms:
                val = (idx >> (abs(l) - 1)) & 1
                if (val == 1) == (l > 0):
                    s += co
            if not {'>=': s >= deg, '==': s == deg, '<=': s <= deg, '>': s > deg, '<': s < deg}[op]:
                ok = False
                break
        if ok:
            acc |= 1 << idx
    return acc


def assignment_of(idx, n):
    return [None] + [bool((idx >> i) & 1) for i in range(n)]


def z3_sat(n, clauses):
    """SAT verdict through z3 in the python3-vt interpreter (only used in failing-input search)"""
    try:
        with tempfile.NamedTemporaryFile('w', suffix='.cnf', delete=False) as f:
            f.write('p cnf %d %d\n' % (n, len(clauses)))
            for c in clauses:
                f.write(' '.join(str(l) for l in c) + ' 0\n')
            path = f.name
        code = ('import z3,sys\ns=z3.Solver()\ns.from_file(sys.argv[1])\nr=s.check()\nprint(str(r))')
        p = subprocess.run(['python3-vt', '-c', code, path], stdout=subprocess.PIPE, stderr=subprocess.PIPE, timeout=120)
        os.unlink(path)
        out = p.stdout.decode().strip()
        return {'sat': True, 'unsat': False}.get(out)
    except Exception:
        return None


# --------------------------------------------------------------------------
# comparison
# --------------------------------------------------------------------------
def canon(clauses):
    return sorted(set(tuple(sorted(c)) for c in clauses))


def canon_opb(constraints):
    """order-insensitive form of a constraint list (opb_sat is a conjunction of sums)"""
    return sorted((tuple(sorted(c[:-2])), c[-2], c[-1]) for c in constraints)


def opb_py(constraints):
    """model reply ((coeff lit) ...) op deg  ->  cnfgen's list form"""
    return [[tuple(t) for t in c[0]] + [c[1], c[2]] for c in constraints]


def impl_formula(fam, p):
    """('ok', numvar, clauses, numvar_opb, constraints) or ('exc', name, msg)"""
    from cnfgen.formula.cnf import CNF
    from cnfgen.formula.opb import OPB
    a = outcome(lambda: fam['build'](p, CNF))
    if p.get('only_cnf') and a[0] == 'ok':       # a large instance compared under class CNF only
        return ('ok', a[1].number_of_variables(), [list(c) for c in a[1]], a[1].number_of_variables(), None)
    b = outcome(lambda: fam['build'](p, OPB))
    if a[0] == 'exc' or b[0] == 'exc':
        e = a if a[0] == 'exc' else b
        return ('exc', e[1], e[2], a[0], b[0])
    F, G = a[1], b[1]
    return ('ok', F.number_of_variables(), [list(c) for c in F], G.number_of_variables(),
            [[tuple(t) if isinstance(t, (tuple, list)) else t for t in c] for c in G])


def agrees(impl, rep):
    """does the implementation's outcome agree with a model reply?  returns (bool, detail)"""
    if is_error(rep):
        return False, 'model error ' + str(rep[1])
    raises = isinstance(rep, list) and len(rep) == 2 and rep[0] == 'raises'
    if impl[0] == 'exc':
        if raises and impl[1] == rep[1] and impl[3] == 'exc' and impl[4] == 'exc':
            return True, 'raises'
        return False, 'implementation raised %s, model %s' % (impl[1], 'raises ' + rep[1] if raises else 'returns a formula')
    if raises:
        return False, 'model raises %s, implementation returns a formula' % rep[1]
    nv, cl, opb = rep
    if impl[1] != nv or impl[3] != nv:
        return False, 'number of variables: implementation %d (CNF) / %d (OPB), model %d' % (impl[1], impl[3], nv)
    if impl[2] != cl and canon(impl[2]) != canon(cl):
        return False, 'clause sets differ'
    if impl[4] is None:
        return True, ('exact' if impl[2] == cl else 'order')
    mo = opb_py(opb)
    if impl[4] != mo:
        if canon_opb(impl[4]) != canon_opb(mo):
            return False, 'OPB constraint sets differ'
        return True, 'order'
    if impl[2] != cl:
        return True, 'order'
    return True, 'exact'


def property_fails(fam, p, impl, deep=True):
    """search a concrete witness that the PROPERTY fails on the implementation's formula for p.
    Returns a dict describing the failure, or None.  deep=False: only the cheap bit-parallel checks
    (SAT/UNSAT against the existence oracle, model count)."""
    if impl[0] != 'ok':
        return None
    n, clauses = impl[1], impl[2]
    ex = fam['exists'](p) if fam.get('exists') else None
    if n <= MAX_ENUM:
        try:
            tab = cnf_table(n, clauses) if n > 0 else (1 if all(len(c) > 0 for c in clauses) else 0)
        except Exception as e:   # literal outside 1..n etc.
            return dict(malformed=repr(e))
        if deep and n <= 12 and impl[4] is not None:
            otab = opb_models(n, impl[4])
            if otab != tab:
                idx = (otab ^ tab).bit_length() - 1
                return dict(kind='CNF and OPB renderings differ', assignment=assignment_of(idx, n)[1:])
        if ex is not None and (tab != 0) != ex:
            d = dict(kind='satisfiability', formula_satisfiable=tab != 0, witness_exists=ex)
            if tab:
                d['model'] = assignment_of(tab.bit_length() - 1, n)[1:]
            return d
        cnt = fam['count'](p) if fam.get('count') else None
        if cnt is not None and ex and bin(tab).count('1') != cnt:
            return dict(kind='model count', models=bin(tab).count('1'), witnesses=cnt)
        dec = fam.get('decode_ok')
        if deep and dec is not None and n <= DECODE_ENUM + 2:
            for idx in range(1 << n):
                a = assignment_of(idx, n)
                try:
                    want = dec(p, a)
                except IndexError:
                    return dict(kind='variable count does not fit the documented layout')
                if want != bool((tab >> idx) & 1):
                    return dict(kind='characterisation', assignment=a[1:], formula_true=bool((tab >> idx) & 1), witness=want)
        return None
    if ex is not None:
        verdict = z3_sat(n, clauses)
        if verdict is not None and verdict != ex:
            return dict(kind='satisfiability (z3)', formula_satisfiable=verdict, witness_exists=ex)
    return None


def short(x, lim=600):
    s = json.dumps(x, default=str)
    return s if len(s) <= lim else s[:lim] + '...'


def pkey(fam, p):
    return fam['name'] + ':' + json.dumps({k: v for k, v in p.items() if k != 'stream'}, sort_keys=True)


def tally(ctx, fam, p):
    name = fam['name']
    gs = [v for k, v in p.items() if isinstance(v, dict) and 'edges' in v]
    for g in gs:
        n = g['n']
        ctx.tally(name + ' vertices', n if n <= 6 else '%d-%d' % (n // 10 * 10, n // 10 * 10 + 9))
        if n >= 2:
            dens = len(g['edges']) / (n * (n - 1) / 2)
            ctx.tally(name + ' density', '%.1f' % (int(dens * 5) / 5))
    for k, v in p.items():
        if k in ('k', 'd', 's') and isinstance(v, int):
            ctx.tally(name + ' ' + k, v if v <= 6 else '>6')
        elif isinstance(v, bool):
            ctx.tally(name + ' ' + k, v)
    st = p.get('stream')
    if st in ('thresholds', 'shapes', 'history'):
        ctx.tally('stream ' + st, name)
        for k, v in sorted(p.get('raw', {}).items()):
            ctx.tally('shapes: flag passed as', repr(v))
        if p.get('same_object'):
            ctx.tally('shapes: one Graph object for both arguments', name)
        if 'ops' in p:
            ctx.tally('history: generator calls on the same object', sum(1 for o in p['ops'] if o[0] == 'gen'))
            for o in p['ops']:
                if o[0] != 'gen':
                    ctx.tally('history: ops', o[0])
        if st == 'thresholds':
            bucket = lambda x: x if x <= 17 else '18-62' if x < 63 else x if x <= 65 else '66-126' if x < 127 else x if x <= 129 else \
                '130-254' if x < 255 else x if x <= 258 else '259-999' if x < 1000 else '>=1000'
            for g in gs:
                deg = {}
                for u, v in g['edges']:
                    deg[u] = deg.get(u, 0) + 1
                    deg[v] = deg.get(v, 0) + 1
                ctx.tally('thresholds: %s vertices' % name, bucket(g['n']))
                ctx.tally('thresholds: %s largest degree' % name, bucket(max(list(deg.values()) or [0])))
                ctx.tally('thresholds: %s isolated vertices' % name, 'yes' if len(deg) < g['n'] else 'no')
            for k in ('k', 'd', 's'):
                if isinstance(p.get(k), int):
                    ctx.tally('thresholds: %s %s' % (name, k), bucket(p[k]) if p[k] >= 0 else p[k])
        if name == 'tseitin' and p['charges'] is not None and st == 'shapes':
            for c in p['charges']:
                ctx.tally('shapes: tseitin charge passed as', repr(c))
    if name == 'tseitin':
        ch = p['charges']
        ctx.tally('tseitin charges', 'None' if ch is None else ('len=n' if len(ch) == p['G']['n'] else ('shorter' if len(ch) < p['G']['n'] else 'longer')))


def check_graph_views(ctx, seen, g):
    """the model takes a graph as (n, sorted edge list): check that this IS what cnfgen.Graph shows
    (edges() in lexicographic order with u < v, neighbors() sorted) and that the hypothesis graph_wf of
    the theorems holds for it"""
    key = (g['n'], tuple(tuple(e) for e in g['edges']))
    if key in seen:
        return
    seen[key] = g
    G = fam_c02.to_impl_graph(g)
    impl_edges = [list(e) for e in G.edges()]
    nb_ok = all(list(G.neighbors(v)) == sorted(set(G.neighbors(v))) for v in range(1, g['n'] + 1))
    if impl_edges != g['edges'] or G.number_of_vertices() != g['n'] or not nb_ok:
        ctx.violation('correspondence', 'cnfgen.Graph.edges()/neighbors() are not in the order the models assume',
                      dict(input=dict(graph=g), implementation=short(impl_edges)), False, site='Graph', cls='edge-order')


def run(ctx):
    import_impl()
    quick = ctx.tier == 'quick'
    ctx.assumptions += [
        'streams thresholds/shapes/history (notes/LARGE_STREAMS.md): a flag passed as a truthy/falsy non-bool is compared with the model on '
        'bool(flag); Tseitin charges are compared with the model on bool(charge); a graph with a history (public API calls, the same object '
        'handed to the generator several times with edits in between) is compared with the model on the edge set the harness computed by '
        'itself (fam_streams.simulate); instances marked only_cnf are compared under class CNF only',
        'driver commands of the C02 families render the CNF through to_cnf_f (coq/FamFastFacts.v: to_cnf_f l = to_cnf l)']
    seen_graphs = {}
    deferred = []   # known-class reports: (has_failing_input, args for ctx.violation)
    order_notes = {}
    for fam in fam_c02.FAMILIES:
        name = fam['name']
        site = fam['site']
        # the corpus of large / rare / history cases first, then the exhaustive small and random ones
        ps = (fam['streams'](ctx.rng, ctx.tier) if fam.get('streams') else []) + fam['params'](ctx.rng, ctx.tier)
        reqs = [fam['request'](p) for p in ps]
        spec_idx = {}
        if fam.get('request_spec'):
            for i, p in enumerate(ps):
                spec_idx[i] = len(reqs)
                reqs.append(fam['request_spec'](p))
        replies = fast_batch(reqs, timeout=1500)      # lib.Model.batch with a faster reader for replies of several MB
        deep_budget = 250 if quick else 1500
        nsmall = sum(1 for p in ps if p.get('stream') == 'small')
        deep_prob = min(1.0, deep_budget / max(1, nsmall))
        for i, p in enumerate(ps):
            stream = name + '/' + p.get('stream', 'small')
            gs = [v for k, v in p.items() if isinstance(v, dict) and 'edges' in v]
            ctx.count(stream, pkey(fam, p), nontrivial=any(g['n'] >= 1 for g in gs), sample=p)
            for g in gs:
                check_graph_views(ctx, seen_graphs, g)
            tally(ctx, fam, p)
            impl = impl_formula(fam, p)
            rep = replies[i]
            ok, detail = agrees(impl, rep)
            cls_known = fam['finding'](p) if fam.get('finding') else None
            used_variant = 'as_is'
            if i in spec_idx:
                ok_s, detail_s = agrees(impl, replies[spec_idx[i]])
                if ok_s:
                    ok, detail, used_variant = True, detail_s, 'spec'
                elif ok and cls_known is not None and replies[spec_idx[i]] != rep:
                    # the code behaves like the faithful model of a known deviation on an input of its class
                    why = property_fails(fam, p, impl)
                    deferred.append((why is not None, dict(
                        kind='counterexample' if why is not None else 'correspondence',
                        what='%s agrees with the model variant as_is (known deviation) and not with the documented variant' % site,
                        replay=dict(input=dict(family=name, params=p), failure=why, model_variant='as_is',
                                    theorem='Prop_C02: ramlb_refuted / iso_nontrivial_ignored'),
                        found=why is not None, site=cls_known[0], cls=cls_known[1])))
            if ok and detail == 'order':
                order_notes.setdefault(name, [0, p])[0] += 1
            if not ok:
                ctx.disagreements_checked += 1
                if impl[0] == 'exc' and not (isinstance(rep, list) and rep and rep[0] == 'raises'):
                    rcls = (fam['raise_class'](p, impl[1]) if fam.get('raise_class') else None) or 'raises-' + impl[1]
                    ctx.violation('counterexample', '%s raised %s on a valid input' % (site, impl[1]),
                                  dict(input=dict(family=name, params=p), implementation=list(impl[1:3]), model='returns a formula'),
                                  True, site=site, cls=rcls)
                    continue
                why = property_fails(fam, p, impl)
                rp = dict(input=dict(family=name, params=p), difference=detail,
                          implementation=short(impl[1:], 1500), model=short(rep, 1500),
                          correspondence='coq/Fam_*.v (%s) <-> %s; theorems of Prop_C02.v no longer cover the code' % (name, site))
                if why is not None:
                    rp['failure'] = why
                    ctx.violation('counterexample', 'the formula of %s does not mean the documented property' % site, rp, True,
                                  site=site, cls='semantics')
                else:
                    ctx.violation('correspondence', '%s differs from its model (%s)' % (site, detail), rp, False, site=site, cls='shape')
                continue
            # ---- semantic tests on small instances (tests, not theorems) ----
            if impl[0] == 'ok' and p.get('stream') in ('small', 'shapes', 'history') and impl[1] <= TEST_ENUM:
                deep = impl[1] <= DECODE_ENUM and (p['stream'] != 'small' or ctx.rng.random() < deep_prob)
                ctx.count(name + ('/semantic-deep' if deep else '/semantic'), None, False)
                why = property_fails(fam, p, impl, deep=deep)
                if why is not None:
                    if cls_known is not None and used_variant == 'as_is':
                        continue    # already reported above with its failing input
                    ctx.violation('counterexample', 'semantic test: the formula of %s does not mean the documented property' % site,
                                  dict(input=dict(family=name, params=p), failure=why), True, site=site, cls='semantics')
    # hypothesis of the theorems on every graph used
    gl = list(seen_graphs.values())
    wf = ctx.model.batch([[Sym('graph_wf'), g['n'], [list(e) for e in g['edges']]] for g in gl])
    for g, r in zip(gl, wf):
        if r is not True:
            ctx.violation('correspondence', 'a generated graph does not satisfy graph_wf (hypothesis of the theorems)',
                          dict(input=dict(graph=g), model=str(r)), False, site='harness', cls='graph_wf')
    ctx.tally('distinct graphs', len(gl))
    for name, (cnt, p) in sorted(order_notes.items()):
        ctx.note('%s: clause/constraint ORDER differs from the model on %d instance(s), e.g. %s (same set: not a violation)'
                 % (name, cnt, short(p, 200)))
    # known-class reports: the ones that carry a failing input first
    for _, v in sorted(deferred, key=lambda t: not t[0]):
        ctx.violation(v['kind'], v['what'], v['replay'], v['found'], site=v['site'], cls=v['cls'])
    ctx.exhaustive = False


TRUSTED = ['harness/fam_c02.py oracles (decode_ok, exists, count) written from the documentation',
           'z3 (python3-vt) only in failing-input search above %d variables' % MAX_ENUM]
