"""C01 -- pigeonhole, matching and counting families encode exactly their principle.

Correspondence: for every family of harness/fam_c01.py and every parameter choice
of its generator, the formula built by cnfgen (classes CNF and OPB) is compared with
the formula of the extracted Coq model (coq/Fam_*.v):  number of variables, the
CANONICAL clause set (sorted set of sorted clauses; SemFacts.cnf_sat_set_ext says the
models are the same), and the OPB constraint list in order.  A difference in clause
order only is recorded as a note.  On a disagreement the implementation's formula is
evaluated on all assignments (<= 20 variables) against the independent oracle
`decode_ok` (both directions) and its satisfiability is compared with `exists`.

In addition, as a TEST of the oracles (it proves nothing), small instances are
brute-forced against `decode_ok` on every run (stream 'oracle-small')."""
import itertools
import json

from lib import cmd, outcome, is_error, import_impl, lit_true, cnf_sat, pb_sat, assignments, Sym
from fam_streams import fast_batch

META = dict(
    technique='Coq theorems T1/T2/T3 per family about the builder-call IR (Prop_C01.v) + extracted-model differential check '
              '(number of variables, canonical clause sets, ordered OPB constraint lists) at small exhaustive and random large sizes',
    category='proof',
    text='Machine-checked theorems state, for all parameters / graphs and all assignments, that the model of each family '
         '(PHP plain/functional/onto, graph PHP, binary PHP, relativized PHP, counting, perfect matching, subset cardinality, '
         'clique-colouring) is satisfied exactly by the encodings of the documented combinatorial objects, that every object is '
         'encoded (by exactly one assignment on the documented variables for php/gphp/count/matching/subsetcard) and the classical '
         'satisfiability criteria; the model is tied to the code by comparing the generated CNF and OPB formulas.',
    note='Trusted: Coq kernel, extraction, OCaml driver, harness. The model is hand-written; agreement with the code is checked on '
         'the enumerated/sampled parameters only (see input_distribution). Graph arguments are cnfgen BipartiteGraph/Graph objects '
         '(sorted duplicate-free adjacency), networkx inputs are not exercised here. bphp bit count uses the exact ceil(log2).',
    design_ref='5/C01',
)
RULE = ('one case = one (family, parameters, formula class) comparison or one malformed call; non-trivial = the formula has '
        'at least one variable or one clause; distinct = distinct (stream, family, parameters, class) keys')
TRUSTED = ['independent oracles decode_ok/exists of harness/fam_c01.py are used only to search failing inputs and as a labelled test',
           'picosat (or z3 from python3-vt) with a timeout, only inside the failing-input search; every candidate is re-checked by evaluation']

BRUTE = 20


def canon(clauses):
    return sorted({tuple(sorted(c)) for c in clauses})


def pbc_to_py(c):
    terms, op, deg = c
    return [tuple(t) for t in terms] + [op, deg]


def norm_opb(F):
    return [[tuple(x) if isinstance(x, (list, tuple)) else x for x in c] for c in F]


def key_of(p):
    return json.dumps(p, sort_keys=True)


def classify(fam, p):
    """deterministic class of an input, used to match known findings"""
    if fam['name'] == 'bphp' and (p.get('m', 1) == 0 or p.get('n', 1) == 0):
        return 'zero-pigeons-or-holes'
    return 'general'


def semantic_search(fam, p, numvar, sat_fun, limit=BRUTE, max_mentioned=lambda: 0):
    """search a failing input of the PROPERTY on the implementation's formula:
    an assignment whose satisfaction differs from the oracle, or SAT differing from `exists`."""
    if numvar is None or numvar > limit:
        return None
    top = max_mentioned()
    if top > numvar:
        return dict(reason='the formula mentions variable %d beyond its number of variables %d' % (top, numvar))
    anysat = False
    for a in assignments(numvar):
        s = sat_fun(a)
        anysat = anysat or s
        try:
            ok = fam['decode_ok'](p, a)
        except IndexError:
            return dict(reason='the formula has fewer variables than documented', numvar=numvar, documented=fam['numvar_doc'](p))
        if s != ok:
            return dict(reason='assignment satisfies the formula' if s else 'assignment describes a documented object but falsifies the formula',
                        assignment=[int(x) for x in a[1:]], formula_satisfied=s, object_ok=ok)
    ex = fam['exists'](p)
    if ex is not None and ex != anysat:
        return dict(reason='satisfiability differs from existence of the object', satisfiable=anysat, object_exists=ex)
    return None


def sat_solve(nv, clauses, timeout=15):
    """SAT oracle used ONLY inside the failing-input search: an assignment (list indexed by variable),
    False (unsatisfiable) or None (unknown / no solver / timeout)."""
    import os
    import subprocess
    import tempfile
    text = 'p cnf %d %d\n' % (nv, len(clauses)) + ''.join(' '.join(map(str, c)) + ' 0\n' for c in clauses)
    try:
        if os.path.exists('/usr/bin/picosat'):
            r = subprocess.run(['/usr/bin/picosat'], input=text, capture_output=True, text=True, timeout=timeout)
            if r.returncode == 20:
                return False
            if r.returncode != 10:
                return None
            a = [None] + [False] * nv
            for ln in r.stdout.split('\n'):
                if ln.startswith('v '):
                    for t in ln[2:].split():
                        v = int(t)
                        if v != 0 and abs(v) <= nv:
                            a[abs(v)] = v > 0
            return a
        with tempfile.NamedTemporaryFile('w', suffix='.cnf', delete=False) as f:
            f.write(text)
        prog = ('import z3,sys\ns=z3.Solver()\ns.from_file(sys.argv[1])\nr=s.check()\n'
                'print(r)\nif r==z3.sat:\n m=s.model()\n print(" ".join(d.name()[2:] for d in m.decls() if z3.is_true(m[d])))')
        r = subprocess.run(['python3-vt', '-c', prog, f.name], capture_output=True, text=True, timeout=timeout)
        os.unlink(f.name)
        out = r.stdout.split('\n')
        if out[0] == 'unsat':
            return False
        if out[0] != 'sat':
            return None
        a = [None] + [False] * nv
        for t in out[1].split():
            if t.isdigit() and int(t) <= nv:
                a[int(t)] = True
        return a
    except Exception:
        return None


def sat_guided_search(fam, p, nv, impl, model, queries=8):
    """The model's clause set is PROVED to describe exactly the objects (T1).  For a clause of the model
    missing in the implementation look for an assignment satisfying the implementation and falsifying
    that clause (a non-object accepted); for an extra clause of the implementation look for an
    assignment satisfying the model (an object) and falsifying it.  Every candidate is re-checked with the
    independent oracle decode_ok before it is reported."""
    ci, cm = set(canon(impl)), set(canon(model))
    if any(len(c) == 0 for c in impl) and any(len(c) == 0 for c in model):
        return None
    n = 0
    for c in sorted(cm - ci, key=len):
        if n >= queries:
            break
        n += 1
        a = sat_solve(nv, impl + [[-l] for l in c])
        if a:
            try:
                ok = fam['decode_ok'](p, a)
            except IndexError:
                ok = None
            if ok is False and cnf_sat(a, impl):
                return dict(reason='assignment satisfies the formula', formula_satisfied=True, object_ok=False,
                            true_variables=[v for v in range(1, nv + 1) if a[v]][:400])
    n = 0
    for c in sorted(ci - cm, key=len):
        if n >= queries:
            break
        n += 1
        a = sat_solve(nv, model + [[-l] for l in c])
        if a:
            try:
                ok = fam['decode_ok'](p, a)
            except IndexError:
                ok = None
            if ok is True and not cnf_sat(a, impl):
                return dict(reason='assignment describes a documented object but falsifies the formula', formula_satisfied=False,
                            object_ok=True, true_variables=[v for v in range(1, nv + 1) if a[v]][:400])
    return None


def compare_one(ctx, fam, p, reply, stream):
    """compare cnfgen and the model on one parameter choice (both formula classes)."""
    from cnfgen.formula.cnf import CNF
    from cnfgen.formula.opb import OPB
    name = fam['name']
    descr = dict(family=name, params=p)
    model_raises = isinstance(reply, list) and len(reply) == 2 and reply[0] == 'raises'
    if is_error(reply):
        ctx.violation('correspondence', 'model error: %r' % (reply,), dict(input=descr, model=reply), False, site='model-error', cls=name)
        return
    docvalid = fam.get('documented_valid', lambda q: True)(p)
    for cls_name, fclass in (('CNF', CNF), ('OPB', OPB)):
        if p.get('only') and cls_name not in p['only']:
            continue
        ctx.count(stream + '-' + cls_name, (name, key_of(p)), True, sample=dict(descr, cls=cls_name))
        got = outcome(fam['build'], p, fclass)
        site = fam['site']
        if got[0] == 'exc':
            if model_raises and got[1] == reply[1]:
                if docvalid and stream != 'malformed':
                    ctx.disagreements_checked += 1
                    ctx.violation('counterexample', '%s raises %s on parameters the documentation declares valid' % (site, got[1]),
                                  dict(input=dict(descr, cls=cls_name), implementation=list(got[1:]),
                                       expected='a formula satisfiable iff the object exists (documented domain: >= 0)'),
                                  True, site=site, cls=classify(fam, p))
                continue
            ctx.disagreements_checked += 1
            ctx.violation('counterexample', '%s raised %s on a valid input' % (site, got[1]),
                          dict(input=dict(descr, cls=cls_name), implementation=list(got[1:]), model='raises' if model_raises else 'formula'),
                          True, site=site, cls='raises-%s' % got[1])
            continue
        F = got[1]
        nv = F.number_of_variables()
        if cls_name == 'CNF':
            impl = [list(c) for c in F]
            sat_fun = lambda a, impl=impl: cnf_sat(a, impl)
            top = lambda impl=impl: max([abs(l) for c in impl for l in c] or [0])
        else:
            impl = norm_opb(list(F))
            sat_fun = lambda a, impl=impl: all(pb_sat(a, c) for c in impl)
            top = lambda impl=impl: max([abs(t[1]) for c in impl for t in c[:-2]] or [0])
        if model_raises:
            ctx.disagreements_checked += 1
            if docvalid and stream != 'malformed':
                # the model is faithful to a known deviation; the code now builds a formula: accept it iff it is right.
                # First the documented-behaviour variant of the model (f_spec of DESIGN 6.6), then the oracle.
                if 'spec_request' in fam:
                    srep = ctx.model.batch([fam['spec_request'](p)])[0]
                    if not is_error(srep) and not (len(srep) == 2 and srep[0] == 'raises'):
                        s_nv, s_cnf, s_opb = srep
                        same = (nv == s_nv and (canon(impl) == canon(s_cnf) if cls_name == 'CNF'
                                                else impl == [pbc_to_py(c) for c in s_opb]))
                        if same:
                            ctx.note('%s%r (%s): implementation agrees with the documented-behaviour model (finding repaired)'
                                     % (name, p, cls_name))
                            continue
                w = semantic_search(fam, p, nv, sat_fun, max_mentioned=top)
                if w is None and nv <= BRUTE:
                    ctx.note('%s%r: the implementation now returns a formula that passes the oracle (deviation repaired?)' % (name, p))
                    continue
                ctx.violation('counterexample' if w else 'correspondence', '%s returns a formula where the model raises' % site,
                              dict(input=dict(descr, cls=cls_name), witness=w, model=reply), bool(w), site=site, cls='formula-instead-of-error')
            else:
                ctx.violation('counterexample', '%s accepts arguments outside the documented domain (documented: %s)' % (site, reply[1]),
                              dict(input=dict(descr, cls=cls_name), numvar=nv), True, site=site, cls='accepts-malformed')
            continue
        m_nv, m_cnf, m_opb = reply
        ok = True
        order_only = False
        if nv != m_nv:
            ok = False
        if cls_name == 'CNF':
            if impl != m_cnf:
                if canon(impl) == canon(m_cnf):
                    order_only = True
                else:
                    ok = False
        else:
            mo = [pbc_to_py(c) for c in m_opb]
            if impl != mo:
                # the constraint list is a conjunction: a permutation has the same models (opb_sat is a forallb)
                if sorted(map(repr, impl)) == sorted(map(repr, mo)):
                    order_only = True
                else:
                    ok = False
        doc = fam['numvar_doc'](p)
        if doc is not None and doc != nv:
            ctx.disagreements_checked += 1
            ctx.violation('counterexample', '%s: number of variables %d differs from the documented %d' % (site, nv, doc),
                          dict(input=dict(descr, cls=cls_name), numvar=nv, documented=doc), True, site=site, cls='numvar')
        if order_only:
            ctx.note('%s %s: clause order differs from the model, same clause set (e.g. %s)' % (name, cls_name, key_of(p)[:120]))
            ctx.order_notes = getattr(ctx, 'order_notes', 0) + 1
        if ok:
            continue
        # ---- disagreement: look for an input on which the property itself fails
        ctx.disagreements_checked += 1
        found = ctx.__dict__.setdefault('c01_found', set())
        if (site, cls_name) in found:
            # a failing input of this site/class is already in a replay file: only count this occurrence
            ctx.violation('counterexample', 'see first occurrence', {}, True, site=site, cls='semantics-' + cls_name)
            continue
        w = semantic_search(fam, p, nv, sat_fun, max_mentioned=top)
        if w is None and nv > BRUTE and cls_name == 'CNF' and nv == m_nv:
            w = sat_guided_search(fam, p, nv, impl, m_cnf)
        rp = dict(input=dict(descr, cls=cls_name), numvar=dict(implementation=nv, model=m_nv),
                  correspondence='coq/Fam_*.v (%s) <-> %s' % (name, site), theorems='C01_%s_*' % name)
        if len(impl) <= 400:
            rp['implementation'] = impl
            rp['model'] = m_cnf if cls_name == 'CNF' else [pbc_to_py(c) for c in m_opb]
        if w is not None:
            rp['witness'] = w
            found.add((site, cls_name))
            ctx.violation('counterexample', '%s (%s): the formula does not encode its principle: %s' % (site, cls_name, w['reason']),
                          rp, True, site=site, cls='semantics-' + cls_name)
        else:
            ctx.violation('correspondence', '%s (%s): formula differs from the model; theorems C01_%s_* no longer cover the code'
                          % (site, cls_name, name), rp, False, site=site, cls='differs-' + cls_name)


def oracle_test(ctx, fam, p, limit):
    """TEST (not a proof): brute-force the implementation's CNF against the oracle on a small instance"""
    from cnfgen.formula.cnf import CNF
    got = outcome(fam['build'], p, CNF)
    if got[0] != 'ok':
        return
    F = got[1]
    nv = F.number_of_variables()
    if nv > limit:
        return
    impl = [list(c) for c in F]
    ctx.count('oracle-small', (fam['name'], key_of(p)), nv > 0 or len(impl) > 0)
    w = semantic_search(fam, p, nv, lambda a: cnf_sat(a, impl), limit=limit,
                        max_mentioned=lambda: max([abs(l) for c in impl for l in c] or [0]))
    if w is not None:
        ctx.violation('counterexample', '%s: the formula does not encode its principle: %s' % (fam['site'], w['reason']),
                      dict(input=dict(family=fam['name'], params=p, cls='CNF'), witness=w, implementation=impl[:200]),
                      True, site=fam['site'], cls='semantics-CNF')


def tally(ctx, fam, p):
    name = fam['name']
    ctx.tally('family', name)
    ctx.tally(name + ' size class', 'large/random' if p.get('big') else 'small/exhaustive')
    for k in ('functional', 'onto', 'equalities'):
        if k in p:
            ctx.tally('%s %s' % (name, k), p[k])
    if 'density' in p:
        ctx.tally(name + ' density', '%.1f' % p['density'])
    if 'adj' in p:
        ctx.tally(name + ' isolated vertices', 'yes' if any(not r for r in p['adj']) or
                  any(all(v not in r for r in p['adj']) for v in range(1, p['R'] + 1)) else 'no')
        if p.get('big'):
            ctx.tally(name + ' left+right vertices', 10 * ((p['L'] + p['R']) // 10))
    if 'edges' in p:
        deg = {}
        for u, v in p['edges']:
            deg[u] = deg[v] = 1
        ctx.tally(name + ' isolated vertices', 'yes' if len(deg) < p['n'] else 'no')
        if p.get('big'):
            ctx.tally(name + ' vertices', 10 * (p['n'] // 10))
    for k in ('m', 'n', 'r', 'M', 'p', 'k', 'c'):
        if k in p and not p.get('big'):
            ctx.tally('%s %s' % (name, k), p[k])
        elif k in p:
            ctx.tally('%s %s (large)' % (name, k), '%d-%d' % (10 * (p[k] // 10), 10 * (p[k] // 10) + 9))


def tally_stream(ctx, fam, p):
    name = fam['name']
    ctx.tally('family', name)
    ctx.tally('stream ' + p['stream'], name)
    for k, v in sorted(p.get('raw', {}).items()):
        ctx.tally('shapes: flag passed as', repr(v))
    if 'ops' in p:
        ctx.tally('history: generator calls on the same object', sum(1 for o in p['ops'] if o[0] == 'gen'))
        for o in p['ops']:
            if o[0] != 'gen':
                ctx.tally('history: ops', o[0])
    if p['stream'] == 'thresholds':
        bucket = lambda x: x if x <= 17 else '18-62' if x < 63 else x if x <= 65 else '66-126' if x < 127 else x if x <= 129 else \
            '130-254' if x < 255 else x if x <= 258 else '259-999' if x < 1000 else '1000-1025' if x <= 1025 else '>= 65535' if x >= 65535 else '1026-65534'
        for k in ('m', 'n', 'r', 'M', 'p', 'k', 'c', 'L', 'R'):
            if k in p:
                ctx.tally('thresholds: %s %s' % (name, k), bucket(p[k]))
        if 'adj' in p:
            ctx.tally('thresholds: %s largest left degree' % name, bucket(max([len(r) for r in p['adj']] or [0])))
            rd = {}
            for r in p['adj']:
                for v in r:
                    rd[v] = rd.get(v, 0) + 1
            ctx.tally('thresholds: %s largest right degree' % name, bucket(max(list(rd.values()) or [0])))
            ctx.tally('thresholds: %s largest right vertex with an edge' % name, bucket(max(list(rd) or [0])))
        if 'edges' in p:
            deg = {}
            for u, v in p['edges']:
                deg[u] = deg.get(u, 0) + 1
                deg[v] = deg.get(v, 0) + 1
            ctx.tally('thresholds: %s largest degree' % name, bucket(max(list(deg.values()) or [0])))
            ctx.tally('thresholds: %s isolated vertices' % name, 'yes' if len(deg) < p['n'] else 'no')


def run_streams(ctx, families, small_limit):
    """the threshold / shape / history corpus (notes/LARGE_STREAMS.md), before the enumerated and random streams"""
    import fam_c01
    ctx.assumptions += [
        'streams thresholds/shapes/history: a flag passed as a truthy/falsy non-bool is compared with the model on bool(flag); a graph '
        'with a history (public API calls, the same object handed to the generator several times with edits in between) is compared '
        'with the model on the edge set the harness computed by itself (fam_streams.simulate)',
        'bipartite graphs with a side of 65535 vertices or more go through the driver commands fam_gphp_fast / fam_subsetcard_fast '
        '(ocaml/glue_fam_c01.ml: the extracted gphp_ir / subsetcard_ir with Model.upto, quadratic, replaced by a native range); these '
        'are compared with fam_gphp / fam_subsetcard on every run (stream fast-path)' +
        ('' if ctx.tier == 'quick' else '; one instance with 65537 right vertices also goes through the extracted function itself')]
    for fam in families:
        if not fam.get('streams'):
            continue
        ps = fam['streams'](ctx.rng, ctx.tier)
        replies = fast_batch([fam['request'](p) for p in ps], timeout=1500)
        for p, rep in zip(ps, replies):
            tally_stream(ctx, fam, p)
            compare_one(ctx, fam, p, rep, p['stream'])
            if p['stream'] in ('shapes', 'history'):
                oracle_test(ctx, fam, p, small_limit)
    byname = {f['name']: f for f in families}
    jobs = [(byname[n], p) for (n, p) in fam_c01.fast_check_params(ctx.rng, ctx.tier) if n in byname]
    if ctx.tier != 'quick' and 'gphp' in byname:
        R = 65537
        jobs.append((byname['gphp'], dict(L=3, R=R, adj=[[1, 65536], [65535, R], []], functional=True, onto=True)))
    slow = fast_batch([fam['request'](p) for fam, p in jobs], timeout=1500)
    fast = fast_batch([fam['request'](dict(p, fast=True)) for fam, p in jobs], timeout=1500)
    for (fam, p), a, b in zip(jobs, slow, fast):
        ctx.count('fast-path', (fam['name'], key_of(p)), True)
        if a != b or is_error(a):
            ctx.violation('correspondence', 'harness: driver command fam_%s_fast differs from the extracted function' % fam['name'],
                          dict(input=dict(family=fam['name'], params=p)), False, site='harness', cls='fast-path')
        elif p['R'] >= 65535:
            compare_one(ctx, fam, dict(p, stream='thresholds', big=True), a, 'thresholds')


def run_families(ctx, families, malformed=()):
    import_impl()
    quick = ctx.tier == 'quick'
    small_limit = 10 if quick else 12
    run_streams(ctx, families, small_limit)
    for fam in families:
        ps = fam['params'](ctx.rng, ctx.tier)
        small = [p for p in ps if not p.get('big')]
        big = [p for p in ps if p.get('big')]
        for p in ps:
            tally(ctx, fam, p)
        # small ones in chunks, big ones one request per process call (replies are large)
        for i in range(0, len(small), 300):
            chunk = small[i:i + 300]
            replies = fast_batch([fam['request'](p) for p in chunk])
            for p, rep in zip(chunk, replies):
                compare_one(ctx, fam, p, rep, 'small')
                oracle_test(ctx, fam, p, small_limit)
        for p in big:
            rep = fast_batch([fam['request'](p)])[0]
            compare_one(ctx, fam, p, rep, 'large')
    byname = {f['name']: f for f in families}
    for (name, p, exc) in malformed:
        fam = byname[name]
        ctx.tally('malformed', name)
        rep = ctx.model.batch([fam['request'](p)])[0]
        compare_one(ctx, fam, p, rep, 'malformed')
    # documented TypeError for non-integers (no model involved)
    ctx.exhaustive = False


def type_errors(ctx):
    from cnfgen.families.pigeonhole import PigeonholePrinciple, BinaryPigeonholePrinciple, RelativizedPigeonholePrinciple
    from cnfgen.families.counting import CountingPrinciple
    from cnfgen.families.cliquecoloring import CliqueColoring
    calls = [('PigeonholePrinciple', lambda: PigeonholePrinciple(2.5, 3)), ('PigeonholePrinciple', lambda: PigeonholePrinciple(2, 'x')),
             ('BinaryPigeonholePrinciple', lambda: BinaryPigeonholePrinciple(2.0, 3)),
             ('RelativizedPigeonholePrinciple', lambda: RelativizedPigeonholePrinciple(2, None, 3)),
             ('CountingPrinciple', lambda: CountingPrinciple('4', 2)), ('CliqueColoring', lambda: CliqueColoring(3, 2.5, 2))]
    for site, f in calls:
        ctx.count('malformed-type', site, True)
        got = outcome(f)
        if got[0] == 'ok' or got[1] not in ('TypeError', 'ValueError'):
            ctx.violation('counterexample', '%s: non-integer argument not rejected with TypeError/ValueError (%r)' % (site, got[:2]),
                          dict(input=dict(call=site), implementation=[str(x) for x in got[:2]]), True, site=site, cls='type-check')


def run(ctx):
    from fam_c01 import FAMILIES, MALFORMED
    run_families(ctx, FAMILIES, MALFORMED)
    type_errors(ctx)


def replay(ctx, rp):
    from fam_c01 import FAMILIES
    import_impl()
    inp = rp.get('input', {})
    fam = {f['name']: f for f in FAMILIES}.get(inp.get('family'))
    if fam is None:
        return run(ctx)
    p = inp['params']
    rep = ctx.model.batch([fam['request'](p)])[0]
    compare_one(ctx, fam, p, rep, 'replay')
    oracle_test(ctx, fam, p, BRUTE)
