"""Fork server used by the C17 files stream (harness/c17_files.py): runs of `cnfgen` and `kthlist2pebbling` with a
working directory and a standard input of their own.

    python files_child.py <repo> [<limit seconds>]      requests on stdin, replies on stdout, one JSON value per line

A request is a JSON object {"tool": "cnfgen" | "kthlist2pebbling" | "pbgen", "argv": [...], "cwd": directory,
"stdin": text (latin-1 of the bytes)}.  The tools are imported ONCE; every request is served by a child obtained
with os.fork(): it changes to the directory, points file descriptor 0 to a temporary file holding the stdin bytes
and the descriptors 1 and 2 to two temporary files (sys.stdin / sys.stdout / sys.stderr stay the interpreter's own
objects; the server never reads its requests through sys.stdin, so that object has nothing buffered), limits its
address space to 2 GiB, installs sys.argv and calls the tool's main().  Reply: {"rc", "out", "err", "timeout"} as
in pipeline_child.py.
"""
import importlib
import json
import os
import signal
import sys
import tempfile
import time


MEMORY_LIMIT = 2 << 30
MODS = {'cnfgen': 'cnfgen.clitools.cnfgen', 'pbgen': 'cnfgen.clitools.pbgen', 'kthlist2pebbling': 'cnfgen.clitools.kthlist2pebbling'}


def serve(limit):
    mods = {t: importlib.import_module(m) for t, m in MODS.items()}
    req = os.fdopen(os.dup(0), 'r', encoding='utf-8')       # requests: never through sys.stdin
    out = sys.stdout
    tmpdir = tempfile.mkdtemp(prefix='files-child-')
    fo, fe, fi = (os.path.join(tmpdir, x) for x in 'oei')
    for line in req:
        line = line.strip()
        if not line:
            continue
        r = json.loads(line)
        with open(fi, 'wb') as f:
            f.write(r.get('stdin', '').encode('latin-1'))
        out.flush()
        pid = os.fork()
        if pid == 0:
            rc = 70
            try:
                try:
                    import resource
                    resource.setrlimit(resource.RLIMIT_AS, (MEMORY_LIMIT, MEMORY_LIMIT))
                except Exception:
                    pass
                os.chdir(r['cwd'])
                o = os.open(fo, os.O_WRONLY | os.O_CREAT | os.O_TRUNC, 0o600)
                e = os.open(fe, os.O_WRONLY | os.O_CREAT | os.O_TRUNC, 0o600)
                z = os.open(fi, os.O_RDONLY)
                os.dup2(z, 0)
                os.dup2(o, 1)
                os.dup2(e, 2)
                sys.argv = [r['tool']] + [str(a) for a in r['argv']]
                rc = 0
                try:
                    mods[r['tool']].main()
                except SystemExit as x:
                    c = x.code
                    if c is None:
                        rc = 0
                    elif isinstance(c, int):
                        rc = c & 0xff
                    else:
                        try:
                            sys.stderr.write(str(c) + '\n')
                        except Exception:
                            pass
                        rc = 1
                except BaseException:
                    import traceback
                    try:
                        traceback.print_exc(file=sys.stderr)
                    except Exception:
                        os.write(2, traceback.format_exc().encode())
                    rc = 1
                for s in (sys.stdout, sys.stderr):
                    try:
                        s.flush()
                    except Exception:
                        pass
            finally:
                os._exit(rc)
        t0 = time.time()
        timed_out = False
        while True:
            done, status = os.waitpid(pid, os.WNOHANG)
            if done:
                break
            if time.time() - t0 > limit:
                os.kill(pid, signal.SIGKILL)
                os.waitpid(pid, 0)
                timed_out = True
                status = None
                break
            time.sleep(0.0005 if time.time() - t0 < 0.2 else 0.01)
        if status is None:
            rc = None
        elif os.WIFEXITED(status):
            rc = os.WEXITSTATUS(status)
        else:
            rc = -os.WTERMSIG(status)
        try:
            ob = open(fo, 'rb').read()
        except OSError:
            ob = b''
        try:
            eb = open(fe, 'rb').read()
        except OSError:
            eb = b''
        err = eb.decode('latin-1') if len(eb) < 6000 else eb[:2000].decode('latin-1') + ' ... ' + eb[-3000:].decode('latin-1')
        out.write(json.dumps(dict(rc=rc, out=ob.decode('latin-1'), err=err, timeout=timed_out)) + '\n')
        out.flush()
    for f in (fo, fe, fi):
        try:
            os.unlink(f)
        except OSError:
            pass
    try:
        os.rmdir(tmpdir)
    except OSError:
        pass


def main():
    repo = sys.argv[1]
    limit = float(sys.argv[2]) if len(sys.argv) > 2 else 60.0
    sys.path.insert(0, repo)
    serve(limit)


if __name__ == '__main__':
    main()
