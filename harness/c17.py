"""C17 -- a command line builds the same formula as the library call it stands for.

Theorem side (coq/Cli.v, CliFacts.v, Prop_C17.v): splitting the command line
around -T is the inverse of joining with -T and no chunk contains -T; a chain
is applied left to right (fold).  Correspondence (three-way where a family
model exists): for each sampled abstract command the harness renders the argv
and the documented library call; the CLI result (mode='formula'), the library
result and -- through the FAMILIES registries of the family slices -- the
extracted model must agree on the number of variables, the variable names and
the clauses (CLI vs library: clause by clause in order)."""
import io
import os
import random
import shutil
import tempfile

import clirun
from lib import cmd, Sym, import_impl, outcome

META = dict(
    technique='Coq theorems on a whole-program model argv -> bytes of cnfgen (sub-command and option parsing, graph arguments, family models, -T chains, writers, header) + byte-for-byte comparison with the real tool + three-way differential: CLI vs documented library call vs extracted family models + seeded library sessions',
    category='proof',
    text='Theorems (Prop_C17.v, Prop_C17_variants.v, Prop_C17_pipeline.v, Prop_C17_files.v, Prop_C17_chain.v: the latter adds file arguments read by the C14 reader models, kthlist2pebbling = cnfgen peb on the same file text for every text, cnfgen dimacs idempotent through the tool, totality over all argv, file maps and stdin; Prop_C17_chain.v composes the two whole-program models along the pipe `cnfgen <argv> | cnfgen -q dimacs`: the same bytes come out): split_T is a right inverse of joining with -T for every argv; in the '
         'model cnfgen_main, a chain -T t1 ... -T tk equals the left-to-right fold of the transformation models over the family model (induction '
         'on the number of chunks), whatever is written reads back as exactly that formula with all literals in range, every argv yields output, '
         'a clean error or "outside the modelled grammar", and each variant option (php --functional/--onto, op variants and --plant, output '
         'format, quiet) selects exactly that variant. Tied to the code byte for byte on generated command lines inside the grammar (valid and '
         'malformed), and, for everything outside it (files, save, random graphs and seeds, shuffle, compression, pbgen, kthlist2pebbling), by the '
         'differential run: command line = documented library generator on the same numbers and the same graphs (the graph stored by save, wherever '
         'save stands), chain = transformation functions left to right, seeded command line = one seeded library session.',
    note='Outside the grammar of Pipeline.v argparse is not modelled (abbreviated options, = forms, help). Trusted: the table in harness/c17.py that '
         'pairs each command line with its documented library call (written from the documentation); Coq kernel, extraction, harness.',
    design_ref='5/C17',
)
RULE = ('abstract commands sampled per sub-command (every sub-command, every variant option subset, numbers 0..5, random small graphs written to '
        'files in every format valid for the type) x transformation chains of length 0-3; non-trivial = formula with at least one clause; distinct = distinct argv')


def run(ctx):
    import_impl()
    import cnfgen
    from cnfgen.formula.cnf import CNF
    from cnfgen.formula.opb import OPB
    from cnfgen.clitools.cnfgen import cli as cnfgen_cli
    from cnfgen.clitools.pbgen import cli as pbgen_cli
    from cnfgen.clitools.kthlist2pebbling import cli as k2p_cli
    from cnfgen.clitools.cnfshuffle import cli as shuffle_cli
    from cnfgen.clitools.cmdline import redirect_stdin
    from cnfgen import graphs
    rng = ctx.rng
    quick = ctx.tier == 'quick'
    base = tempfile.mkdtemp(prefix='c17-')
    counter = [0]

    def fname(ext):
        counter[0] += 1
        return os.path.join(base, 'g%d.%s' % (counter[0], ext))

    def rand_simple():
        n = rng.choice([0, 1, 1, 2, 3, 4, 5])      # tiny graphs on purpose: special cases live there
        G = cnfgen.Graph(n)
        for u in range(1, n + 1):
            for v in range(u + 1, n + 1):
                if rng.random() < 0.5:
                    G.add_edge(u, v)
        return G

    def rand_bip():
        l, r = rng.randint(1, 4), rng.randint(1, 4)
        B = cnfgen.BipartiteGraph(l, r)
        for u in range(1, l + 1):
            for v in range(1, r + 1):
                if rng.random() < 0.6:
                    B.add_edge(u, v)
        return B

    def rand_dag():
        n = rng.choice([0, 1, 1, 2, 3, 4, 5])
        D = cnfgen.DirectedGraph(n)
        for v in range(2, n + 1):
            for u in rng.sample(range(1, v), rng.randint(0, min(2, v - 1))):
                D.add_edge(u, v)
        return D

    def graph_arg(kind):
        """(argv tokens, function returning the graph object for the library call)"""
        G = {'simple': rand_simple, 'bipartite': rand_bip, 'dag': rand_dag}[kind]()
        fmts = {'simple': ['kthlist', 'gml', 'dimacs'], 'bipartite': ['kthlist', 'gml', 'matrix'], 'dag': ['kthlist', 'gml']}[kind]
        fmt = rng.choice(fmts)
        p = fname(fmt)
        cnfgen.writeGraph(G, p, kind, fmt)
        toks = [p] if rng.random() < 0.6 else [fmt, p]
        ctx.tally('graph argument', '%s file (%s)' % (kind, fmt))
        return toks, (lambda: cnfgen.readGraph(p, kind, fmt))

    def saved_random_graph(kind):
        """random construction + save: the library call gets the saved file"""
        p = fname('kthlist' if kind != 'simple' else 'gml')
        if kind == 'simple':
            n = rng.randint(2, 5)
            spec = rng.choice([['gnp', n, '.5'], ['gnm', n, rng.randint(0, n * (n - 1) // 2)], ['complete', n, 'addedges', 0], ['grid', 2, 2, 'splitedges', 1],
                               ['empty', n, 'plantclique', 2]])
        elif kind == 'bipartite':
            spec = rng.choice([['glrp', 3, 3, '.5'], ['glrd', 3, 4, 2], ['glrm', 3, 3, 2], ['regular', 4, 4, 2], ['shift', 3, 4, 1, 2], ['empty', 2, 2, 'plantbiclique', 1, 1]])
        else:
            spec = rng.choice([['pyramid', 2], ['tree', 2], ['path', 3]])
        fmt = p.rsplit('.', 1)[1]
        ctx.tally('graph argument', '%s construction %s + save' % (kind, spec[0]))
        # options may be typed in any order: `save` stores the graph the formula is built on, wherever it stands
        mods = {'simple': [['plantclique', 2], ['addedges', 1], ['splitedges', 1]], 'bipartite': [['plantbiclique', 1, 1], ['addedges', 1]], 'dag': []}[kind]
        if mods and rng.random() < 0.5 and not any(t in spec for t in ('plantclique', 'addedges', 'splitedges', 'plantbiclique')):
            groups = rng.sample(mods, rng.randint(1, len(mods))) + [['save', p]]
            rng.shuffle(groups)
            ctx.tally('graph argument', 'save before another option' if groups[-1][0] != 'save' else 'save last')
            return [str(x) for x in spec] + [str(x) for g in groups for x in g], (lambda: cnfgen.readGraph(p, kind, fmt))
        return [str(x) for x in spec] + ['save', p], (lambda: cnfgen.readGraph(p, kind, fmt))

    def garg(kind):
        return saved_random_graph(kind) if rng.random() < 0.3 else graph_arg(kind)

    R = rng.randint

    def commands():
        """yield (argv, library thunk taking formula_class, pb_ok)"""
        m, n = R(0, 4), R(0, 4)
        fu, on = rng.random() < 0.4, rng.random() < 0.4
        opts = (['--functional'] if fu else []) + (['--onto'] if on else [])
        yield ['php'] + opts + [m, n], lambda fc: cnfgen.PigeonholePrinciple(m, n, functional=fu, onto=on, formula_class=fc)
        yield ['php'] + opts + [n], lambda fc: cnfgen.PigeonholePrinciple(n + 1, n, functional=fu, onto=on, formula_class=fc)
        t, g = garg('bipartite')
        yield ['php'] + opts + t, lambda fc, g=g: cnfgen.GraphPigeonholePrinciple(g(), functional=fu, onto=on, formula_class=fc)
        a, b = R(1, 4), R(1, 4)
        yield ['bphp', a, b], lambda fc: cnfgen.BinaryPigeonholePrinciple(a, b, formula_class=fc)
        p, r, h = R(0, 3), R(0, 3), R(0, 3)
        yield ['rphp', p, r, h], lambda fc: cnfgen.RelativizedPigeonholePrinciple(p, r, h, formula_class=fc)
        cn, ck, cc = R(0, 4), R(1, 3), R(1, 3)
        yield ['cliquecoloring', cn, ck, cc], lambda fc: cnfgen.CliqueColoring(cn, ck, cc, formula_class=fc)
        M, pp = R(0, 6), R(1, 3)
        yield ['count', M, pp], lambda fc: cnfgen.CountingPrinciple(M, pp, formula_class=fc)
        yield ['parity', M], lambda fc: cnfgen.CountingPrinciple(M, 2, formula_class=fc)
        t, g = garg('simple')
        yield ['matching'] + t, lambda fc, g=g: cnfgen.PerfectMatchingPrinciple(g(), formula_class=fc)
        eq = rng.random() < 0.5
        t, g = garg('bipartite')
        yield ['subsetcard'] + (['-e'] if eq else []) + t, lambda fc, g=g: cnfgen.SubsetCardinalityFormula(g(), eq, formula_class=fc)
        t, g = garg('simple')
        ch = rng.choice(['first', 'zero', 'one'])

        def tse(fc, g=g, ch=ch):
            G = g()
            nv = G.number_of_vertices()
            charge = None if nv < 1 else {'first': [1] + [0] * (nv - 1), 'zero': [0] * nv, 'one': [1] * nv}[ch]
            return cnfgen.TseitinFormula(G, charge, formula_class=fc)
        yield ['tseitin', ch] + t, tse
        for ch2 in ('first', 'zero', 'one'):
            if ch2 != ch:
                t3, g3 = graph_arg('simple')
                yield ['tseitin', ch2] + t3, (lambda fc, g=g3, ch=ch2: tse(fc, g, ch))
        k = R(1, 3)
        t, g = garg('simple')
        yield ['kcolor', k] + t, lambda fc, g=g: cnfgen.GraphColoringFormula(g(), k, formula_class=fc)
        t, g = garg('simple')
        yield ['ec'] + t, lambda fc, g=g: cnfgen.EvenColoringFormula(g(), formula_class=fc)
        alt = rng.random() < 0.5
        d = R(1, 3)
        t, g = garg('simple')
        yield ['domset'] + (['--alternative'] if alt else []) + [d] + t, lambda fc, g=g: cnfgen.DominatingSet(g(), d, alternative=alt, formula_class=fc)
        t, g = garg('simple')
        yield ['tiling'] + t, lambda fc, g=g: cnfgen.Tiling(g(), formula_class=fc)
        t, g = graph_arg('simple')
        yield ['iso'] + t, lambda fc, g=g: cnfgen.GraphAutomorphism(g(), formula_class=fc)
        t2, g2 = graph_arg('simple')
        yield ['iso'] + t + ['-e'] + t2, lambda fc, g=g, g2=g2: cnfgen.GraphIsomorphism(g(), g2(), formula_class=fc)
        kk = R(0, 3)
        sb = rng.random() < 0.5
        t, g = garg('simple')
        yield ['kclique'] + ([] if sb else ['--no-symmetry-breaking']) + [kk] + t, lambda fc, g=g: cnfgen.CliqueFormula(g(), kk, sb, formula_class=fc)
        kb = R(1, 3)
        t, g = garg('simple')
        yield ['kcliquebin', kb] + t, lambda fc, g=g: cnfgen.BinaryCliqueFormula(g(), kb, formula_class=fc)
        rk, rs = R(0, 3), R(0, 3)
        t, g = garg('simple')
        yield ['ramlb', rk, rs] + t, lambda fc, g=g: cnfgen.RamseyWitnessFormula(g(), rk, rs, formula_class=fc)
        t, g = graph_arg('simple')
        t2, g2 = graph_arg('simple')
        yield ['subgraph', '-G'] + t + ['-H'] + t2, lambda fc, g=g, g2=g2: cnfgen.SubgraphFormula(g(), g2(), induced=False, symbreak=False, formula_class=fc)
        var = rng.choice([None, 'total', 'smart', 'knuth2', 'knuth3'])
        pl = rng.random() < 0.4
        oopt = ({None: [], 'total': ['--total'], 'smart': ['--smart'], 'knuth2': ['--knuth2'], 'knuth3': ['--knuth3']}[var] + (['--plant'] if pl else []))
        N = R(0, 5)
        kn = {'knuth2': 2, 'knuth3': 3}.get(var)
        yield ['op'] + oopt + [N], lambda fc: cnfgen.OrderingPrinciple(N, var == 'total', var == 'smart', pl, kn, formula_class=fc)
        t, g = garg('simple')
        yield ['op'] + oopt + t, lambda fc, g=g: cnfgen.GraphOrderingPrinciple(g(), var == 'total', var == 'smart', pl, kn, formula_class=fc)
        t, g = garg('dag')
        yield ['peb'] + t, lambda fc, g=g: cnfgen.PebblingFormula(g(), formula_class=fc)
        s = R(1, 3)
        t, g = garg('dag')
        yield ['stone', s] + t, lambda fc, g=g: cnfgen.StoneFormula(g(), s, formula_class=fc)
        ca, cb, ccc = R(1, 3), rng.choice([1, 2, 4]), rng.choice([1, 2, 4])
        yield ['cpls', ca, cb, ccc], lambda fc: cnfgen.CPLSFormula(ca, cb, ccc, formula_class=fc)
        pn = R(0, 14)
        yield ['ptn', pn], lambda fc: cnfgen.PythagoreanTriples(pn, formula_class=fc)
        rs_, rk_, rN = R(1, 3), R(1, 3), R(0, 5)
        yield ['ram', rs_, rk_, rN], lambda fc: cnfgen.RamseyNumber(rs_, rk_, rN, formula_class=fc)
        vN, ks = R(0, 7), [R(1, 3) for _ in range(rng.choice([2, 2, 3]))]
        yield ['vdw', vN] + ks, lambda fc: cnfgen.VanDerWaerden(vN, *ks, formula_class=fc)
        P, Ng = R(0, 3), R(0, 3)

        def mk_or(fc):
            F = fc()
            x = F.new_block(P, label='x_{}')
            y = F.new_block(Ng, label='y_{}')
            F.add_clause(list(x) + [-v for v in y])
            return F

        def mk_and(fc):
            F = fc()
            x = F.new_block(P, label='x_{}')
            y = F.new_block(Ng, label='y_{}')
            F.add_clauses_from([[v] for v in x])
            F.add_clauses_from([[-v] for v in y])
            return F
        yield ['or', P, Ng], mk_or
        yield ['and', P, Ng], mk_and
        yield ['true'], lambda fc: fc()

        def mk_false(fc):
            F = fc()
            F.add_clause([])
            return F
        yield ['false'], mk_false
        # seeded random formulas
        sd = rng.choice([0, 1, 17, -4])
        rn = R(1, 6)
        rkk = R(1, min(3, rn))
        rm = R(0, 3)

        def mk_rkcnf(fc):
            random.seed(sd)
            return cnfgen.RandomKCNF(rkk, rn, rm, formula_class=fc)

        def mk_rkxor(fc):
            random.seed(sd)
            return cnfgen.RandomKXOR(rkk, rn, rm, formula_class=fc)
        yield ['--seed', sd, 'randkcnf', rkk, rn, rm], mk_rkcnf
        yield ['--seed', sd, 'randkxor', rkk, rn, rm], mk_rkxor

    TRANS = {
        'xor': lambda F, k: cnfgen.XorSubstitution(F, k), 'or': lambda F, k: cnfgen.OrSubstitution(F, k),
        'maj': lambda F, k: cnfgen.MajoritySubstitution(F, k), 'eq': lambda F, k: cnfgen.AllEqualSubstitution(F, k),
        'neq': lambda F, k: cnfgen.NotAllEqualSubstitution(F, k), 'one': lambda F, k: cnfgen.ExactlyOneSubstitution(F, k),
        'lift': lambda F, k: cnfgen.FormulaLifting(F, k),
    }
    TRANS2 = {'exact': cnfgen.ExactlyKSubstitution, 'atleast': cnfgen.AtLeastKSubstitution, 'atmost': cnfgen.AtMostKSubstitution,
              'anybut': cnfgen.AnythingButKSubstitution}

    def chain():
        toks, funs = [], []
        for _ in range(rng.choice([0, 0, 1, 1, 2, 3] if not quick else [0, 0, 1, 1, 2])):
            t = rng.choice(list(TRANS) + list(TRANS2) + ['ite', 'flip', 'none', 'xorcomp', 'majcomp'])
            if t in TRANS:
                k = R(1, 2)
                toks += ['-T', t, k]
                funs.append(lambda F, t=t, k=k: TRANS[t](F, k))
            elif t in TRANS2:
                k = R(1, 2)
                j = R(1, k)
                toks += ['-T', t, k, j]
                funs.append(lambda F, t=t, k=k, j=j: TRANS2[t](F, k, j))
            elif t == 'ite':
                toks += ['-T', 'ite']
                funs.append(lambda F: cnfgen.IfThenElseSubstitution(F))
            elif t == 'flip':
                toks += ['-T', 'flip']
                funs.append(lambda F: cnfgen.FlipPolarity(F))
            elif t == 'none':
                toks += ['-T', 'none']
                funs.append(lambda F: F)
            else:
                tk, g = graph_arg('bipartite')
                toks += ['-T', t] + tk
                funs.append(lambda F, g=g, t=t: cnfgen.VariableCompression(F, g(), function='xor' if t == 'xorcomp' else 'maj'))
        return toks, funs

    def snap(F):
        return dict(numvar=F.number_of_variables(), labels=list(F.all_variable_labels()), clauses=[list(c) if isinstance(c, (list, tuple)) else c for c in F])

    cases = []
    rounds = 6 if quick else 40
    for _ in range(rounds):
        for argv, lib in commands():
            cases.append(([str(a) for a in argv], lib))
    split_reqs, split_expect = [], []
    for argv, lib in cases:
        sub = next(a for a in argv if not a.startswith('-') and not a.lstrip('-').isdigit())
        ctx.tally('sub-command', sub)
        for tool in (['cnfgen'] if rng.random() < 0.7 else ['cnfgen', 'pbgen']):
            fc = CNF if tool == 'cnfgen' else OPB
            toks, funs = chain() if tool == 'cnfgen' else ([], [])
            full = argv + [str(x) for x in toks]
            if tool == 'cnfgen':
                chunks, cur = [], []
                for a in [tool] + full:
                    if a == '-T':
                        chunks.append(cur)
                        cur = []
                    else:
                        cur.append(a)
                chunks.append(cur)
                split_reqs.append(cmd('split_T', [tool] + full))
                split_expect.append(chunks)

            def via_cli(tool=tool, full=full):
                return (cnfgen_cli if tool == 'cnfgen' else pbgen_cli)([tool] + full, mode='formula')

            class TooBig(Exception):
                pass

            def via_lib(lib=lib, funs=funs, fc=fc):
                F = lib(fc)
                for f in funs:
                    if len(F) > 3000 or F.number_of_variables() > 400 or sum(len(c) for c in F) > 12000 or max([len(c) for c in F] + [0]) > 10:
                        raise TooBig()          # a substitution costs about 2^width per clause
                    F = f(F)
                if len(F) > 60000:
                    raise TooBig()
                return F
            if 'save' in full:
                # the command line writes the file the library call reads.  It runs twice under one seed: first without the
                # chain (cheap; it stores the graph), then - if the library side says the chain is affordable - in full
                sd = str(rng.randint(0, 10 ** 6))
                head = full[:full.index('-T')] if '-T' in full else full
                cli_f = cnfgen_cli if tool == 'cnfgen' else pbgen_cli
                a = outcome(lambda: cli_f([tool, '-S', sd] + head, mode='formula'))
                b = outcome(via_lib)
                if not (b[0] == 'exc' and b[1] == 'TooBig') and head != full:
                    a = outcome(lambda: cli_f([tool, '-S', sd] + full, mode='formula'))
            else:
                b = outcome(via_lib)
                if b[0] == 'exc' and b[1] == 'TooBig':
                    ctx.tally('skipped', 'chain would be too large')
                    continue
                a = outcome(via_cli)
            if b[0] == 'exc' and b[1] == 'TooBig':
                ctx.tally('skipped', 'chain would be too large')
                continue
            descr = dict(tool=tool, argv=full)
            if a[0] == 'ok' and b[0] == 'ok':
                sa, sb = snap(a[1]), snap(b[1])
                ctx.count('cli-vs-library', (tool, tuple(full)), nontrivial=len(sa['clauses']) > 0, sample=dict(descr, numvar=sa['numvar'], nclauses=len(sa['clauses'])))
                ctx.tally('formula class', 'OPB' if tool == 'pbgen' else 'CNF')
                ctx.tally('chain length', len(funs))
                if type(a[1]).__name__ != type(b[1]).__name__:
                    ctx.violation('counterexample', 'command line builds a %s, the library call a %s' % (type(a[1]).__name__, type(b[1]).__name__),
                                  dict(input=descr, cli_class=type(a[1]).__name__, library_class=type(b[1]).__name__), True, site='formula-class', cls=sub)
                elif sa != sb:
                    which = [k for k in sa if sa[k] != sb[k]]
                    ctx.violation('counterexample', 'command line and library call build different formulas (%s differ)' % ','.join(which),
                                  dict(input=descr, cli={k: str(sa[k])[:400] for k in which}, library={k: str(sb[k])[:400] for k in which}), True,
                                  site='cli-vs-library', cls=sub + ('' if not funs else '+T'))
            else:
                ctx.count('cli-vs-library', (tool, tuple(full)), nontrivial=False)
                ea = a[1] if a[0] == 'exc' else 'ok'
                eb = b[1] if b[0] == 'exc' else 'ok'
                ctx.tally('both-or-one rejected', '%s/%s' % (ea, eb))
                if (a[0] == 'ok') != (b[0] == 'ok') and not (ea == 'CLIError' and eb == 'ValueError'):
                    ctx.violation('counterexample', 'command line %s but the library call %s' % ('succeeds' if a[0] == 'ok' else 'fails with ' + ea, 'succeeds' if b[0] == 'ok' else 'fails with ' + eb),
                                  dict(input=descr, cli=str(a[1:])[:300], library=str(b[1:])[:300]), True, site='accept-mismatch', cls=sub)
    # split_T: the model's chunks equal the chunks the tool builds (same algorithm as parse_command_line)
    for req, want, rep in zip(split_reqs, split_expect, ctx.model.batch(split_reqs)):
        ctx.count('split_T', tuple(req[1]), nontrivial='-T' in req[1])
        if rep != want:
            ctx.violation('correspondence', 'split_T (Cli.v) differs from the chunks of parse_command_line', dict(input=req[1], model=rep, expected=want, theorem='C17_split_T'),
                          False, site='split_T', cls='chunks')

    # ---------- kthlist2pebbling equals `peb` on the same file; quiet/verbose/varnames/format select variants only ----------
    procs = []
    for _ in range(6 if quick else 60):
        p = fname('kthlist')
        cnfgen.writeGraph(rand_dag(), p, 'dag', 'kthlist')
        tr = rng.choice([[], ['xor', '2'], ['or', '2'], ['lift', '2']])
        procs.append(('k2p', p, tr))
    for kind, p, tr in procs:
        a = clirun.run_cli('kthlist2pebbling', ['-i', p] + tr)
        b = clirun.run_cli('cnfgen', ['peb', 'kthlist', p] + (['-T'] + tr if tr else []))

        def body(x):
            return [ln for ln in x['out'].decode().split('\n') if ln.strip() and not ln.startswith('c')]
        ctx.count('kthlist2pebbling-vs-peb', (p, tuple(tr)), nontrivial=True, sample=dict(file=open(p).read(), transformation=tr))
        if a['rc'] != b['rc'] or body(a) != body(b):
            ctx.violation('counterexample', 'kthlist2pebbling differs from cnfgen peb on the same file', dict(input=dict(file=open(p).read(), transformation=tr),
                          kthlist2pebbling=a['out'].decode()[:400], cnfgen_peb=b['out'].decode()[:400]), True, site='kthlist2pebbling', cls='body')
        # -q must drop the header and change nothing else
        q = clirun.run_cli('kthlist2pebbling', ['-q', '-i', p] + tr)
        if q['rc'] == 0 and (body(q) != body(a) or any(ln.startswith('c') for ln in q['out'].decode().split('\n'))):
            ctx.violation('counterexample', 'kthlist2pebbling -q does not select the header-less variant', dict(input=dict(file=open(p).read(), transformation=tr, option='-q'),
                          output=q['out'].decode()[:300]), True, site='kthlist2pebbling', cls='quiet-ignored')
    opt_cases = []
    for _ in range(8 if quick else 80):
        argv, lib = rng.choice([c for c in cases if 'save' not in c[0] and '--seed' not in c[0]])
        opt_cases.append((argv, lib))
    for argv, lib in opt_cases:
        b = outcome(lambda: lib(CNF))
        if b[0] != 'ok':
            continue
        F = b[1]
        plain = clirun.run_cli('cnfgen', argv)
        quiet = clirun.run_cli('cnfgen', ['-q'] + argv)
        names = clirun.run_cli('cnfgen', ['-q', '--varnames'] + argv)
        opb = clirun.run_cli('cnfgen', ['-q', '-of', 'opb'] + argv)
        ctx.count('options', tuple(argv), nontrivial=True, sample=dict(argv=argv))
        want_q = F.to_dimacs() if False else None
        buf = io.StringIO()
        F.to_file(buf, fileformat='dimacs', export_header=False)
        if quiet['rc'] == 0 and quiet['out'].decode() != buf.getvalue():
            ctx.violation('counterexample', '-q output differs from the header-less DIMACS of the library formula', dict(input=dict(argv=['-q'] + argv),
                          cli=quiet['out'].decode()[:300], library=buf.getvalue()[:300]), True, site='options', cls='quiet')
        if plain['rc'] == 0 and [ln for ln in plain['out'].decode().split('\n') if not ln.startswith('c')] != buf.getvalue().split('\n'):
            ctx.violation('counterexample', 'default (verbose) output differs from the library formula beyond comment lines', dict(input=dict(argv=argv)), True, site='options', cls='verbose')
        buf2 = io.StringIO()
        F.to_file(buf2, fileformat='dimacs', export_header=False, export_varnames=True)
        if names['rc'] == 0 and names['out'].decode() != buf2.getvalue():
            ctx.violation('counterexample', '--varnames output differs from the library formula written with names', dict(input=dict(argv=['-q', '--varnames'] + argv),
                          cli=names['out'].decode()[:300], library=buf2.getvalue()[:300]), True, site='options', cls='varnames')
        buf3 = io.StringIO()
        F.to_file(buf3, fileformat='opb', export_header=False)
        if opb['rc'] == 0 and opb['out'].decode() != buf3.getvalue():
            ctx.violation('counterexample', '-of opb output differs from the library formula written as OPB', dict(input=dict(argv=['-q', '-of', 'opb'] + argv),
                          cli=opb['out'].decode()[:300], library=buf3.getvalue()[:300]), True, site='options', cls='opb-format')
    # the `dimacs` sub-command reading from a pipe, in every output format: equals the library reading the same text
    for text in ('p cnf 3 2\n1 -3 0\n2 3 -1 0\n', 'p cnf 2 0\n', 'c only\np cnf 1 1\n1 0\n'):
        F = CNF.from_file(io.StringIO(text))
        for fmt, opts in (('dimacs', []), ('opb', ['-of', 'opb']), ('latex', ['-of', 'latex']), ('latex', ['-l'])):
            for tr, fun in (([], lambda X: X), (['-T', 'flip'], cnfgen.FlipPolarity)):
                r = clirun.run_cli('cnfgen', ['-q'] + opts + ['dimacs'] + tr, stdin=text.encode())
                buf = io.StringIO()
                fun(F).to_file(buf, fileformat=fmt, export_header=False)
                ctx.count('options', ('dimacs-pipe', fmt, tuple(tr), text), nontrivial=True)
                if r['rc'] != 0 or (fmt != 'latex' and r['out'].decode() != buf.getvalue()) or (fmt == 'latex' and not r['out']):
                    ctx.violation('counterexample', 'cnfgen %s dimacs (formula piped on stdin) differs from the library reading the same text (exit %s)' % (' '.join(opts), r['rc']),
                                  dict(input=dict(argv=['-q'] + opts + ['dimacs'] + tr, stdin=text), cli=r['out'].decode()[:300], stderr=r['err'].decode()[-300:], library=buf.getvalue()[:300]),
                                  True, site='dimacs-pipe', cls=fmt)
    # cnfshuffle -q
    r = clirun.run_cli('cnfshuffle', ['-q', '--seed', '3'], stdin=b'p cnf 2 2\n1 -2 0\n2 0\n')
    ctx.count('options', 'cnfshuffle -q', nontrivial=True)
    if r['rc'] == 0 and any(ln.startswith('c') for ln in r['out'].decode().split('\n')):
        ctx.violation('counterexample', 'cnfshuffle -q still prints the comment header', dict(input=dict(tool='cnfshuffle', argv=['-q', '--seed', '3']), output=r['out'].decode()[:300]),
                      True, site='cnfshuffle', cls='quiet-ignored')
    shutil.rmtree(base, ignore_errors=True)
    seeded_sessions(ctx)
    three_way(ctx)
    import c17_pipeline
    c17_pipeline.run_pipeline(ctx)
    import c17_files
    c17_files.run_files_pipeline(ctx)


def three_way(ctx):
    """CLI vs extracted family models, through the FAMILIES registries of the family slices (when present)"""
    import importlib
    fams = []
    for m in ('fam_c01', 'fam_c02', 'fam_c03'):
        try:
            fams += importlib.import_module(m).FAMILIES
        except ImportError:
            ctx.note('registry %s not present yet' % m)
    if not fams:
        return
    from cnfgen.clitools.cnfgen import cli as cnfgen_cli
    from lib import is_error
    tmp = tempfile.mkdtemp(prefix='c17f-')
    jobs = []
    for fam in fams:
        if not fam.get('cli'):
            continue
        ps = fam['params'](ctx.rng, 'quick')
        for p in ps[:12 if ctx.tier == 'quick' else 60]:
            sub = os.path.join(tmp, 'j%d' % len(jobs))      # one directory per job: `cli` writes graph files with fixed names
            os.makedirs(sub, exist_ok=True)
            try:
                argv = fam['cli'](p, sub)
            except Exception:
                argv = None
            if argv is None:
                continue
            jobs.append((fam, p, [str(a) for a in argv]))
    from lib import family_replies
    replies = family_replies(ctx.model, [(j[0], j[1]) for j in jobs])
    for (fam, p, argv), reps in zip(jobs, replies):
        a = outcome(lambda: cnfgen_cli(['cnfgen'] + argv, mode='formula'))
        ctx.count('cli-vs-model', (fam['name'], tuple(argv)), nontrivial=True, sample=dict(family=fam['name'], argv=argv))
        ctx.tally('three-way family', fam['name'])
        good = [r for r in reps if not is_error(r) and isinstance(r, list) and len(r) >= 2]
        if a[0] != 'ok' or not good:
            continue
        F = a[1]
        canon = lambda cl: sorted(set(tuple(sorted(c)) for c in cl))
        rep = good[0]
        if not any(F.number_of_variables() == r[0] and canon(list(F)) == canon(r[1]) for r in good):
            ctx.violation('correspondence', 'command line formula differs from the family model %s' % fam['name'],
                          dict(input=dict(argv=argv, params=p), cli_numvar=F.number_of_variables(), model_numvar=rep[0]), False, site='cli-vs-model', cls=fam['name'])
    shutil.rmtree(tmp, ignore_errors=True)


def seeded_sessions(ctx):
    """`--seed S` is the seed "for any random process in the program": a command line that draws random numbers in several
    places (a random graph argument, random charges, a random transformation) stands for ONE library session
        random.seed(S); G = <graph named by the argument>; F = generator(G); F = T1(F); ...
    in which every random step continues the stream of the previous one.  The graph of the session is compared with the one
    `save` stores, so both sides talk about the same graph."""
    import random
    import cnfgen
    from cnfgen.formula.cnf import CNF
    from cnfgen.formula.opb import OPB
    from cnfgen.clitools.cnfgen import cli as cnfgen_cli
    from cnfgen.clitools.pbgen import cli as pbgen_cli
    from cnfgen.clitools.graph_args import make_graph_from_spec
    rng = ctx.rng
    base = tempfile.mkdtemp(prefix='c17s-')

    def charges(kind, G):
        ch = [random.randint(0, 1) for _ in range(G.order() - 1)]
        par = sum(ch) % 2
        ch.append(random.randint(0, 1) if kind == 'random' else (1 - par if kind == 'randomodd' else par))
        return ch

    def simple_spec():
        n = rng.randint(4, 9)
        return [str(x) for x in rng.choice([['gnp', n, '0.5'], ['gnm', n, rng.randint(2, n)], ['gnd', 2 * (n // 2 + 1), 3],
                                            ['grid', 3, 3, 'plantclique', 3], ['complete', n, 'splitedges', 2], ['gnm', n, 3, 'addedges', 2],
                                            ['grid', 2, 3]])]

    def bip_spec():
        return [str(x) for x in rng.choice([['glrp', 4, 4, '0.5'], ['glrd', 4, 5, 2], ['glrm', 4, 4, 6], ['regular', 4, 4, 2],
                                            ['glrd', 3, 4, 2, 'addedges', 2], ['complete', 2, 3]])]

    def shapes():
        k = rng.randint(2, 3)
        sp = simple_spec()
        yield ['kcolor', str(k)], ('simple', sp), (lambda fc, G: cnfgen.GraphColoringFormula(G, k, formula_class=fc))
        ck = rng.choice(['random', 'randomodd', 'randomeven'])
        sp = simple_spec()
        yield ['tseitin', ck], ('simple', sp), (lambda fc, G: cnfgen.TseitinFormula(G, charges(ck, G), formula_class=fc))
        sp = simple_spec()
        yield ['matching'], ('simple', sp), (lambda fc, G: cnfgen.PerfectMatchingPrinciple(G, formula_class=fc))
        sp = bip_spec()
        yield ['subsetcard'], ('bipartite', sp), (lambda fc, G: cnfgen.SubsetCardinalityFormula(G, formula_class=fc))
        sp = bip_spec()
        yield ['php'], ('bipartite', sp), (lambda fc, G: cnfgen.GraphPigeonholePrinciple(G, formula_class=fc))
        kk, nn, mm = rng.randint(2, 3), rng.randint(4, 7), rng.randint(2, 6)
        yield ['randkcnf', str(kk), str(nn), str(mm)], None, (lambda fc, G: cnfgen.RandomKCNF(kk, nn, mm, formula_class=fc))

    def steps(nv_hint):
        out = []
        for _ in range(rng.choice([0, 1, 1, 2])):
            t = rng.choice(['shuffle', 'shuffle-p', 'xorcomp', 'majcomp', 'xor', 'flip'])
            if t == 'shuffle':
                out.append((['shuffle'], lambda F: cnfgen.Shuffle(F)))
            elif t == 'shuffle-p':
                out.append((['shuffle', '-p'], lambda F: cnfgen.Shuffle(F, polarity_flips='fixed')))
            elif t in ('xorcomp', 'majcomp'):
                N, d = rng.randint(3, 6), rng.randint(1, 3)
                fn = 'xor' if t == 'xorcomp' else 'maj'
                out.append(([t, str(N), str(d)], lambda F, N=N, d=d, fn=fn: cnfgen.VariableCompression(
                    F, make_graph_from_spec('bipartite', ['glrd', len(list(F.variables())), N, d]), function=fn)))
            elif t == 'xor':
                out.append((['xor', '2'], lambda F: cnfgen.XorSubstitution(F, 2)))
            else:
                out.append((['flip'], lambda F: cnfgen.FlipPolarity(F)))
        return out

    def sig(F):
        return (F.number_of_variables(), list(F.all_variable_labels()), [list(c) if isinstance(c, (list, tuple)) else c for c in F])
    rounds = 5 if ctx.tier == 'quick' else 40
    n = 0
    for _ in range(rounds):
        for fcmd, gs, gen in shapes():
            for tool in ('cnfgen', 'pbgen'):
                seed = rng.choice([0, 1, 3, 77, -5, 2 ** 40])
                chain = steps(0) if tool == 'cnfgen' else []
                n += 1
                saved = os.path.join(base, 's%d.%s' % (n, 'gml' if gs and gs[0] == 'simple' else 'kthlist'))
                argv = [tool, '-q', '-S', str(seed)] + fcmd + ((gs[1] + ['save', saved]) if gs else [])
                for tk, _ in chain:
                    argv += ['-T'] + tk
                fc = CNF if tool == 'cnfgen' else OPB

                class TooBig(Exception):
                    pass

                def session():
                    random.seed(seed)
                    G = make_graph_from_spec(gs[0], gs[1]) if gs else None
                    F = gen(fc, G)
                    for tk, fn in chain:
                        # a substitution multiplies a clause of width w by about 2^(w*(arity-1)): keep the session small
                        ar = 2 if tk[0] == 'xor' else (int(tk[2]) if tk[0] in ('xorcomp', 'majcomp') else 1)
                        if len(F) > 3000 or sum(2 ** min(len(c) * (ar - 1), 40) for c in F) > 30000:
                            raise TooBig()
                        F = fn(F)
                    return F, G
                b = outcome(session)          # the session runs first: it decides whether the command line is affordable
                if b[0] == 'exc' and b[1] == 'TooBig':
                    ctx.tally('seeded session: skipped', 'chain would be too large')
                    continue
                a = outcome(lambda: (cnfgen_cli if tool == 'cnfgen' else pbgen_cli)(argv, mode='formula'))
                random_places = (1 if gs and any(t in gs[1] for t in ('gnp', 'gnm', 'gnd', 'glrp', 'glrd', 'glrm', 'regular', 'plantclique', 'addedges', 'splitedges')) else 0) \
                    + (1 if fcmd[0] in ('tseitin', 'randkcnf') else 0) + sum(1 for tk, _ in chain if tk[0] in ('shuffle', 'xorcomp', 'majcomp'))
                ctx.count('seeded-sessions', ('seeded', tuple(argv[1:])), nontrivial=random_places >= 2, sample=dict(argv=argv))
                ctx.tally('seeded session: places drawing random numbers', random_places)
                descr = dict(tool=tool, argv=[x.replace(base, '<tmp>') for x in argv[1:]], seed=seed)
                if a[0] != 'ok' or b[0] != 'ok':
                    if a[0] != b[0]:      # both refuse (CLIError / SystemExit on one side, ValueError on the other): agreement
                        ctx.violation('counterexample', 'seeded command line ends in %r, the seeded library session in %r' % (a[:2], b[:2]),
                                      dict(input=descr), True, site='seeded-session', cls=fcmd[0])
                    continue
                F, (L, G) = a[1], b[1]
                if gs:
                    S = cnfgen.readGraph(saved, gs[0])
                    same_graph = (S.order() == G.order() and sorted(S.edges()) == sorted(G.edges())) if gs[0] == 'simple' else \
                        (S.left_order() == G.left_order() and S.right_order() == G.right_order() and sorted(S.edges()) == sorted(G.edges()))
                    if not same_graph:
                        ctx.violation('counterexample', 'the graph the seeded command line stores with save is not the one the graph argument names under the same seed',
                                      dict(input=descr), True, site='seeded-session', cls='graph')
                        continue
                if sig(F) != sig(L):
                    ctx.violation('counterexample', 'seeded command line differs from the library session random.seed(S); graph; generator; transformations left to right '
                                  '(%d vs %d variables, %d vs %d clauses)' % (F.number_of_variables(), L.number_of_variables(), len(F), len(L)),
                                  dict(input=descr, random_places=random_places), True, site='seeded-session', cls=fcmd[0])
    shutil.rmtree(base, ignore_errors=True)
