"""C12 (pipeline part) -- the whole-program models `cnfgen_main_tex` / `pbgen_main_tex` (coq/PipelineTex.v) against the
real tools: the LaTeX document (-l / --latex / -of latex / --output-format latex), the variable names (--varnames) and
the comment header of the sub-commands with a graph argument.

`run_latex_pipeline(ctx)` is called from harness/c12.py.  For every generated argument vector (the generator of
harness/c17_pipeline.py with the output options of the main parser put in front of the formula name)

    model   = extracted cnfgen_main_tex / pbgen_main_tex (driver commands tex_pipeline / tex_pb_pipeline, given
              info['version'] of the installation)                        POut text | PCliError | PCrash | POutside
    tool    = the real `cnfgen` / `pbgen` in a child process (fork server harness/pipeline_child.py: 2 GiB address-space
              cap and a time limit per run)                               exit status, stdout bytes, stderr

POut: the tool must exit 0 with exactly those bytes; PCliError: exit 255, nothing on stdout, a prefixed message, no
traceback; POutside on a command of the generated grammar is reported (this includes the model's own check of the
names failing, see coq/PipelineTex.v).

The statement itself is ALSO checked on the real output of every valid case, with decoders written for this file from
the description of the formats (not the model's): the rows of the LaTeX document against the formula the tool holds in
memory (cli(argv, mode='formula') in this process: clauses / constraints in order, names from
all_variable_labels('x_{}')), the `c varname i name` / `* varname xi name` lines against all_variable_labels(), the
formula part of a DIMACS / OPB text with names against the clauses / constraints in memory, and the shape of the header
(description, generator, copyright, url, transformation 1..k, command line).  A disagreement between model and tool is
classified with these checks: the property fails on the real output -> kind counterexample (property C12, or C19 when
it is the header), else kind correspondence (the model no longer covers the code; replay key `property` says C19 when
the bytes differ in header entries only)."""
import re
import time

import clirun
import lib
import c17_pipeline as P

WORKERS = 12
LATEX_SPELLINGS = [['-l'], ['--latex'], ['-of', 'latex'], ['--output-format', 'latex']]


def run_tool(tool, argvs, workers=WORKERS, limit=60):
    if not argvs:
        return []
    k = max(1, min(workers, len(argvs) // 8 or 1))
    shards = [argvs[i::k] for i in range(k)]
    res = clirun.parallel([(lambda s=s: P._serve(s, tool=tool, limit=limit)) for s in shards], workers=k)
    out = [None] * len(argvs)
    for i, shard in enumerate(res):
        for j, r in enumerate(shard):
            out[i + j * k] = r
    return out


# --------------------------------------------------------------------------
# decoders written from the format descriptions
# --------------------------------------------------------------------------
class Undecodable(Exception):
    pass


def decode_literal(tok):
    """(positive?, variable name) of a literal as the LaTeX writer shows it"""
    if tok.startswith('{\\overline{') and tok.endswith('}'):
        x = tok[len('{\\overline{'):-1]
        cands = [i for i in (x.find('_'), x.find('^')) if i > 0]
        if not cands:
            raise Undecodable(tok)
        k = min(cands)
        if x[k - 1] != '}':
            raise Undecodable(tok)
        return (False, x[:k - 1] + x[k:])
    if tok.startswith('\\overline{') and tok.endswith('}'):
        return (False, tok[len('\\overline{'):-1])
    if tok.startswith('{') and tok.endswith('}'):
        return (True, tok[1:-1])
    raise Undecodable(tok)


def decode_document(doc, opb):
    """dict(title, header lines or None, counts line, top, rows, blocks) of a document written by to_latex_document"""
    if not doc.endswith('\n\\end{document}'):
        raise Undecodable('no \\end{document} at the end')
    i = doc.find('\\begin{align}')
    if i < 0:
        raise Undecodable('no align block')
    front, body = doc[:i], doc[i:-len('\n\\end{document}')]
    m = re.search(r'\\title\{(.*)\}\n\\author', front)
    title = m.group(1) if m else None
    header = None
    if '\\begin{lstlisting}[breaklines]\n' in front:
        a = front.index('\\begin{lstlisting}[breaklines]\n') + len('\\begin{lstlisting}[breaklines]\n')
        b = front.index('\\end{lstlisting}\n', a)
        header = front[a:b].split('\n')[:-1]
    counts = front.rstrip('\n').split('\n')[-1]
    rows, top, blocks, cur = [], False, [], 0
    for line in body.split('\n'):
        s = line.strip()
        if s == '\\begin{align}':
            cur = 0
            continue
        if s in ('\\end{align}', '\\end{align}\\pagebreak'):
            blocks.append(cur)
            continue
        if s == '\\top':
            top = True
            continue
        if not s.startswith('&'):
            raise Undecodable('row without &: %r' % line[:60])
        s = s[1:].strip()
        if s.endswith('\\\\'):
            s = s[:-2].strip()
        cur += 1
        if not opb:
            if s == '\\square':
                rows.append([])
            else:
                rows.append([decode_literal(x.strip()) for x in s.split(' \\lor ')])
        else:
            m = re.match(r'^(.*) (\\geq|=) (-?[0-9]+)$', s)
            if not m:
                raise Undecodable('constraint row %r' % s[:60])
            terms = []
            if m.group(1) != '0':
                for t in m.group(1).split(' + '):
                    t = t.strip()
                    d = re.match(r'^([0-9]*)(.*)$', t)
                    terms.append((d.group(1), decode_literal(d.group(2))))
            rows.append((terms, '>=' if m.group(2) == '\\geq' else '==', int(m.group(3))))
    return dict(title=title, header=header, counts=counts, top=top, rows=rows, blocks=blocks)


def expected_rows(F, opb):
    names = list(F.all_variable_labels(default_label_format='x_{}'))
    out = []
    for c in F:
        if not opb:
            out.append([(l > 0, names[abs(l) - 1]) for l in c])
        else:
            terms = [(str(co) if co > 1 else '', (l > 0, names[abs(l) - 1])) for co, l in c[:-2]]
            out.append((terms, '>=' if c[-2] == '>=' else '==', c[-1]))
    return out


def latex_property(doc, F, opb):
    """None when the document says what C12 asks of it, else a description of the deviation"""
    try:
        d = decode_document(doc, opb)
    except Undecodable as e:
        return 'the document does not decode: %s' % e
    want = expected_rows(F, opb)
    if len(d['rows']) != len(want):
        return '%d rows for %d clauses / constraints' % (len(d['rows']), len(want))
    for i, (a, b) in enumerate(zip(d['rows'], want)):
        if a != b:
            return 'row %d shows %r, the formula holds %r' % (i + 1, a, b)
    if d['top'] != (len(want) == 0):
        return '\\top %s although the formula has %d rows' % ('present' if d['top'] else 'absent', len(want))
    if any(b > 35 for b in d['blocks']) or (len(want) > 0 and len(d['blocks']) != (len(want) + 34) // 35):
        return 'page splits: blocks of %r rows' % (d['blocks'],)
    kind = 'Pseudo-boolean formula with %d variables and and %d constraints:' if opb else 'CNF with %d variables and and %d clauses:'
    if d['counts'] != '\\noindent\\textbf{' + kind % (F.number_of_variables(), len(want)) + '}':
        return 'counts line %r' % d['counts'][:80]
    return None


def split_text(text, opb):
    """(header comment lines, varname lines, formula lines) of a DIMACS / OPB text with comments in front"""
    lines = text.split('\n')
    mark = '*' if opb else 'c'
    first = []
    if opb:
        first, lines = lines[:1], lines[1:]
    comments = []
    while lines and lines[0].startswith(mark):
        comments.append(lines.pop(0))
    vn = [c for c in comments if c.startswith(mark + ' varname ')]
    k = next((i for i, c in enumerate(comments) if c.startswith(mark + ' varname ')), None)
    if k is None:
        # no names: the header (if any) is everything up to and including its closing empty comment line; a second
        # empty comment line closes an empty block of names
        k = next((i + 1 for i, c in enumerate(comments) if c == mark), 0) if len(comments) != 1 else 0
        if len(comments) == 1:
            k = 0
    return comments[:k], vn, first + lines, comments


def names_property(text, F, opb, with_names):
    """None when the names lines / the formula part are what the formula in memory asks for"""
    head, vn, body, comments = split_text(text, opb)
    names = list(F.all_variable_labels())
    if with_names:
        want = [('* varname x%d %s' if opb else 'c varname %d %s') % (i + 1, nm) for i, nm in enumerate(names)]
        if vn != want:
            k = next((i for i, (a, b) in enumerate(zip(vn, want)) if a != b), min(len(vn), len(want)))
            return 'names lines differ from all_variable_labels() at entry %d (%d lines for %d variables): %r' % (k + 1, len(vn), len(names), vn[k:k + 1])
        if comments[len(comments) - len(vn) - 1:] != vn + ['*' if opb else 'c']:
            return 'the names are not the last block of comments, closed by an empty comment line'
    elif vn:
        return 'names lines although --varnames was not given'
    try:
        if opb:
            from c08_pipeline import read_opb
            nv, cons = read_opb('\n'.join(body))
            mem = [([(co, l) for co, l in c[:-2]], '>=' if c[-2] == '>=' else '=', c[-1]) for c in F] if hasattr(F, 'number_of_constraints') \
                else [([(1, l) for l in c], '>=', 1) for c in F]
            if nv != F.number_of_variables() or [(t, o, d) for t, o, d in cons] != mem:
                return 'the OPB text read back differs from the formula in memory'
        else:
            toks = '\n'.join(body).split()
            if toks[:2] != ['p', 'cnf']:
                return 'no problem line after the comments'
            nv, nc = int(toks[2]), int(toks[3])
            nums = [int(t) for t in toks[4:]]
            cls, cur = [], []
            for z in nums:
                if z == 0:
                    cls.append(cur)
                    cur = []
                else:
                    cur.append(z)
            if cur or nv != F.number_of_variables() or nc != len(cls) or cls != [list(c) for c in F]:
                return 'the DIMACS text read back differs from the formula in memory'
    except (ValueError, IndexError) as e:
        return 'the formula part does not read back: %s' % e
    return None


def header_property(entries, tool, argv, nsteps):
    """None when the header entries ('key: value' strings) have the documented shape"""
    keys = [e.split(': ', 1)[0] for e in entries]
    want = ['description', 'generator', 'copyright', 'url'] + ['transformation %d' % (i + 1) for i in range(nsteps)] + ['command line']
    if keys != want:
        return 'header keys %r, expected %r' % (keys, want)
    if entries[-1] != 'command line: %s %s' % (tool, ' '.join(argv)):
        return 'command line entry %r' % entries[-1][:120]
    return None


# --------------------------------------------------------------------------
# cases
# --------------------------------------------------------------------------
def out_options(rng, tool):
    """(tokens for the front of the command line, mode); mode in latex | names | plain | conflict"""
    x = rng.random()
    if x < 0.40:
        o = list(rng.choice(LATEX_SPELLINGS))
        if rng.random() < 0.25:
            o = rng.choice([o + ['--varnames'], ['--varnames'] + o, o + o, [rng.choice(['-of', '--output-format']), 'opb'] + o if o[0] in ('-of', '--output-format') else o + ['-l']])
        return o, 'latex'
    if x < 0.75:
        o = ['--varnames']
        y = rng.random()
        if y < 0.3:
            o = rng.choice([o + ['-of', 'opb'], ['--output-format', 'opb'] + o])
        elif y < 0.5 and tool == 'cnfgen':
            o = rng.choice([o + ['-of', 'dimacs'], ['-of', 'latex', '-of', 'dimacs'] + o, o + o])
        return o, 'names'
    if x < 0.90:
        return rng.choice([[], [], ['-of', 'opb'], ['-of', 'latex', '--output-format', 'opb']]), 'plain'
    return rng.choice([['-l', '-of', 'latex'], ['-of', 'opb', '-l'], ['--latex', '--output-format', 'opb'], ['-of', 'latex', '--latex'], ['-of', 'pdf'], ['-l', '-of'],
                       ['-of', 'dimacs', '-l'], ['--varnames', '-of', 'tex']]), 'conflict'


def make_case(rng, tool, case, stream, quiet=None, opts=None):
    o, mode = opts if opts is not None else out_options(rng, tool)
    if quiet is None:
        quiet = rng.random() < 0.45
    q = rng.choice([['-q'], ['--quiet']]) if quiet else rng.choice([[], [], ['-v'], ['--verbose']])
    body = P.render(rng, case, quiet=[])
    lead = list(o)
    i = rng.choice([j for j in range(len(lead) + 1) if j == 0 or lead[j - 1] not in ('-of', '--output-format')]) if mode != 'conflict' else 0
    lead[i:i] = q
    fmt = 'opb' if tool == 'pbgen' else 'dimacs'
    toks = [t for t in lead]
    for j, t in enumerate(toks):
        if t in ('-l', '--latex'):
            fmt = 'latex'
        elif t in ('-of', '--output-format') and j + 1 < len(toks):
            fmt = toks[j + 1]
    return dict(stream=stream, tool=tool, case=case, argv=lead + body, mode=mode, quiet=quiet, fmt=fmt, names='--varnames' in lead)


ROWS = [0, 1, 34, 35, 36, 69, 70, 71, 105, 106]


def gen_cases(rng, tier):
    quick = tier == 'quick'
    cases = []
    for i in range(230 if quick else 2000):
        tool = 'pbgen' if i % 4 == 3 else 'cnfgen'
        c = P.gen_graph_base(rng, small=True) if i % 5 in (1, 3) else P.gen_base(rng, small=(i % 2 == 0))
        c['chain'] = P.gen_chain(rng, maxlen=2) if tool == 'cnfgen' else []
        cases.append(make_case(rng, tool, c, 'valid-graph' if c.get('graph') else 'valid'))
    # every sub-command once per output mode, small
    subs = []
    for _ in range(40 if quick else 110):
        subs.append(P.gen_base(rng, small=True))
        subs.append(P.gen_graph_base(rng, small=True))
    seen = set()
    for c in subs:
        key = (c['sub'], bool(c.get('graph')))
        if key in seen and quick:
            continue
        seen.add(key)
        for tool in ('cnfgen', 'pbgen'):
            for opts in ((['-l'], 'latex'), (['--varnames'], 'names'), ([], 'plain')):
                cc = dict(c, chain=[])
                cases.append(make_case(rng, tool, cc, 'each-subcommand', quiet=False, opts=opts))
    # every transformation once per output mode
    for t in P.TRANS0 + P.TRANS1 + P.TRANS2:
        ks = [] if t in P.TRANS0 else [2] if t in P.TRANS1 else [2, 1]
        for base in (dict(sub='or', args=[1, 1]), dict(sub='php', args=[2, 1]), dict(sub='kcolor', args=[2], graph=('simple', 'complete', [2]))):
            for opts in ((['-l'], 'latex'), (['--varnames'], 'names')):
                cases.append(make_case(rng, 'cnfgen', dict(base, chain=[(t, ks)] + ([('flip', [])] if rng.random() < 0.3 else []) + ([(rng.choice(P.TRANS1), [1])] if rng.random() < 0.3 else [])),
                                       'each-transformation', opts=opts))
    # page splits: 0, 1, 34, 35, 36, 70, 71 ... rows
    for n in (ROWS if not quick else rng.sample(ROWS, 6) + [35]):
        for tool in ('cnfgen', 'pbgen'):
            base = rng.choice([dict(sub='and', args=[n, 0]), dict(sub='and', args=[n // 2, n - n // 2]), dict(sub='ptn', args=[n])]) if n else rng.choice([dict(sub='true', args=[]), dict(sub='and', args=[0, 0])])
            cases.append(make_case(rng, tool, dict(base, chain=[]), 'page-splits', opts=(list(rng.choice(LATEX_SPELLINGS)), 'latex')))
        cases.append(make_case(rng, 'cnfgen', dict(sub='false', args=[], chain=[(rng.choice(['xor', 'or']), [n + 1])]), 'page-splits', opts=(['-l'], 'latex')))
    # malformed: the mutations of the C17 stream behind the new options
    for i in range(70 if quick else 700):
        c = P.gen_base(rng, small=True) if i % 3 else P.gen_graph_base(rng, small=True)
        tool = 'pbgen' if i % 5 == 4 else 'cnfgen'
        c['chain'] = P.gen_chain(rng, maxlen=2) if tool == 'cnfgen' else []
        argv, kind = P.gen_malformed(rng, c)
        o, mode = out_options(rng, tool)
        if rng.random() < 0.5 and argv[:1] == ['-q']:
            argv = argv[1:]
        cases.append(dict(stream='malformed', tool=tool, case=None, argv=o + argv, kind=kind, mode=mode))
    return cases


def formula_in_memory(tool, argv):
    """the formula object the tool holds when it writes (cli(..., mode='formula') in this process)"""
    import importlib
    m = importlib.import_module('cnfgen.clitools.' + tool)
    return m.cli([tool] + list(argv), mode='formula')


def too_big(case, cnfgen, latex):
    try:
        F = P.library_formula(case, cnfgen)
    except P.TooBig:
        return True
    except Exception:   # noqa
        return False
    m, w, n = len(F), sum(len(c) for c in F), F.number_of_variables()
    if latex:
        return m > 1500 or w > 12000 or n > 2500
    return m > 20000 or w > 200000 or n > 6000


# --------------------------------------------------------------------------
# the run
# --------------------------------------------------------------------------
def site_of(cs):
    return 'tex-' + P.site_of(cs['argv'])


def run_latex_pipeline(ctx):
    cnfgen = lib.import_impl()
    import random
    rng = random.Random(ctx.seed * 1000003 + 41)
    t_start = time.time()
    cases = []
    for cs in gen_cases(rng, ctx.tier):
        if cs['case'] is not None and too_big(cs['case'], cnfgen, cs.get('fmt') == 'latex'):
            ctx.tally('tex skipped', 'predicted too large')
            continue
        cases.append(cs)
    t_gen = time.time() - t_start
    from cnfgen.info import info
    version = str(info['version'])
    # ---- the model
    t_model = 0.0
    for tool, name in (('cnfgen', 'tex_pipeline'), ('pbgen', 'tex_pb_pipeline')):
        part = [cs for cs in cases if cs['tool'] == tool]
        reps, t = P.model_replies(ctx, [cs['argv'] for cs in part], name=name, extra=[version], chunk=60)
        t_model += t
        for cs, m in zip(part, reps):
            if lib.is_error(m):
                raise lib.ModelError('driver error on %r: %r' % (cs['argv'], m))
            cs['model'] = m
    # ---- the tools (valid cases always: the statement is checked on their output whatever the model says)
    t0 = time.time()
    for tool in ('cnfgen', 'pbgen'):
        part = [cs for cs in cases if cs['tool'] == tool and (cs['model'][0] in ('out', 'clierror', 'crash') or cs['case'] is not None)]
        for cs, r in zip(part, run_tool(tool, [cs['argv'] for cs in part])):
            cs['real'] = r
    t_real = time.time() - t0
    ctx.note('tex pipeline: %d argv; generation %.1fs, model %.1fs, tools %.1fs' % (len(cases), t_gen, t_model, t_real))

    for cs in cases:
        argv, m, stream, tool = cs['argv'], cs['model'], cs['stream'], cs['tool']
        ctx.tally('tex stream', stream)
        ctx.tally('tex tool', tool)
        ctx.tally('tex model verdict', str(m[0]))
        ctx.tally('tex output mode', cs['mode'] + ('' if cs.get('quiet', True) else '+header'))
        ctx.tally('tex sub-command', site_of(cs)[13:])
        if m[0] == 'slow':
            ctx.tally('tex skipped', 'model slower than the limit')
            continue
        r = cs.get('real')
        site = site_of(cs)
        cl = '%s|%s|%s' % (tool, cs['mode'], P.cls_of([a for a in argv if a not in ('-l', '--latex', '--varnames', '-of', '--output-format', '-v', '--verbose')], stream, cs.get('kind')))
        replay = dict(input=dict(tool=tool, argv=argv), model=m[0], model_text=(m[1][:400] if m[0] == 'out' else None),
                      theorem='pipeline_latex_rows / pipeline_varnames / pipeline_graph_header_shape (coq/Prop_C12_pipeline.v)')
        if r is not None:
            replay.update(tool_rc=r['rc'], tool_stdout=r['out'][:400], tool_stderr=r['err'][-400:])
        if m[0] == 'outside':
            ctx.count('tex-' + stream, (tool,) + tuple(argv), nontrivial=False)
            if cs['case'] is not None and cs['mode'] != 'conflict':
                ctx.violation('correspondence', 'the model places a command of its own grammar outside it (or its check of the variable names failed)',
                              replay, False, site=site, cls='grammar|' + cs['mode'])
            if cs['case'] is None or r is None or r['rc'] != 0:
                continue
        nontrivial = m[0] == 'out' and m[1].count('\n') > 1
        ctx.count('tex-' + stream, (tool,) + tuple(argv), nontrivial=nontrivial or stream == 'malformed',
                  sample=dict(tool=tool, argv=argv, model=m[0], bytes=len(m[1]) if m[0] == 'out' else 0, rc=r['rc']))
        # ---- the statement on the real output of a valid case
        prop_fail, prop_id = None, 'C12'
        if cs['case'] is not None and r['rc'] == 0 and not r.get('timeout'):
            try:
                F = formula_in_memory(tool, argv)
            except BaseException as e:    # noqa
                F = None
                prop_fail = 'the tool writes a text although building the formula in process raises %s' % type(e).__name__
            if F is not None:
                opbobj = tool == 'pbgen'
                nsteps = sum(1 for t, _ in cs['case'].get('chain', []) if t != 'none')
                if cs['fmt'] == 'latex':
                    prop_fail = latex_property(r['out'], F, opbobj)
                    ctx.count('tex-latex-rows-decoded', (tool,) + tuple(argv), nontrivial=len(F) > 0)
                    ctx.tally('tex latex rows', min(len(F), 72) if len(F) in (0, 1, 34, 35, 36, 70, 71) else ('2..33' if len(F) < 34 else '37..69' if len(F) < 70 else '72+'))
                    if prop_fail is None:
                        try:
                            d = decode_document(r['out'], opbobj)
                            if d['title'] != F.header['description'].replace('_', '\\_'):
                                prop_fail = 'title %r' % (d['title'],)
                            elif (d['header'] is None) != cs['quiet']:
                                prop_fail = 'header listing %s' % ('missing' if d['header'] is None else 'present under -q')
                            elif d['header'] is not None:
                                hp = None if any('\n' in a or '\r' in a for a in argv) else header_property(d['header'], tool, argv, nsteps)
                                if hp:
                                    prop_fail, prop_id = hp, 'C19'
                        except Undecodable as e:
                            prop_fail = str(e)
                elif cs['fmt'] in ('dimacs', 'opb'):
                    prop_fail = names_property(r['out'], F, cs['fmt'] == 'opb', cs['names'])
                    if cs['names']:
                        ctx.count('tex-names-decoded', (tool,) + tuple(argv), nontrivial=F.number_of_variables() > 0)
                    if prop_fail is None:
                        head = split_text(r['out'], cs['fmt'] == 'opb')[0]
                        if cs['quiet']:
                            if head:
                                prop_fail = 'header lines under -q'
                        else:
                            if not head or head[-1] not in ('c', '*'):
                                prop_fail = 'the header is not closed by an empty comment line'
                            else:
                                hp = None if any('\n' in a or '\r' in a for a in argv) else header_property([h[2:] for h in head[:-1]], tool, argv, nsteps)
                                if hp:
                                    prop_fail, prop_id = hp, 'C19'
                                else:
                                    ctx.count('tex-header-shape', (tool,) + tuple(argv), nontrivial=True)
                                    ctx.tally('tex header of', 'graph sub-command' if cs['case'].get('graph') else 'numeric sub-command')
        if prop_fail is not None:
            ctx.disagreements_checked += 1
            if prop_id == 'C19':
                # the header is comment text: C12 itself holds on this output; what broke is the tie to coq/PipelineTex.v (header shape, property C19)
                ctx.violation('correspondence', 'the comment header of the output no longer follows coq/PipelineTex.v (see property C19): ' + prop_fail[:200],
                              dict(replay, related_property='C19', deviation=prop_fail, theorem='Prop_C12_pipeline.pipeline_graph_header_shape'), False, site=site, cls='header|' + cl)
            else:
                ctx.violation('counterexample', 'the output does not denote the formula held in memory: ' + prop_fail[:200], dict(replay, deviation=prop_fail), True, site=site, cls=cl)
            continue
        if m[0] == 'outside':
            continue
        if P.tool_agrees(m, r) or (m[0] == 'clierror' and r['rc'] == 255 and r['out'] == '' and 'Traceback' not in r['err'] and r['err'][:2] == '% '):
            continue
        ctx.disagreements_checked += 1
        if r.get('timeout'):
            ctx.violation('correspondence', 'the tool did not finish within the time limit on an input the model calls small', replay, False, site=site, cls='timeout')
        elif 'Traceback' in (r['err'] or ''):
            ctx.violation('counterexample', '%s ends in a Python traceback (%s)' % (tool, r['err'].strip().split('\n')[-1][:120]), replay, True, site=site, cls=cl)
        elif m[0] == 'out' and r['rc'] == 0:
            # where do the bytes differ?  header entries only -> C19
            a, b = m[1].split('\n'), r['out'].split('\n')
            diff = [i for i in range(max(len(a), len(b))) if (a[i] if i < len(a) else None) != (b[i] if i < len(b) else None)]
            head_marks = ('c ', '* ', 'description: ', 'generator: ', 'copyright: ', 'url: ', 'transformation ', 'command line: ', '\\title{')
            in_header = all((a[i] if i < len(a) else '').startswith(head_marks) and not (a[i] if i < len(a) else '').startswith(('c varname', '* varname', '* #variable')) for i in diff)
            rp = dict(replay, related_property='C19' if in_header else 'C12', first_difference=dict(line=diff[0] + 1 if diff else None, model=a[diff[0]][:200] if diff and diff[0] < len(a) else None,
                                                                                          tool=b[diff[0]][:200] if diff and diff[0] < len(b) else None))
            ctx.violation('correspondence', 'model (coq/PipelineTex.v) and %s write different bytes%s although the real output passes the direct check of the statement' % (tool, ' (header entries only)' if in_header else ''),
                          rp, False, site=site, cls=('header|' if in_header else '') + cl)
        else:
            ctx.violation('correspondence', 'the model (coq/PipelineTex.v) and %s disagree (model %s, tool exit %s)' % (tool, m[0], r['rc']), replay, False, site=site, cls=cl)

    # ---- fast rendering equals the reference rendering
    small = [cs for cs in cases if cs['tool'] == 'cnfgen' and cs['model'][0] == 'out' and len(cs['model'][1]) < 6000 and not any(t in cs['argv'] for t in ('16', '17'))]
    rng.shuffle(small)
    small = small[:40 if ctx.tier == 'quick' else 400]
    ref, _ = P.model_replies(ctx, [cs['argv'] for cs in small], name='tex_pipeline_ref', extra=[version], chunk=60)
    for cs, m2 in zip(small, ref):
        ctx.count('tex-reference-rendering', tuple(cs['argv']), nontrivial=True)
        if m2 != cs['model']:
            ctx.violation('correspondence', 'cnfgen_main_tex_fast differs from cnfgen_main_tex (theorem pipeline_tex_fast_eq)', dict(input=dict(argv=cs['argv'])), False,
                          site='tex-pipeline:harness', cls='fast-rendering')
    ctx.note('tex pipeline stream total %.1fs' % (time.time() - t_start))
