"""C16 -- graph objects stay consistent under any sequence of updates.

Correspondence: random operation sequences (add_edge, remove_edge, update_vertex_number,
add_edges_from; about a quarter of the arguments invalid) are run on cnfgen's Graph,
DirectedGraph and BipartiteGraph and on the extracted Coq state machines (coq/GraphObj.v).
After EVERY step the outcome class (ok / ValueError / no such method / other exception) and a
snapshot of every view (vertex count, edge count, edge listing(s), has_edge on all pairs of
the query range -1..n+2, neighbour / predecessor / successor lists, degrees, is_dag) are
compared.  Independently of the model, the same snapshots are compared with a plain Python
set-of-edges oracle (the property itself).  A disagreement is shrunk (delta debugging on the
op list, on add_edges_from arguments, on the initial size) and classified:
  * the implementation deviates from the oracle on the shrunk sequence -> counterexample
  * only model and implementation differ                               -> correspondence
Further streams: networkx round trip (to_networkx / from_networkx) against oracle and model;
the API surface the model assumes (which classes have remove_edge / update_vertex_number);
a malformed stream (float, bool, str, None arguments, tuples of the wrong length): whatever
is refused with an exception must leave every view unchanged."""
import json

from lib import cmd, Sym, is_error, import_impl

META = dict(
    technique='Coq refinement proof (concrete Graph/DirectedGraph/BipartiteGraph state machines refine a vertex-count + '
              'edge-set specification, all views characterised, lifted to every op sequence) + extracted-model '
              'differential check of every view after every step + independent set-of-edges oracle',
    category='proof',
    text='Machine-checked theorems state, for every initial size and every finite sequence of add_edge / remove_edge / '
         'update_vertex_number / add_edges_from calls with arbitrary integer arguments, that the modelled graph objects '
         'never raise anything but ValueError, that a refused call leaves the object unchanged, that duplicates are no-ops '
         'and that edge count, sorted duplicate-free edge listing, membership, sorted neighbour lists, degrees and is_dag '
         'are the functions of the abstract edge set the property names; the model is tied to the code by comparing '
         'outcome and all views after every step of random op sequences, and the code is also compared with a plain '
         'set-of-edges oracle.',
    note='Trusted: Coq kernel, extraction, OCaml driver, the harness and its oracle, CPython list/set/dict/bisect semantics '
         '(bisect_right is modelled by a linear scan, equal on sorted lists), networkx. Arguments are integers in the '
         'model; non-integer arguments are exercised only by the malformed stream against the oracle.',
    design_ref='5/C16',
)
RULE = ('one case = one op sequence run step by step on implementation, model and oracle (streams ops-*), one networkx round '
        'trip, or one malformed call; a case is non-trivial when it has at least one op; distinct = distinct (kind, initial '
        'size, op list)')
TRUSTED = ['harness/c16.py Oracle (Python set of edges) as statement of the property for failing-input search',
           'CPython bisect_right = count of leading elements <= x on a sorted list (abstraction in GraphObj.v)']

KINDS = ('simple', 'directed', 'bipartite')
CLSNAME = {'simple': 'Graph', 'directed': 'DirectedGraph', 'bipartite': 'BipartiteGraph'}
METHOD = {'add': 'add_edge', 'remove': 'remove_edge', 'raise': 'update_vertex_number', 'addfrom': 'add_edges_from'}
VIEWNAMES = ['order', 'count', 'edges', 'edges2', 'has', 'nbr1', 'nbr2', 'deg1', 'deg2', 'dag']


# --------------------------------------------------------------------------------------------
# implementation side
# --------------------------------------------------------------------------------------------
def impl_class(kind):
    import cnfgen.graphs as g
    return {'simple': g.Graph, 'directed': g.DirectedGraph, 'bipartite': g.BipartiteGraph}[kind]


def impl_new(kind, a, b):
    """('ok', object) or ('ValueError',) / ('Crash', name)"""
    C = impl_class(kind)
    try:
        return ('ok', C(a, b) if kind == 'bipartite' else C(a))
    except ValueError:
        return ('ValueError',)
    except Exception as e:  # noqa
        return ('Crash', type(e).__name__)


def q(f, *a):
    """a view query: value, None for ValueError, marker for anything else"""
    try:
        r = f(*a)
        if hasattr(r, '__next__'):
            r = list(r)
        return r
    except ValueError:
        return None
    except Exception as e:  # noqa
        return 'EXC:' + type(e).__name__


def qrange(n):
    return list(range(-1, n + 3))


def snapshot(G, kind):
    """every view of the object, in the layout of GraphObj.view"""
    if kind == 'bipartite':
        L, R = G.left_order(), G.right_order()
        ql, qr = qrange(L), qrange(R)
        return [q(G.number_of_vertices), q(G.number_of_edges), q(lambda: [list(e) for e in G.edges()]), [],
                [[i, j] for i, u in enumerate(ql) for j, v in enumerate(qr) if q(G.has_edge, u, v) is not False],
                [q(G.right_neighbors, u) for u in ql], [q(G.left_neighbors, v) for v in qr],
                [q(G.right_degree, u) for u in ql], [q(G.left_degree, v) for v in qr], False]
    n = G.number_of_vertices()
    qs = qrange(n)
    has = [[i, j] for i, u in enumerate(qs) for j, v in enumerate(qs) if q(G.has_edge, u, v) is not False]
    if kind == 'simple':
        return [n, q(G.number_of_edges), q(lambda: [list(e) for e in G.edges()]), [], has,
                [q(G.neighbors, u) for u in qs], [], [q(G.degree, u) for u in qs], [], q(G.is_dag)]
    return [n, q(G.number_of_edges), q(lambda: [list(e) for e in G.edges()]),
            q(lambda: [list(e) for e in G.edges_ordered_by_successors()]), has,
            [q(G.successors, u) for u in qs], [q(G.predecessors, u) for u in qs],
            [q(G.out_degree, u) for u in qs], [q(G.in_degree, u) for u in qs], q(G.is_dag)]


def impl_apply(G, op, container='list'):
    """outcome class of one call"""
    name = METHOD[op[0]]
    if not hasattr(G, name):
        return 'NoMethod'
    try:
        if op[0] == 'addfrom':
            es = op[1]
            arg = {'list': lambda: [tuple(e) for e in es], 'lists': lambda: [list(e) for e in es],
                   'generator': lambda: (tuple(e) for e in es), 'tuple': lambda: tuple(tuple(e) for e in es)}[container]()
            G.add_edges_from(arg)
        else:
            getattr(G, name)(*op[1:])
        return 'ok'
    except ValueError:
        return 'ValueError'
    except Exception as e:  # noqa
        return 'Crash:' + type(e).__name__


CONTAINERS = ['list', 'lists', 'generator', 'tuple']


def impl_trace(kind, a, b, ops):
    """None when the constructor refuses, else (snapshot0, [(outcome, snapshot), ...])"""
    r = impl_new(kind, a, b)
    if r[0] != 'ok':
        return r[0] if r[0] == 'ValueError' else 'Crash:' + r[1]
    G = r[1]
    out = []
    s0 = snapshot(G, kind)
    for i, op in enumerate(ops):
        o = impl_apply(G, op, CONTAINERS[i % 4])
        out.append((o, snapshot(G, kind)))
    return (s0, out, G)


# --------------------------------------------------------------------------------------------
# model side
# --------------------------------------------------------------------------------------------
def op_sx(op):
    if op[0] == 'addfrom':
        return [Sym('addfrom'), [list(e) for e in op[1]]]
    return [Sym(op[0])] + list(op[1:])


def model_req(kind, a, b, ops, name='graph_run'):
    return cmd(name, Sym(kind), a, b, [op_sx(o) for o in ops])


def _opt(x):
    if x is None:
        return None
    return x[1]


def model_view(v):
    order, count, edges, edges2, has, n1, n2, d1, d2, dag = v
    return [order, count, edges, edges2, has, [_opt(x) for x in n1], [_opt(x) for x in n2],
            [_opt(x) for x in d1], [_opt(x) for x in d2], dag]


def model_trace(rep):
    if rep == ['init-error'] or rep[0] == 'init-error':
        return 'ValueError'
    return (model_view(rep[1]), [(str(o), model_view(v)) for (o, v) in rep[2]])


def norm_outcome(o):
    return 'Crash' if o.startswith('Crash') else o


def first_difference(it, mt):
    """None or (step index (-1 = constructor / initial snapshot), view name or 'outcome', impl value, model value)"""
    if isinstance(it, str) or isinstance(mt, str):
        a = it if isinstance(it, str) else 'ok'
        b = mt if isinstance(mt, str) else 'ok'
        return None if norm_outcome(a) == norm_outcome(b) else (-1, 'constructor', a, b)
    for name, x, y in zip(VIEWNAMES, it[0], mt[0]):
        if x != y:
            return (-1, name, x, y)
    for i, ((io, iv), (mo, mv)) in enumerate(zip(it[1], mt[1])):
        if norm_outcome(io) != mo:
            return (i, 'outcome', io, mo)
        for name, x, y in zip(VIEWNAMES, iv, mv):
            if x != y:
                return (i, name, x, y)
    return None


# --------------------------------------------------------------------------------------------
# the property, stated on a plain set of edges
# --------------------------------------------------------------------------------------------
class Oracle:
    """vertex count(s) + set of edges actually inserted; says what every view must be"""

    def __init__(self, kind, a, b):
        self.kind, self.n, self.r, self.E = kind, a, b, set()

    def valid(self, u, v):
        if self.kind == 'bipartite':
            return 1 <= u <= self.n and 1 <= v <= self.r
        if self.kind == 'simple':
            return 1 <= u <= self.n and 1 <= v <= self.n and u != v
        return 1 <= u <= self.n and 1 <= v <= self.n

    def norm(self, u, v):
        return (min(u, v), max(u, v)) if self.kind == 'simple' else (u, v)

    def apply(self, op, has_method):
        """expected outcome; updates the set"""
        if not has_method:
            return 'NoMethod'
        if op[0] == 'add':
            if not self.valid(op[1], op[2]):
                return 'ValueError'
            self.E.add(self.norm(op[1], op[2]))
            return 'ok'
        if op[0] == 'addfrom':
            for (u, v) in op[1]:
                if not self.valid(u, v):
                    return 'ValueError'          # the edges before the refused one stay inserted
                self.E.add(self.norm(u, v))
            return 'ok'
        if op[0] == 'remove':
            self.E.discard(self.norm(op[1], op[2]))
            return 'ok'
        if op[0] == 'raise':
            if op[1] < 0:
                return 'ValueError'
            self.n = max(self.n, op[1])
            return 'ok'
        raise AssertionError(op)

    def has(self, u, v):
        return self.norm(u, v) in self.E

    def check(self, snap):
        """first view of the snapshot that contradicts the set, or None.  Out-of-range neighbour / degree queries
        are not part of the property and are not looked at."""
        order, count, edges, edges2, has, n1, n2, d1, d2, dag = snap
        E = self.E
        if self.kind == 'bipartite':
            L, R = self.n, self.r
            if order != L + R:
                return 'order'
            ql, qr = qrange(L), qrange(R)
        else:
            if order != self.n:
                return 'order'
            ql = qr = qrange(self.n)
            L = R = self.n
        if count != len(E):
            return 'count'
        if edges != [list(e) for e in sorted(E)]:
            return 'edges'
        if self.kind == 'directed' and edges2 != [list(e) for e in sorted(E, key=lambda e: (e[1], e[0]))]:
            return 'edges2'
        if has != [[i, j] for i, u in enumerate(ql) for j, v in enumerate(qr) if self.has(u, v)]:
            return 'has'
        for i, u in enumerate(ql):
            if 1 <= u <= L:
                want = sorted(v for v in range(1, R + 1) if (self.has(u, v) if self.kind != 'directed' else (u, v) in E))
                if n1[i] != want:
                    return 'nbr1'
                if d1[i] != len(want):
                    return 'deg1'
        if self.kind != 'simple':
            for j, v in enumerate(qr):
                if 1 <= v <= R:
                    want = sorted(u for u in range(1, L + 1) if (u, v) in E)
                    if n2[j] != want:
                        return 'nbr2'
                    if d2[j] != len(want):
                        return 'deg2'
        if self.kind == 'directed' and dag != all(u < v for (u, v) in E):
            return 'dag'
        if self.kind == 'simple' and dag is not False:
            return 'dag'
        return None


def has_method(kind, op):
    return hasattr(impl_class(kind), METHOD[op[0]])


def property_failure(kind, a, b, ops):
    """Run the implementation against the oracle.  None, or (step, what, detail)."""
    if a < 0 or (kind == 'bipartite' and b < 0):
        r = impl_new(kind, a, b)
        return None if r[0] == 'ValueError' else (-1, 'constructor', 'negative size accepted or crashed: %r' % (r[:1],))
    r = impl_new(kind, a, b)
    if r[0] != 'ok':
        return (-1, 'constructor', 'valid size refused: %r' % (r,))
    G = r[1]
    orc = Oracle(kind, a, b)
    bad = orc.check(snapshot(G, kind))
    if bad:
        return (-1, bad, 'fresh object')
    for i, op in enumerate(ops):
        before = snapshot(G, kind)
        want = orc.apply(op, has_method(kind, op))
        got = impl_apply(G, op, CONTAINERS[i % 4])
        after = snapshot(G, kind)
        if norm_outcome(got) != want:
            return (i, 'outcome', 'raised/returned %s, the property asks %s' % (got, want))
        if want in ('ValueError', 'NoMethod') and op[0] != 'addfrom' and before != after:
            return (i, 'side-effect', 'refused call changed a view')
        bad = orc.check(after)
        if bad:
            return (i, bad, 'view disagrees with the set of inserted edges')
        if kind != 'bipartite':
            try:
                if list(G.vertices()) != list(range(1, orc.n + 1)) or G.order() != orc.n or len(G) != orc.n:
                    return (i, 'order', 'vertices() / order() / len() disagree with the vertex count')
            except Exception as e:  # noqa
                return (i, 'order', 'vertices() raised %s' % type(e).__name__)
        # the edge-list object: len() and `in`
        try:
            el = G.edges()
            if len(el) != len(orc.E):
                return (i, 'count', 'len(edges()) differs')
            for e in list(orc.E)[:5]:
                if tuple(e) not in el:
                    return (i, 'has', 'edge missing from edges() container')
        except Exception as e:  # noqa
            return (i, 'edges', 'edges() container raised %s' % type(e).__name__)
    return None


# --------------------------------------------------------------------------------------------
# shrinking
# --------------------------------------------------------------------------------------------
def ddmin(items, fails):
    """delta debugging: a 1-minimal sub-list of items on which fails() still holds"""
    n = 2
    items = list(items)
    while len(items) >= 2:
        chunk = max(1, len(items) // n)
        subsets = [items[i:i + chunk] for i in range(0, len(items), chunk)]
        reduced = False
        for i in range(len(subsets)):
            rest = [x for j, s in enumerate(subsets) if j != i for x in s]
            if fails(rest):
                items, n, reduced = rest, max(n - 1, 2), True
                break
        if not reduced:
            if chunk == 1:
                break
            n = min(len(items), n * 2)
    if len(items) == 1 and fails([]):
        return []
    return items


def shrink(kind, a, b, ops, fails):
    """fails(kind, a, b, ops) -> bool.  Returns a smaller (a, b, ops)."""
    ops = ddmin(ops, lambda o: fails(kind, a, b, o))
    # inside add_edges_from arguments
    for i, op in enumerate(list(ops)):
        if op[0] == 'addfrom' and len(op[1]) > 0:
            def f(es, i=i):
                return fails(kind, a, b, ops[:i] + [('addfrom', list(es))] + ops[i + 1:])
            es = ddmin(op[1], f)
            ops = ops[:i] + [('addfrom', list(es))] + ops[i + 1:]
    # smaller initial sizes
    for _ in range(12):
        if a > 0 and fails(kind, a - 1, b, ops):
            a -= 1
        elif kind == 'bipartite' and b > 0 and fails(kind, a, b - 1, ops):
            b -= 1
        else:
            break
    return a, b, ops


# --------------------------------------------------------------------------------------------
# generation
# --------------------------------------------------------------------------------------------
def gen_sequence(rng, kind, quick, tally):
    a = rng.choice([0, 1, 2, 3, 3, 4, 4, 5, 5, 6, 7, 8, 9])
    b = rng.choice([0, 1, 2, 3, 4, 5, 6]) if kind == 'bipartite' else 0
    if rng.random() < 0.02:
        a = -rng.randint(1, 3)
    elif kind == 'bipartite' and rng.random() < 0.02:
        b = -rng.randint(1, 3)
    length = rng.choice([0, 1, 2, 3, 5, 8]) if rng.random() < 0.2 else rng.randint(0, 60)
    dagmode = kind == 'directed' and rng.random() < 0.5
    track = Oracle(kind, a, b)           # only to aim the generator (existing edges, current size)
    ops = []
    cap = 14

    def vertex_ok(side):
        hi = track.n if (side == 0 or kind != 'bipartite') else track.r
        return rng.randint(1, hi) if hi >= 1 else 1

    def vertex_bad(side):
        hi = track.n if (side == 0 or kind != 'bipartite') else track.r
        return rng.choice([0, -1, -rng.randint(2, 9), hi + 1, hi + 2, hi + rng.randint(3, 9)])

    def edge():
        """(u, v, class)"""
        r = rng.random()
        if r < 0.75:
            u, v = vertex_ok(0), vertex_ok(1)
            if kind == 'simple' and u == v and track.n >= 2:
                v = u % track.n + 1
            if dagmode and u > v and rng.random() < 0.97:
                u, v = v, u
            if dagmode and u == v and rng.random() < 0.97 and track.n >= 2:
                u, v = (u, u + 1) if u < track.n else (u - 1, u)
            return u, v, 'in-range'
        r = rng.random()
        if r < 0.3 and track.E:
            u, v = rng.choice(sorted(track.E))
            if kind == 'simple' and rng.random() < 0.5:
                u, v = v, u
            return u, v, 'duplicate'
        if r < 0.45:
            u = vertex_ok(0)
            return u, u, 'self-loop'
        if r < 0.65:
            return vertex_bad(0), vertex_ok(1), 'first-out-of-range'
        if r < 0.85:
            return vertex_ok(0), vertex_bad(1), 'second-out-of-range'
        return vertex_bad(0), vertex_bad(1), 'both-out-of-range'

    weights = {'simple': [('add', 50), ('remove', 20), ('raise', 10), ('addfrom', 20)],
               'directed': [('add', 66), ('remove', 4), ('raise', 4), ('addfrom', 26)],
               'bipartite': [('add', 66), ('remove', 4), ('raise', 4), ('addfrom', 26)]}[kind]
    names = [w[0] for w in weights]
    ws = [w[1] for w in weights]
    for _ in range(length):
        o = rng.choices(names, ws)[0]
        if o == 'add':
            u, v, c = edge()
            tally('add_edge argument', c)
            op = ('add', u, v)
        elif o == 'remove':
            if track.E and rng.random() < 0.6:
                u, v = rng.choice(sorted(track.E))
                if rng.random() < 0.5:
                    u, v = v, u
                tally('remove_edge argument', 'present')
            else:
                u, v, c = edge()
                tally('remove_edge argument', 'absent/' + c if not track.has(u, v) else 'present')
            op = ('remove', u, v)
        elif o == 'raise':
            r = rng.random()
            if r < 0.55 and track.n < cap:
                k = track.n + rng.randint(1, 3)
                tally('update_vertex_number argument', 'larger')
            elif r < 0.8:
                k = rng.randint(0, max(track.n, 0))
                tally('update_vertex_number argument', 'not larger')
            else:
                k = -rng.randint(1, 5)
                tally('update_vertex_number argument', 'negative')
            op = ('raise', k)
        else:
            es = []
            for _ in range(rng.choice([0, 1, 2, 3, 4, 6])):
                if rng.random() < 0.9:
                    u, v, c = edge()
                    while c not in ('in-range', 'duplicate') and rng.random() < 0.7:
                        u, v, c = edge()
                else:
                    u, v, c = edge()
                es.append((u, v))
            tally('add_edges_from argument', 'all valid' if all(track.valid(u, v) for u, v in es) else 'contains a refused edge')
            tally('add_edges_from length', len(es))
            op = ('addfrom', es)
        if a >= 0 and b >= 0:
            track.apply(op, has_method(kind, op))
        ops.append(op)
    return a, b, ops, dagmode


# --------------------------------------------------------------------------------------------
# reporting
# --------------------------------------------------------------------------------------------
def jsonable_ops(ops):
    return [[o[0]] + ([[list(e) for e in o[1]]] if o[0] == 'addfrom' else list(o[1:])) for o in ops]


def ops_from_json(js):
    return [('addfrom', [tuple(e) for e in o[1]]) if o[0] == 'addfrom' else tuple(o) for o in js]


def site_of(kind, ops, step):
    if step < 0 or not ops:
        return CLSNAME[kind] + '.__init__'
    return CLSNAME[kind] + '.' + METHOD[ops[min(step, len(ops) - 1)][0]]


def mismatch(ctx, kind, a, b, ops):
    """impl vs model on one sequence: first_difference or None"""
    rep = ctx.model.batch([model_req(kind, a, b, ops)])[0]
    if is_error(rep):
        return (-2, 'model-error', None, rep)
    it = impl_trace(kind, a, b, ops)
    return first_difference(it if isinstance(it, str) else it[:2], model_trace(rep))


def report(ctx, kind, a, b, ops, diff, propfail):
    """shrink and file a violation.  propfail / diff are the first findings on the full sequence."""
    ctx.disagreements_checked += 1
    if propfail is not None:
        a2, b2, ops2 = shrink(kind, a, b, ops, lambda k, x, y, o: property_failure(k, x, y, o) is not None)
        pf = property_failure(kind, a2, b2, ops2)
        step, what, detail = pf
        mm = mismatch(ctx, kind, a2, b2, ops2)
        ctx.violation('counterexample',
                      '%s: after this op sequence the view `%s` contradicts the set of inserted edges (%s)' % (CLSNAME[kind], what, detail),
                      dict(input=dict(kind=kind, initial=[a2, b2], ops=jsonable_ops(ops2)), failing_step=step, view=what, detail=detail,
                           model_agrees_with_implementation=(mm is None),
                           original_length=len(ops)),
                      True, site=site_of(kind, ops2, step), cls='property:' + what)
        return
    a2, b2, ops2 = shrink(kind, a, b, ops, lambda k, x, y, o: mismatch(ctx, k, x, y, o) is not None)
    mm = mismatch(ctx, kind, a2, b2, ops2)
    pf = property_failure(kind, a2, b2, ops2)
    step, what, iv, mv = mm
    if pf is not None:
        ctx.violation('counterexample', '%s: view `%s` contradicts the set of inserted edges (%s)' % (CLSNAME[kind], pf[1], pf[2]),
                      dict(input=dict(kind=kind, initial=[a2, b2], ops=jsonable_ops(ops2)), failing_step=pf[0], view=pf[1], detail=pf[2]),
                      True, site=site_of(kind, ops2, pf[0]), cls='property:' + pf[1])
    else:
        ctx.violation('correspondence',
                      '%s differs from the model (coq/GraphObj.v) in `%s` but still agrees with the set-of-edges oracle; '
                      'theorems C16_* no longer cover the code' % (CLSNAME[kind], what),
                      dict(input=dict(kind=kind, initial=[a2, b2], ops=jsonable_ops(ops2)), failing_step=step, view=what,
                           implementation=iv, model=mv, correspondence='coq/GraphObj.v %s_step <-> cnfgen/graphs.py %s' % (kind[0], CLSNAME[kind])),
                      False, site=site_of(kind, ops2, step), cls='model:' + what)


# --------------------------------------------------------------------------------------------
# networkx round trip
# --------------------------------------------------------------------------------------------
def nx_roundtrip_failure(kind, G, orc, rng=None):
    """None or a description: to_networkx must show vertices/edges of the oracle, from_networkx(to_networkx) all views"""
    import networkx
    try:
        X = G.to_networkx()
    except Exception as e:  # noqa
        return 'to_networkx raised %s' % type(e).__name__
    if kind == 'bipartite':
        L, R = orc.n, orc.r
        if sorted(X.nodes()) != list(range(1, L + R + 1)):
            return 'to_networkx: vertex set'
        if any(X.nodes[u].get('bipartite') != (0 if u <= L else 1) for u in X.nodes()):
            return 'to_networkx: bipartite attribute'
        got = sorted((min(u, v), max(u, v)) for u, v in X.edges())
        if got != sorted((u, v + L) for (u, v) in orc.E) or X.is_directed():
            return 'to_networkx: edge set'
    else:
        if sorted(X.nodes()) != list(range(1, orc.n + 1)):
            return 'to_networkx: vertex set'
        if kind == 'simple':
            got = sorted((min(u, v), max(u, v)) for u, v in X.edges())
            if X.is_directed() or got != sorted(orc.E):
                return 'to_networkx: edge set'
        else:
            if not X.is_directed() or sorted(X.edges()) != sorted(orc.E):
                return 'to_networkx: edge set'
    try:
        G2 = type(G).from_networkx(X)
    except Exception as e:  # noqa
        return 'from_networkx raised %s' % type(e).__name__
    bad = orc.check(snapshot(G2, kind))
    if bad:
        return 'from_networkx(to_networkx(G)): view %s' % bad
    # the same networkx graph built with the edges in another order and (undirected) the other orientation
    # must convert to the same object (theorems C16_*_networkx, general form)
    if rng is not None:
        Y = networkx.DiGraph() if kind == 'directed' else networkx.Graph()
        nodes = list(X.nodes())
        if kind == 'bipartite':
            # vertices are numbered by node order WITHIN each side, so only the interleaving of the two sides is
            # varied: a right node may now precede its left neighbours (networkx then reports the edge right-first)
            left = [u for u in nodes if X.nodes[u].get('bipartite') == 0]
            right = [u for u in nodes if X.nodes[u].get('bipartite') == 1]
            nodes = []
            while left or right:
                if left and (not right or rng.random() < 0.5):
                    nodes.append(left.pop(0))
                else:
                    nodes.append(right.pop(0))
        for u in nodes:
            Y.add_node(u, **X.nodes[u])
        es = list(X.edges())
        rng.shuffle(es)
        for (u, v) in es:
            if kind != 'directed' and rng.random() < 0.5:
                u, v = v, u
            Y.add_edge(u, v)
        try:
            G3 = type(G).from_networkx(Y)
        except Exception as e:  # noqa
            return 'from_networkx(reordered copy) raised %s' % type(e).__name__
        bad = orc.check(snapshot(G3, kind))
        if bad:
            return 'from_networkx(reordered copy): view %s' % bad
    return None


# --------------------------------------------------------------------------------------------
# malformed arguments
# --------------------------------------------------------------------------------------------
def malformed_values(rng, n):
    return [('float-integral', float(rng.randint(1, max(n, 1)))), ('float-fraction', rng.randint(1, max(n, 1)) + 0.5),
            ('bool', True), ('none', None), ('str', str(rng.randint(1, max(n, 1)))), ('float-nan', float('nan')),
            ('float-integral-large', float(n + 3)), ('tuple', (1, 2))]


def run_malformed(ctx, ncases):
    rng = ctx.rng
    for case in range(ncases):
        kind = KINDS[case % 3]
        a = rng.randint(2, 7)
        b = rng.randint(2, 6) if kind == 'bipartite' else 0
        G = impl_new(kind, a, b)[1]
        orc = Oracle(kind, a, b)
        for _ in range(rng.randint(0, 12)):
            u = rng.randint(1, a)
            v = rng.randint(1, b if kind == 'bipartite' else a)
            if orc.valid(u, v):
                G.add_edge(u, v)
                orc.apply(('add', u, v), True)
        n2 = b if kind == 'bipartite' else a
        label, bad = rng.choice(malformed_values(rng, a))
        meths = [m for m in ('add_edge', 'remove_edge', 'add_edges_from', 'update_vertex_number') if hasattr(G, m)]
        meth = rng.choice(meths)
        pos = rng.choice([0, 1])
        good = rng.randint(1, n2 if pos == 0 else a)
        if orc.E and rng.random() < 0.5 and isinstance(bad, float) and is_integral(bad):
            # aim at an existing edge so that removal / duplicate detection paths are taken
            e = rng.choice(sorted(orc.E))
            good = e[1 - pos]
            bad = float(e[pos])
        args = (bad, good) if pos == 0 else (good, bad)
        if meth == 'update_vertex_number':
            args = (bad,)
            call = lambda: G.update_vertex_number(bad)
        elif meth == 'add_edges_from':
            shape = rng.choice(['pair', 'short', 'long', 'scalar'])
            item = {'pair': args, 'short': (good,), 'long': (good, good + 1, 1), 'scalar': good}[shape]
            label = label + '/' + shape if shape == 'pair' else 'shape-' + shape
            args = ([item],)
            call = lambda: G.add_edges_from([item])
        else:
            call = lambda: getattr(G, meth)(*args)
        ctx.tally('malformed argument', label)
        ctx.tally('malformed call', CLSNAME[kind] + '.' + meth)
        before = snapshot(G, kind)
        raw_before = raw_state(G)
        try:
            call()
            exc = None
        except Exception as e:  # noqa
            exc = type(e).__name__
        after = snapshot(G, kind)
        desc = dict(kind=kind, initial=[a, b], edges=[list(e) for e in sorted(orc.E)], call=meth, args=repr(args))
        ctx.count('malformed-args', (kind, a, b, tuple(sorted(orc.E)), meth, repr(args)), True, sample=dict(desc, raised=exc))
        if exc is not None:
            ctx.tally('malformed outcome', 'raised ' + exc)
            if before != after or raw_before != raw_state(G):
                ctx.disagreements_checked += 1
                changed = [nm for nm, x, y in zip(VIEWNAMES, before, after) if x != y] or ['internal fields']
                ctx.violation('counterexample',
                              '%s.%s%s raises %s but is not refused without side effect: views %s changed and now disagree with each other'
                              % (CLSNAME[kind], meth, repr(args), exc, changed),
                              dict(input=desc, raised=exc, changed_views=changed, before=before, after=after), True,
                              site=CLSNAME[kind] + '.' + ('add_edge' if meth == 'add_edges_from' else meth),
                              cls='non-integer-argument-side-effect')
        else:
            ctx.tally('malformed outcome', 'accepted')
            # an accepted value that equals an integer must behave as that integer
            integral = all(is_integral(x) for x in args) and meth in ('add_edge', 'remove_edge')
            if integral:
                orc.apply(('add' if meth == 'add_edge' else 'remove', int(args[0]), int(args[1])), True)
                bad_view = orc.check(after)
                if bad_view:
                    ctx.disagreements_checked += 1
                    ctx.violation('counterexample', '%s.%s%s accepted, then view %s contradicts the set of inserted edges'
                                  % (CLSNAME[kind], meth, repr(args), bad_view), dict(input=desc, view=bad_view, after=after), True,
                                  site=CLSNAME[kind] + '.' + meth, cls='non-integer-argument-accepted:' + bad_view)


def is_integral(x):
    try:
        return isinstance(x, (int, float)) and not isinstance(x, bool) and x == int(x)
    except (ValueError, OverflowError):
        return False


def raw_state(G):
    out = []
    for f in ('n', 'm', 'adjlist', 'edgeset', 'pred', 'succ', 'still_a_dag', 'lorder', 'rorder', 'ladj', 'radj'):
        if hasattr(G, f):
            out.append((f, repr(getattr(G, f)) if f != 'edgeset' else repr(sorted(getattr(G, f), key=repr))))
    return out


# --------------------------------------------------------------------------------------------
# run
# --------------------------------------------------------------------------------------------
def check_case(ctx, kind, a, b, ops, rep):
    """one sequence; rep = the model's reply.  Returns True when something was reported."""
    if is_error(rep):
        ctx.violation('correspondence', 'model error', dict(input=dict(kind=kind, initial=[a, b], ops=jsonable_ops(ops)), model=rep),
                      False, site='model-error', cls=kind)
        return True
    it = impl_trace(kind, a, b, ops)
    pf = property_failure(kind, a, b, ops)
    diff = first_difference(it if isinstance(it, str) else it[:2], model_trace(rep))
    if pf is None and diff is None:
        return False
    report(ctx, kind, a, b, ops, diff, pf)
    return True


def run(ctx):
    import_impl()
    quick = ctx.tier == 'quick'
    ctx.assumptions.append('theorems quantify over integer (Z) arguments of any value; non-integer arguments are outside the model '
                           'and are exercised only by the malformed stream against the oracle')
    ctx.assumptions.append('add_edges_from is read as the loop of add_edge calls it is: at the first refused edge it raises ValueError '
                           'and keeps the edges inserted before it (theorems C16_*_add_edges_from)')
    rng = ctx.rng
    nseq = 450 if quick else 7500

    # ---- API surface assumed by the model -------------------------------------------------
    expect = {'simple': {'remove_edge': True, 'update_vertex_number': True},
              'directed': {'remove_edge': False, 'update_vertex_number': False},
              'bipartite': {'remove_edge': False, 'update_vertex_number': False}}
    for kind in KINDS:
        for meth, want in expect[kind].items():
            have = hasattr(impl_class(kind), meth)
            ctx.count('api-surface', (kind, meth), True, sample=dict(cls=CLSNAME[kind], method=meth, present=have))
            if have != want:
                ctx.note('%s.%s present=%s (model assumes %s): ops of this kind are judged by the oracle only' % (CLSNAME[kind], meth, have, want))

    # ---- fixed corner sequences (always run) ------------------------------------------------
    corpus = [
        ('simple', 0, 0, []), ('simple', 0, 0, [('add', 1, 1)]), ('simple', 1, 0, [('add', 1, 1), ('raise', 2), ('add', 2, 1)]),
        ('simple', 3, 0, [('add', 3, 1), ('add', 1, 3), ('remove', 1, 3), ('remove', 1, 3), ('add', 1, 3)]),
        ('simple', 5, 0, [('addfrom', [(1, 4), (4, 5), (2, 4), (2, 3)]), ('raise', 7), ('remove', 4, 1), ('add', 1, 6), ('add', 6, 4)]),
        ('simple', 3, 0, [('addfrom', [(1, 2), (0, 1), (2, 3)])]), ('simple', 2, 0, [('raise', -1), ('raise', 0), ('raise', 2)]),
        ('directed', 3, 0, [('add', 1, 2), ('add', 2, 3), ('add', 2, 2)]), ('directed', 3, 0, [('add', 3, 1)]),
        ('directed', 2, 0, [('add', 1, 2), ('remove', 1, 2), ('raise', 4)]), ('directed', 0, 0, [('add', 0, 0)]),
        ('bipartite', 3, 5, [('add', 2, 3), ('add', 2, 2), ('add', 2, 3)]), ('bipartite', 2, 2, [('add', 3, 1), ('add', 1, 3), ('add', 0, 1)]),
        ('bipartite', 0, 0, [('add', 1, 1)]), ('bipartite', 2, 3, [('addfrom', [(1, 1), (2, 3), (3, 3), (1, 2)])]),
        ('simple', -1, 0, []), ('directed', -2, 0, []), ('bipartite', -1, 2, []), ('bipartite', 2, -1, []),
    ]
    cases = [(k, a, b, list(ops), False) for (k, a, b, ops) in corpus]
    for i in range(nseq):
        kind = KINDS[i % 3]
        a, b, ops, dagmode = gen_sequence(rng, kind, quick, ctx.tally)
        cases.append((kind, a, b, ops, dagmode))

    replies = ctx.model.batch([model_req(k, a, b, ops) for (k, a, b, ops, _) in cases])
    rt_jobs = []
    for (kind, a, b, ops, dagmode), rep in zip(cases, replies):
        ctx.count('ops-' + kind, (kind, a, b, json.dumps(jsonable_ops(ops))), len(ops) > 0,
                  sample=dict(kind=kind, initial=[a, b], ops=jsonable_ops(ops)[:8], length=len(ops)))
        ctx.tally('kind', kind)
        ctx.tally('sequence length (bucket of 10)', (len(ops) // 10) * 10)
        ctx.tally('initial size', a if kind != 'bipartite' else '%d,%d' % (a, b))
        reported = check_case(ctx, kind, a, b, ops, rep)
        if not reported and not is_error(rep) and a >= 0 and b >= 0:
            mt = model_trace(rep)
            if not isinstance(mt, str):
                outs = [o for (o, _) in mt[1]]
                for o in outs:
                    ctx.tally('outcome (model = implementation)', o)
                final = mt[1][-1][1] if mt[1] else mt[0]
                ctx.tally('final edge count (bucket of 5)', (final[1] // 5) * 5)
                if kind == 'directed':
                    ctx.tally('final is_dag', final[9])
                rt_jobs.append((kind, a, b, ops))

    # ---- networkx round trip -----------------------------------------------------------------
    rt_jobs = rt_jobs if not quick else rt_jobs[:250]
    rt_replies = ctx.model.batch([model_req(k, a, b, ops, 'graph_roundtrip') for (k, a, b, ops) in rt_jobs])
    for (kind, a, b, ops), rep in zip(rt_jobs, rt_replies):
        it = impl_trace(kind, a, b, ops)
        G = it[2]
        orc = Oracle(kind, a, b)
        for op in ops:
            orc.apply(op, has_method(kind, op))
        ctx.count('networkx-roundtrip', (kind, a, b, json.dumps(jsonable_ops(ops))), len(orc.E) > 0,
                  sample=dict(kind=kind, initial=[a, b], edges=[list(e) for e in sorted(orc.E)][:10]))
        fail = nx_roundtrip_failure(kind, G, orc, rng)
        desc = dict(kind=kind, initial=[a, b], ops=jsonable_ops(ops), then='from_networkx(to_networkx())')
        if fail:
            ctx.disagreements_checked += 1
            # shrink on the oracle predicate
            def still(k, x, y, o):
                t = impl_trace(k, x, y, o)
                if isinstance(t, str):
                    return False
                oc = Oracle(k, x, y)
                for op in o:
                    oc.apply(op, has_method(k, op))
                return nx_roundtrip_failure(k, t[2], oc) is not None
            a2, b2, ops2 = shrink(kind, a, b, ops, still)
            ctx.violation('counterexample', '%s: conversion through networkx does not preserve vertices and edges (%s)' % (CLSNAME[kind], fail),
                          dict(input=dict(kind=kind, initial=[a2, b2], ops=jsonable_ops(ops2), then='from_networkx(to_networkx())'), detail=fail),
                          True, site=CLSNAME[kind] + '.networkx', cls='roundtrip')
            continue
        if is_error(rep) or rep[0] != 'ok' or str(rep[1]) != 'ok':
            ctx.violation('correspondence', 'model round trip failed', dict(input=desc, model=rep), False,
                          site=CLSNAME[kind] + '.networkx', cls='model-roundtrip')
            continue
        G2 = type(G).from_networkx(G.to_networkx())
        iv, mv = snapshot(G2, kind), model_view(rep[2])
        if iv != mv:
            bad = [nm for nm, x, y in zip(VIEWNAMES, iv, mv) if x != y]
            ctx.violation('correspondence', 'round trip through networkx: implementation and model differ in %s' % bad,
                          dict(input=desc, implementation=iv, model=mv, correspondence='coq/GraphObj.v any_roundtrip'), False,
                          site=CLSNAME[kind] + '.networkx', cls='model:' + bad[0])

    # ---- malformed arguments -------------------------------------------------------------------
    run_malformed(ctx, 600 if quick else 8000)
    ctx.exhaustive = False


def replay(ctx, rp):
    """./check C16 --replay FILE : rerun the recorded sequence"""
    import_impl()
    inp = rp.get('input', {})
    if 'ops' not in inp:
        return run(ctx)
    kind, (a, b), ops = inp['kind'], inp['initial'], ops_from_json(inp['ops'])
    rep = ctx.model.batch([model_req(kind, a, b, ops)])[0]
    ctx.count('ops-' + kind, (kind, a, b, json.dumps(jsonable_ops(ops))), True, sample=inp)
    check_case(ctx, kind, a, b, ops, rep)
    if inp.get('then'):
        it = impl_trace(kind, a, b, ops)
        if not isinstance(it, str):
            orc = Oracle(kind, a, b)
            for op in ops:
                orc.apply(op, has_method(kind, op))
            fail = nx_roundtrip_failure(kind, it[2], orc)
            if fail:
                ctx.violation('counterexample', 'networkx round trip: ' + fail, dict(input=inp, detail=fail), True,
                              site=CLSNAME[kind] + '.networkx', cls='roundtrip')
