"""C16 -- graph objects stay consistent under any sequence of updates.

Correspondence: random operation sequences (add_edge, remove_edge, update_vertex_number,
add_edges_from; about a quarter of the arguments invalid) are run on cnfgen's Graph,
DirectedGraph and BipartiteGraph and on the extracted Coq state machines (coq/GraphObj.v).
After EVERY step the outcome class (ok / ValueError / no such method / other exception) and a
snapshot of every view (vertex count, edge count, edge listing(s), has_edge on all pairs of
the query range -1..n+2, neighbour / predecessor / successor lists, degrees, is_dag) are
compared.  Independently of the model, the same snapshots are compared with a plain Python
set-of-edges oracle (the property itself).  A disagreement is shrunk (delta debugging on the
op list, on add_edges_from arguments, on the initial size) and classified:
  * the implementation deviates from the oracle on the shrunk sequence -> counterexample
  * only model and implementation differ                               -> correspondence
Further streams: networkx round trip (to_networkx / from_networkx) against oracle and model;
the API surface the model assumes (which classes have remove_edge / update_vertex_number);
a malformed stream (float, bool, str, None arguments, tuples of the wrong length): whatever
is refused with an exception must leave every view unchanged.

Large streams (notes/LARGE_STREAMS.md), run first as a corpus on graphs with >= 257 / 300 / 1025 vertices, compared through
the driver command graph_probe (views restricted to named queries, the full has_edge matrix only at the end):
  * thresholds  operations whose vertices are 15..17, 63..65, 127..129, 255..258, 300, 1000, 1025; every integer argument
                reaches the implementation either as the one canonical int object of the case or as a freshly computed
                int (CPython shares int objects up to 256 only): self-loops, duplicates, out-of-range, removals
  * shapes      a hub of degree 64/65/129/130 built in random order; removal and re-insertion of its largest / smallest /
                middle neighbour; long predecessor / left-neighbour lists
  * history     update_vertex_number raising by 2..17 at once and the new vertices used at once; hundreds of edges inserted
                in random (non sorted) order, singly and through add_edges_from, with removals in between; the object is
                then converted through networkx and compared again
  * networkx labels   from_networkx on graphs whose labels include 0, negative numbers, gaps, strings, tuples, unsortable
                mixtures, 1..n in shuffled insertion order and label sets with max(label) == n; the expected numbering
                is the documented one (sorted order when the labels can be sorted, else node order; bipartite: node order
                within each side)."""
import json
import random
import time

from lib import cmd, Sym, is_error, import_impl

META = dict(
    technique='Coq refinement proof (concrete Graph/DirectedGraph/BipartiteGraph state machines refine a vertex-count + '
              'edge-set specification, all views characterised, lifted to every op sequence) + extracted-model '
              'differential check of every view after every step + independent set-of-edges oracle',
    category='proof',
    text='Machine-checked theorems state, for every initial size and every finite sequence of add_edge / remove_edge / '
         'update_vertex_number / add_edges_from calls with arbitrary integer arguments, that the modelled graph objects '
         'never raise anything but ValueError, that a refused call leaves the object unchanged, that duplicates are no-ops '
         'and that edge count, sorted duplicate-free edge listing, membership, sorted neighbour lists, degrees and is_dag '
         'are the functions of the abstract edge set the property names; the model is tied to the code by comparing '
         'outcome and all views after every step of random op sequences, and the code is also compared with a plain '
         'set-of-edges oracle.',
    note='Trusted: Coq kernel, extraction, OCaml driver, the harness and its oracle, CPython list/set/dict/bisect semantics '
         '(bisect_right is modelled by a linear scan, equal on sorted lists), networkx. Arguments are integers in the '
         'model; non-integer arguments are exercised only by the malformed stream against the oracle.',
    design_ref='5/C16',
)
RULE = ('one case = one op sequence run step by step on implementation, model and oracle (streams ops-*), one networkx round '
        'trip, or one malformed call; a case is non-trivial when it has at least one op; distinct = distinct (kind, initial '
        'size, op list)')
TRUSTED = ['harness/c16.py Oracle (Python set of edges) as statement of the property for failing-input search',
           'CPython bisect_right = count of leading elements <= x on a sorted list (abstraction in GraphObj.v)']

KINDS = ('simple', 'directed', 'bipartite')
CLSNAME = {'simple': 'Graph', 'directed': 'DirectedGraph', 'bipartite': 'BipartiteGraph'}
METHOD = {'add': 'add_edge', 'remove': 'remove_edge', 'raise': 'update_vertex_number', 'addfrom': 'add_edges_from'}
VIEWNAMES = ['order', 'count', 'edges', 'edges2', 'has', 'nbr1', 'nbr2', 'deg1', 'deg2', 'dag']


# --------------------------------------------------------------------------------------------
# implementation side
# --------------------------------------------------------------------------------------------
def impl_class(kind):
    import cnfgen.graphs as g
    return {'simple': g.Graph, 'directed': g.DirectedGraph, 'bipartite': g.BipartiteGraph}[kind]


def impl_new(kind, a, b):
    """('ok', object) or ('ValueError',) / ('Crash', name)"""
    C = impl_class(kind)
    try:
        return ('ok', C(a, b) if kind == 'bipartite' else C(a))
    except ValueError:
        return ('ValueError',)
    except Exception as e:  # noqa
        return ('Crash', type(e).__name__)


def q(f, *a):
    """a view query: value, None for ValueError, marker for anything else"""
    try:
        r = f(*a)
        if hasattr(r, '__next__'):
            r = list(r)
        return r
    except ValueError:
        return None
    except Exception as e:  # noqa
        return 'EXC:' + type(e).__name__


def qrange(n):
    return list(range(-1, n + 3))


def snapshot(G, kind):
    """every view of the object, in the layout of GraphObj.view"""
    if kind == 'bipartite':
        L, R = G.left_order(), G.right_order()
        ql, qr = qrange(L), qrange(R)
        return [q(G.number_of_vertices), q(G.number_of_edges), q(lambda: [list(e) for e in G.edges()]), [],
                [[i, j] for i, u in enumerate(ql) for j, v in enumerate(qr) if q(G.has_edge, u, v) is not False],
                [q(G.right_neighbors, u) for u in ql], [q(G.left_neighbors, v) for v in qr],
                [q(G.right_degree, u) for u in ql], [q(G.left_degree, v) for v in qr], False]
    n = G.number_of_vertices()
    qs = qrange(n)
    has = [[i, j] for i, u in enumerate(qs) for j, v in enumerate(qs) if q(G.has_edge, u, v) is not False]
    if kind == 'simple':
        return [n, q(G.number_of_edges), q(lambda: [list(e) for e in G.edges()]), [], has,
                [q(G.neighbors, u) for u in qs], [], [q(G.degree, u) for u in qs], [], q(G.is_dag)]
    return [n, q(G.number_of_edges), q(lambda: [list(e) for e in G.edges()]),
            q(lambda: [list(e) for e in G.edges_ordered_by_successors()]), has,
            [q(G.successors, u) for u in qs], [q(G.predecessors, u) for u in qs],
            [q(G.out_degree, u) for u in qs], [q(G.in_degree, u) for u in qs], q(G.is_dag)]


def impl_apply(G, op, container='list'):
    """outcome class of one call"""
    name = METHOD[op[0]]
    if not hasattr(G, name):
        return 'NoMethod'
    try:
        if op[0] == 'addfrom':
            es = op[1]
            arg = {'list': lambda: [tuple(e) for e in es], 'lists': lambda: [list(e) for e in es],
                   'generator': lambda: (tuple(e) for e in es), 'tuple': lambda: tuple(tuple(e) for e in es)}[container]()
            G.add_edges_from(arg)
        else:
            getattr(G, name)(*op[1:])
        return 'ok'
    except ValueError:
        return 'ValueError'
    except Exception as e:  # noqa
        return 'Crash:' + type(e).__name__


CONTAINERS = ['list', 'lists', 'generator', 'tuple']


def impl_trace(kind, a, b, ops):
    """None when the constructor refuses, else (snapshot0, [(outcome, snapshot), ...])"""
    r = impl_new(kind, a, b)
    if r[0] != 'ok':
        return r[0] if r[0] == 'ValueError' else 'Crash:' + r[1]
    G = r[1]
    out = []
    s0 = snapshot(G, kind)
    for i, op in enumerate(ops):
        o = impl_apply(G, op, CONTAINERS[i % 4])
        out.append((o, snapshot(G, kind)))
    return (s0, out, G)


# --------------------------------------------------------------------------------------------
# model side
# --------------------------------------------------------------------------------------------
def op_sx(op):
    if op[0] == 'addfrom':
        return [Sym('addfrom'), [list(e) for e in op[1]]]
    return [Sym(op[0])] + list(op[1:])


def model_req(kind, a, b, ops, name='graph_run'):
    return cmd(name, Sym(kind), a, b, [op_sx(o) for o in ops])


def _opt(x):
    if x is None:
        return None
    return x[1]


def model_view(v):
    order, count, edges, edges2, has, n1, n2, d1, d2, dag = v
    return [order, count, edges, edges2, has, [_opt(x) for x in n1], [_opt(x) for x in n2],
            [_opt(x) for x in d1], [_opt(x) for x in d2], dag]


def model_trace(rep):
    if rep == ['init-error'] or rep[0] == 'init-error':
        return 'ValueError'
    return (model_view(rep[1]), [(str(o), model_view(v)) for (o, v) in rep[2]])


def norm_outcome(o):
    return 'Crash' if o.startswith('Crash') else o


def first_difference(it, mt):
    """None or (step index (-1 = constructor / initial snapshot), view name or 'outcome', impl value, model value)"""
    if isinstance(it, str) or isinstance(mt, str):
        a = it if isinstance(it, str) else 'ok'
        b = mt if isinstance(mt, str) else 'ok'
        return None if norm_outcome(a) == norm_outcome(b) else (-1, 'constructor', a, b)
    for name, x, y in zip(VIEWNAMES, it[0], mt[0]):
        if x != y:
            return (-1, name, x, y)
    for i, ((io, iv), (mo, mv)) in enumerate(zip(it[1], mt[1])):
        if norm_outcome(io) != mo:
            return (i, 'outcome', io, mo)
        for name, x, y in zip(VIEWNAMES, iv, mv):
            if x != y:
                return (i, name, x, y)
    return None


# --------------------------------------------------------------------------------------------
# the property, stated on a plain set of edges
# --------------------------------------------------------------------------------------------
class Oracle:
    """vertex count(s) + set of edges actually inserted; says what every view must be"""

    def __init__(self, kind, a, b):
        self.kind, self.n, self.r, self.E = kind, a, b, set()

    def valid(self, u, v):
        if self.kind == 'bipartite':
            return 1 <= u <= self.n and 1 <= v <= self.r
        if self.kind == 'simple':
            return 1 <= u <= self.n and 1 <= v <= self.n and u != v
        return 1 <= u <= self.n and 1 <= v <= self.n

    def norm(self, u, v):
        return (min(u, v), max(u, v)) if self.kind == 'simple' else (u, v)

    def apply(self, op, has_method):
        """expected outcome; updates the set"""
        if not has_method:
            return 'NoMethod'
        if op[0] == 'add':
            if not self.valid(op[1], op[2]):
                return 'ValueError'
            self.E.add(self.norm(op[1], op[2]))
            return 'ok'
        if op[0] == 'addfrom':
            for (u, v) in op[1]:
                if not self.valid(u, v):
                    return 'ValueError'          # the edges before the refused one stay inserted
                self.E.add(self.norm(u, v))
            return 'ok'
        if op[0] == 'remove':
            self.E.discard(self.norm(op[1], op[2]))
            return 'ok'
        if op[0] == 'raise':
            if op[1] < 0:
                return 'ValueError'
            self.n = max(self.n, op[1])
            return 'ok'
        raise AssertionError(op)

    def has(self, u, v):
        return self.norm(u, v) in self.E

    def check(self, snap):
        """first view of the snapshot that contradicts the set, or None.  Out-of-range neighbour / degree queries
        are not part of the property and are not looked at."""
        order, count, edges, edges2, has, n1, n2, d1, d2, dag = snap
        E = self.E
        if self.kind == 'bipartite':
            L, R = self.n, self.r
            if order != L + R:
                return 'order'
            ql, qr = qrange(L), qrange(R)
        else:
            if order != self.n:
                return 'order'
            ql = qr = qrange(self.n)
            L = R = self.n
        if count != len(E):
            return 'count'
        if edges != [list(e) for e in sorted(E)]:
            return 'edges'
        if self.kind == 'directed' and edges2 != [list(e) for e in sorted(E, key=lambda e: (e[1], e[0]))]:
            return 'edges2'
        if has != [[i, j] for i, u in enumerate(ql) for j, v in enumerate(qr) if self.has(u, v)]:
            return 'has'
        for i, u in enumerate(ql):
            if 1 <= u <= L:
                want = sorted(v for v in range(1, R + 1) if (self.has(u, v) if self.kind != 'directed' else (u, v) in E))
                if n1[i] != want:
                    return 'nbr1'
                if d1[i] != len(want):
                    return 'deg1'
        if self.kind != 'simple':
            for j, v in enumerate(qr):
                if 1 <= v <= R:
                    want = sorted(u for u in range(1, L + 1) if (u, v) in E)
                    if n2[j] != want:
                        return 'nbr2'
                    if d2[j] != len(want):
                        return 'deg2'
        if self.kind == 'directed' and dag != all(u < v for (u, v) in E):
            return 'dag'
        if self.kind == 'simple' and dag is not False:
            return 'dag'
        return None


def has_method(kind, op):
    return hasattr(impl_class(kind), METHOD[op[0]])


def property_failure(kind, a, b, ops):
    """Run the implementation against the oracle.  None, or (step, what, detail)."""
    if a < 0 or (kind == 'bipartite' and b < 0):
        r = impl_new(kind, a, b)
        return None if r[0] == 'ValueError' else (-1, 'constructor', 'negative size accepted or crashed: %r' % (r[:1],))
    r = impl_new(kind, a, b)
    if r[0] != 'ok':
        return (-1, 'constructor', 'valid size refused: %r' % (r,))
    G = r[1]
    orc = Oracle(kind, a, b)
    bad = orc.check(snapshot(G, kind))
    if bad:
        return (-1, bad, 'fresh object')
    for i, op in enumerate(ops):
        before = snapshot(G, kind)
        want = orc.apply(op, has_method(kind, op))
        got = impl_apply(G, op, CONTAINERS[i % 4])
        after = snapshot(G, kind)
        if norm_outcome(got) != want:
            return (i, 'outcome', 'raised/returned %s, the property asks %s' % (got, want))
        if want in ('ValueError', 'NoMethod') and op[0] != 'addfrom' and before != after:
            return (i, 'side-effect', 'refused call changed a view')
        bad = orc.check(after)
        if bad:
            return (i, bad, 'view disagrees with the set of inserted edges')
        if kind != 'bipartite':
            try:
                if list(G.vertices()) != list(range(1, orc.n + 1)) or G.order() != orc.n or len(G) != orc.n:
                    return (i, 'order', 'vertices() / order() / len() disagree with the vertex count')
            except Exception as e:  # noqa
                return (i, 'order', 'vertices() raised %s' % type(e).__name__)
        # the edge-list object: len() and `in`
        try:
            el = G.edges()
            if len(el) != len(orc.E):
                return (i, 'count', 'len(edges()) differs')
            for e in list(orc.E)[:5]:
                if tuple(e) not in el:
                    return (i, 'has', 'edge missing from edges() container')
        except Exception as e:  # noqa
            return (i, 'edges', 'edges() container raised %s' % type(e).__name__)
    return None


# --------------------------------------------------------------------------------------------
# shrinking
# --------------------------------------------------------------------------------------------
def ddmin(items, fails):
    """delta debugging: a 1-minimal sub-list of items on which fails() still holds"""
    n = 2
    items = list(items)
    while len(items) >= 2:
        chunk = max(1, len(items) // n)
        subsets = [items[i:i + chunk] for i in range(0, len(items), chunk)]
        reduced = False
        for i in range(len(subsets)):
            rest = [x for j, s in enumerate(subsets) if j != i for x in s]
            if fails(rest):
                items, n, reduced = rest, max(n - 1, 2), True
                break
        if not reduced:
            if chunk == 1:
                break
            n = min(len(items), n * 2)
    if len(items) == 1 and fails([]):
        return []
    return items


def shrink(kind, a, b, ops, fails):
    """fails(kind, a, b, ops) -> bool.  Returns a smaller (a, b, ops)."""
    ops = ddmin(ops, lambda o: fails(kind, a, b, o))
    # inside add_edges_from arguments
    for i, op in enumerate(list(ops)):
        if op[0] == 'addfrom' and len(op[1]) > 0:
            def f(es, i=i):
                return fails(kind, a, b, ops[:i] + [('addfrom', list(es))] + ops[i + 1:])
            es = ddmin(op[1], f)
            ops = ops[:i] + [('addfrom', list(es))] + ops[i + 1:]
    # smaller initial sizes
    for _ in range(12):
        if a > 0 and fails(kind, a - 1, b, ops):
            a -= 1
        elif kind == 'bipartite' and b > 0 and fails(kind, a, b - 1, ops):
            b -= 1
        else:
            break
    return a, b, ops


# --------------------------------------------------------------------------------------------
# generation
# --------------------------------------------------------------------------------------------
def gen_sequence(rng, kind, quick, tally):
    a = rng.choice([0, 1, 2, 3, 3, 4, 4, 5, 5, 6, 7, 8, 9])
    b = rng.choice([0, 1, 2, 3, 4, 5, 6]) if kind == 'bipartite' else 0
    if rng.random() < 0.02:
        a = -rng.randint(1, 3)
    elif kind == 'bipartite' and rng.random() < 0.02:
        b = -rng.randint(1, 3)
    length = rng.choice([0, 1, 2, 3, 5, 8]) if rng.random() < 0.2 else rng.randint(0, 60)
    dagmode = kind == 'directed' and rng.random() < 0.5
    track = Oracle(kind, a, b)           # only to aim the generator (existing edges, current size)
    ops = []
    cap = 14

    def vertex_ok(side):
        hi = track.n if (side == 0 or kind != 'bipartite') else track.r
        return rng.randint(1, hi) if hi >= 1 else 1

    def vertex_bad(side):
        hi = track.n if (side == 0 or kind != 'bipartite') else track.r
        return rng.choice([0, -1, -rng.randint(2, 9), hi + 1, hi + 2, hi + rng.randint(3, 9)])

    def edge():
        """(u, v, class)"""
        r = rng.random()
        if r < 0.75:
            u, v = vertex_ok(0), vertex_ok(1)
            if kind == 'simple' and u == v and track.n >= 2:
                v = u % track.n + 1
            if dagmode and u > v and rng.random() < 0.97:
                u, v = v, u
            if dagmode and u == v and rng.random() < 0.97 and track.n >= 2:
                u, v = (u, u + 1) if u < track.n else (u - 1, u)
            return u, v, 'in-range'
        r = rng.random()
        if r < 0.3 and track.E:
            u, v = rng.choice(sorted(track.E))
            if kind == 'simple' and rng.random() < 0.5:
                u, v = v, u
            return u, v, 'duplicate'
        if r < 0.45:
            u = vertex_ok(0)
            return u, u, 'self-loop'
        if r < 0.65:
            return vertex_bad(0), vertex_ok(1), 'first-out-of-range'
        if r < 0.85:
            return vertex_ok(0), vertex_bad(1), 'second-out-of-range'
        return vertex_bad(0), vertex_bad(1), 'both-out-of-range'

    weights = {'simple': [('add', 50), ('remove', 20), ('raise', 10), ('addfrom', 20)],
               'directed': [('add', 66), ('remove', 4), ('raise', 4), ('addfrom', 26)],
               'bipartite': [('add', 66), ('remove', 4), ('raise', 4), ('addfrom', 26)]}[kind]
    names = [w[0] for w in weights]
    ws = [w[1] for w in weights]
    for _ in range(length):
        o = rng.choices(names, ws)[0]
        if o == 'add':
            u, v, c = edge()
            tally('add_edge argument', c)
            op = ('add', u, v)
        elif o == 'remove':
            if track.E and rng.random() < 0.6:
                u, v = rng.choice(sorted(track.E))
                if rng.random() < 0.5:
                    u, v = v, u
                tally('remove_edge argument', 'present')
            else:
                u, v, c = edge()
                tally('remove_edge argument', 'absent/' + c if not track.has(u, v) else 'present')
            op = ('remove', u, v)
        elif o == 'raise':
            r = rng.random()
            if r < 0.55 and track.n < cap:
                k = track.n + rng.randint(1, 3)
                tally('update_vertex_number argument', 'larger')
            elif r < 0.8:
                k = rng.randint(0, max(track.n, 0))
                tally('update_vertex_number argument', 'not larger')
            else:
                k = -rng.randint(1, 5)
                tally('update_vertex_number argument', 'negative')
            op = ('raise', k)
        else:
            es = []
            for _ in range(rng.choice([0, 1, 2, 3, 4, 6])):
                if rng.random() < 0.9:
                    u, v, c = edge()
                    while c not in ('in-range', 'duplicate') and rng.random() < 0.7:
                        u, v, c = edge()
                else:
                    u, v, c = edge()
                es.append((u, v))
            tally('add_edges_from argument', 'all valid' if all(track.valid(u, v) for u, v in es) else 'contains a refused edge')
            tally('add_edges_from length', len(es))
            op = ('addfrom', es)
        if a >= 0 and b >= 0:
            track.apply(op, has_method(kind, op))
        ops.append(op)
    return a, b, ops, dagmode


# --------------------------------------------------------------------------------------------
# reporting
# --------------------------------------------------------------------------------------------
def jsonable_ops(ops):
    return [[o[0]] + ([[list(e) for e in o[1]]] if o[0] == 'addfrom' else list(o[1:])) for o in ops]


def ops_from_json(js):
    return [('addfrom', [tuple(e) for e in o[1]]) if o[0] == 'addfrom' else tuple(o) for o in js]


def site_of(kind, ops, step):
    if step < 0 or not ops:
        return CLSNAME[kind] + '.__init__'
    return CLSNAME[kind] + '.' + METHOD[ops[min(step, len(ops) - 1)][0]]


def mismatch(ctx, kind, a, b, ops):
    """impl vs model on one sequence: first_difference or None"""
    rep = ctx.model.batch([model_req(kind, a, b, ops)])[0]
    if is_error(rep):
        return (-2, 'model-error', None, rep)
    it = impl_trace(kind, a, b, ops)
    return first_difference(it if isinstance(it, str) else it[:2], model_trace(rep))


def report(ctx, kind, a, b, ops, diff, propfail):
    """shrink and file a violation.  propfail / diff are the first findings on the full sequence."""
    ctx.disagreements_checked += 1
    if propfail is not None:
        a2, b2, ops2 = shrink(kind, a, b, ops, lambda k, x, y, o: property_failure(k, x, y, o) is not None)
        pf = property_failure(kind, a2, b2, ops2)
        step, what, detail = pf
        mm = mismatch(ctx, kind, a2, b2, ops2)
        ctx.violation('counterexample',
                      '%s: after this op sequence the view `%s` contradicts the set of inserted edges (%s)' % (CLSNAME[kind], what, detail),
                      dict(input=dict(kind=kind, initial=[a2, b2], ops=jsonable_ops(ops2)), failing_step=step, view=what, detail=detail,
                           model_agrees_with_implementation=(mm is None),
                           original_length=len(ops)),
                      True, site=site_of(kind, ops2, step), cls='property:' + what)
        return
    a2, b2, ops2 = shrink(kind, a, b, ops, lambda k, x, y, o: mismatch(ctx, k, x, y, o) is not None)
    mm = mismatch(ctx, kind, a2, b2, ops2)
    pf = property_failure(kind, a2, b2, ops2)
    step, what, iv, mv = mm
    if pf is not None:
        ctx.violation('counterexample', '%s: view `%s` contradicts the set of inserted edges (%s)' % (CLSNAME[kind], pf[1], pf[2]),
                      dict(input=dict(kind=kind, initial=[a2, b2], ops=jsonable_ops(ops2)), failing_step=pf[0], view=pf[1], detail=pf[2]),
                      True, site=site_of(kind, ops2, pf[0]), cls='property:' + pf[1])
    else:
        ctx.violation('correspondence',
                      '%s differs from the model (coq/GraphObj.v) in `%s` but still agrees with the set-of-edges oracle; '
                      'theorems C16_* no longer cover the code' % (CLSNAME[kind], what),
                      dict(input=dict(kind=kind, initial=[a2, b2], ops=jsonable_ops(ops2)), failing_step=step, view=what,
                           implementation=iv, model=mv, correspondence='coq/GraphObj.v %s_step <-> cnfgen/graphs.py %s' % (kind[0], CLSNAME[kind])),
                      False, site=site_of(kind, ops2, step), cls='model:' + what)


# --------------------------------------------------------------------------------------------
# networkx round trip
# --------------------------------------------------------------------------------------------
def nx_roundtrip_failure(kind, G, orc, rng=None):
    """None or a description: to_networkx must show vertices/edges of the oracle, from_networkx(to_networkx) all views"""
    import networkx
    try:
        X = G.to_networkx()
    except Exception as e:  # noqa
        return 'to_networkx raised %s' % type(e).__name__
    if kind == 'bipartite':
        L, R = orc.n, orc.r
        if sorted(X.nodes()) != list(range(1, L + R + 1)):
            return 'to_networkx: vertex set'
        if any(X.nodes[u].get('bipartite') != (0 if u <= L else 1) for u in X.nodes()):
            return 'to_networkx: bipartite attribute'
        got = sorted((min(u, v), max(u, v)) for u, v in X.edges())
        if got != sorted((u, v + L) for (u, v) in orc.E) or X.is_directed():
            return 'to_networkx: edge set'
    else:
        if sorted(X.nodes()) != list(range(1, orc.n + 1)):
            return 'to_networkx: vertex set'
        if kind == 'simple':
            got = sorted((min(u, v), max(u, v)) for u, v in X.edges())
            if X.is_directed() or got != sorted(orc.E):
                return 'to_networkx: edge set'
        else:
            if not X.is_directed() or sorted(X.edges()) != sorted(orc.E):
                return 'to_networkx: edge set'
    try:
        G2 = type(G).from_networkx(X)
    except Exception as e:  # noqa
        return 'from_networkx raised %s' % type(e).__name__
    bad = orc.check(snapshot(G2, kind))
    if bad:
        return 'from_networkx(to_networkx(G)): view %s' % bad
    # the same networkx graph built with the edges in another order and (undirected) the other orientation
    # must convert to the same object (theorems C16_*_networkx, general form)
    if rng is not None:
        Y = networkx.DiGraph() if kind == 'directed' else networkx.Graph()
        nodes = list(X.nodes())
        if kind == 'bipartite':
            # vertices are numbered by node order WITHIN each side, so only the interleaving of the two sides is
            # varied: a right node may now precede its left neighbours (networkx then reports the edge right-first)
            left = [u for u in nodes if X.nodes[u].get('bipartite') == 0]
            right = [u for u in nodes if X.nodes[u].get('bipartite') == 1]
            nodes = []
            while left or right:
                if left and (not right or rng.random() < 0.5):
                    nodes.append(left.pop(0))
                else:
                    nodes.append(right.pop(0))
        for u in nodes:
            Y.add_node(u, **X.nodes[u])
        es = list(X.edges())
        rng.shuffle(es)
        for (u, v) in es:
            if kind != 'directed' and rng.random() < 0.5:
                u, v = v, u
            Y.add_edge(u, v)
        try:
            G3 = type(G).from_networkx(Y)
        except Exception as e:  # noqa
            return 'from_networkx(reordered copy) raised %s' % type(e).__name__
        bad = orc.check(snapshot(G3, kind))
        if bad:
            return 'from_networkx(reordered copy): view %s' % bad
    return None


# --------------------------------------------------------------------------------------------
# malformed arguments
# --------------------------------------------------------------------------------------------
def malformed_values(rng, n):
    return [('float-integral', float(rng.randint(1, max(n, 1)))), ('float-fraction', rng.randint(1, max(n, 1)) + 0.5),
            ('bool', True), ('none', None), ('str', str(rng.randint(1, max(n, 1)))), ('float-nan', float('nan')),
            ('float-integral-large', float(n + 3)), ('tuple', (1, 2))]


def run_malformed(ctx, ncases):
    rng = ctx.rng
    for case in range(ncases):
        kind = KINDS[case % 3]
        a = rng.randint(2, 7)
        b = rng.randint(2, 6) if kind == 'bipartite' else 0
        G = impl_new(kind, a, b)[1]
        orc = Oracle(kind, a, b)
        for _ in range(rng.randint(0, 12)):
            u = rng.randint(1, a)
            v = rng.randint(1, b if kind == 'bipartite' else a)
            if orc.valid(u, v):
                G.add_edge(u, v)
                orc.apply(('add', u, v), True)
        n2 = b if kind == 'bipartite' else a
        label, bad = rng.choice(malformed_values(rng, a))
        meths = [m for m in ('add_edge', 'remove_edge', 'add_edges_from', 'update_vertex_number') if hasattr(G, m)]
        meth = rng.choice(meths)
        pos = rng.choice([0, 1])
        good = rng.randint(1, n2 if pos == 0 else a)
        if orc.E and rng.random() < 0.5 and isinstance(bad, float) and is_integral(bad):
            # aim at an existing edge so that removal / duplicate detection paths are taken
            e = rng.choice(sorted(orc.E))
            good = e[1 - pos]
            bad = float(e[pos])
        args = (bad, good) if pos == 0 else (good, bad)
        if meth == 'update_vertex_number':
            args = (bad,)
            call = lambda: G.update_vertex_number(bad)
        elif meth == 'add_edges_from':
            shape = rng.choice(['pair', 'short', 'long', 'scalar'])
            item = {'pair': args, 'short': (good,), 'long': (good, good + 1, 1), 'scalar': good}[shape]
            label = label + '/' + shape if shape == 'pair' else 'shape-' + shape
            args = ([item],)
            call = lambda: G.add_edges_from([item])
        else:
            call = lambda: getattr(G, meth)(*args)
        ctx.tally('malformed argument', label)
        ctx.tally('malformed call', CLSNAME[kind] + '.' + meth)
        before = snapshot(G, kind)
        raw_before = raw_state(G)
        try:
            call()
            exc = None
        except Exception as e:  # noqa
            exc = type(e).__name__
        after = snapshot(G, kind)
        desc = dict(kind=kind, initial=[a, b], edges=[list(e) for e in sorted(orc.E)], call=meth, args=repr(args))
        ctx.count('malformed-args', (kind, a, b, tuple(sorted(orc.E)), meth, repr(args)), True, sample=dict(desc, raised=exc))
        if exc is not None:
            ctx.tally('malformed outcome', 'raised ' + exc)
            if before != after or raw_before != raw_state(G):
                ctx.disagreements_checked += 1
                changed = [nm for nm, x, y in zip(VIEWNAMES, before, after) if x != y] or ['internal fields']
                ctx.violation('counterexample',
                              '%s.%s%s raises %s but is not refused without side effect: views %s changed and now disagree with each other'
                              % (CLSNAME[kind], meth, repr(args), exc, changed),
                              dict(input=desc, raised=exc, changed_views=changed, before=before, after=after), True,
                              site=CLSNAME[kind] + '.' + ('add_edge' if meth == 'add_edges_from' else meth),
                              cls='non-integer-argument-side-effect')
        else:
            ctx.tally('malformed outcome', 'accepted')
            # an accepted value that equals an integer must behave as that integer
            integral = all(is_integral(x) for x in args) and meth in ('add_edge', 'remove_edge')
            if integral:
                orc.apply(('add' if meth == 'add_edge' else 'remove', int(args[0]), int(args[1])), True)
                bad_view = orc.check(after)
                if bad_view:
                    ctx.disagreements_checked += 1
                    ctx.violation('counterexample', '%s.%s%s accepted, then view %s contradicts the set of inserted edges'
                                  % (CLSNAME[kind], meth, repr(args), bad_view), dict(input=desc, view=bad_view, after=after), True,
                                  site=CLSNAME[kind] + '.' + meth, cls='non-integer-argument-accepted:' + bad_view)


def is_integral(x):
    try:
        return isinstance(x, (int, float)) and not isinstance(x, bool) and x == int(x)
    except (ValueError, OverflowError):
        return False


def raw_state(G):
    out = []
    for f in ('n', 'm', 'adjlist', 'edgeset', 'pred', 'succ', 'still_a_dag', 'lorder', 'rorder', 'ladj', 'radj'):
        if hasattr(G, f):
            out.append((f, repr(getattr(G, f)) if f != 'edgeset' else repr(sorted(getattr(G, f), key=repr))))
    return out


# --------------------------------------------------------------------------------------------
# large graphs: thresholds / shapes / history streams, compared through sparse views (graph_probe)
# --------------------------------------------------------------------------------------------
THRESH = [15, 16, 17, 63, 64, 65, 127, 128, 129, 255, 256, 257, 258, 300, 1000, 1025]
FULL_CHECK_MAX = 400      # the quadratic has_edge matrix is looked at (once, at the end of a case) up to this many vertices


class Ints:
    """How an integer argument reaches the implementation.  's': the one canonical int object of this run for that value (the
    same object every time); 'f': a freshly computed int object (CPython shares int objects only in -5..256, so from 257 on two
    equal arguments are then two objects)."""

    def __init__(self):
        self.t = {}

    def get(self, x, mode):
        if mode == 'f':
            return int(str(x))
        return self.t.setdefault(x, x)


def query_mode(x, salt):
    return 'f' if (x + salt) % 2 else 's'


def sparse_snapshot(G, kind, query, ints, salt=0):
    """the views named by query = (full, qu, qv, pairs), in the layout of graph_probe's PVIEW"""
    full, qu, qv, pairs = query

    def mk(x):
        return ints.get(x, query_mode(x, salt))
    edges = q(lambda: [list(e) for e in G.edges()]) if full else None
    has = [q(G.has_edge, mk(u), mk(v)) for (u, v) in pairs]
    if kind == 'bipartite':
        return [q(G.number_of_vertices), q(G.number_of_edges), edges, [] if full else None, has,
                [q(G.right_neighbors, mk(u)) for u in qu], [q(G.left_neighbors, mk(v)) for v in qv],
                [q(G.right_degree, mk(u)) for u in qu], [q(G.left_degree, mk(v)) for v in qv], False]
    if kind == 'simple':
        return [q(G.number_of_vertices), q(G.number_of_edges), edges, [] if full else None, has,
                [q(G.neighbors, mk(u)) for u in qu], [], [q(G.degree, mk(u)) for u in qu], [], q(G.is_dag)]
    return [q(G.number_of_vertices), q(G.number_of_edges), edges,
            q(lambda: [list(e) for e in G.edges_ordered_by_successors()]) if full else None, has,
            [q(G.successors, mk(u)) for u in qu], [q(G.predecessors, mk(v)) for v in qv],
            [q(G.out_degree, mk(u)) for u in qu], [q(G.in_degree, mk(v)) for v in qv], q(G.is_dag)]


def oracle_check_sparse(orc, snap, query):
    """first named view that contradicts the set of inserted edges, or None (out-of-range neighbour queries are not looked at)"""
    full, qu, qv, pairs = query
    order, count, edges, edges2, has, n1, n2, d1, d2, dag = snap
    E, kind = orc.E, orc.kind
    if kind == 'bipartite':
        L, R = orc.n, orc.r
        if order != L + R:
            return 'order'
    else:
        L = R = orc.n
        if order != L:
            return 'order'
    if count != len(E):
        return 'count'
    if full:
        if edges != [list(e) for e in sorted(E)]:
            return 'edges'
        if kind == 'directed' and edges2 != [list(e) for e in sorted(E, key=lambda e: (e[1], e[0]))]:
            return 'edges2'
    if has != [orc.has(u, v) for (u, v) in pairs]:
        return 'has'
    fwd, bwd = {}, {}
    for (u, v) in E:
        fwd.setdefault(u, []).append(v)
        bwd.setdefault(v, []).append(u)
        if kind == 'simple':
            fwd.setdefault(v, []).append(u)
    for i, u in enumerate(qu):
        if 1 <= u <= L:
            want = sorted(fwd.get(u, []))
            if n1[i] != want:
                return 'nbr1'
            if d1[i] != len(want):
                return 'deg1'
    if kind != 'simple':
        for j, v in enumerate(qv):
            if 1 <= v <= R:
                want = sorted(bwd.get(v, []))
                if n2[j] != want:
                    return 'nbr2'
                if d2[j] != len(want):
                    return 'deg2'
    if kind == 'directed' and dag != all(u < v for (u, v) in E):
        return 'dag'
    if kind == 'simple' and dag is not False:
        return 'dag'
    return None


def large_apply(G, op, modes, ints, container='list'):
    name = METHOD[op[0]]
    if not hasattr(G, name):
        return 'NoMethod'
    try:
        if op[0] == 'addfrom':
            es = [(ints.get(u, modes[0]), ints.get(v, modes[-1])) for (u, v) in op[1]]
            arg = {'list': lambda: es, 'lists': lambda: [list(e) for e in es], 'generator': lambda: (e for e in es),
                   'tuple': lambda: tuple(es)}[container]()
            G.add_edges_from(arg)
        elif op[0] == 'raise':
            G.update_vertex_number(ints.get(op[1], modes[0]))
        else:
            getattr(G, name)(ints.get(op[1], modes[0]), ints.get(op[2], modes[1]))
        return 'ok'
    except ValueError:
        return 'ValueError'
    except Exception as e:  # noqa
        return 'Crash:' + type(e).__name__


def large_ops(case):
    return ops_from_json([st['op'] for st in case['steps']])


def as_query(qj):
    return (bool(qj[0]), list(qj[1]), list(qj[2]), [tuple(p) for p in qj[3]])


def large_impl_trace(case):
    """'ValueError' / 'Crash:..' when the constructor refuses, else (snapshot0, [(outcome, snapshot)...], object)"""
    kind, a, b = case['kind'], case['a'], case['b']
    r = impl_new(kind, a, b)
    if r[0] != 'ok':
        return r[0] if r[0] == 'ValueError' else 'Crash:' + r[1]
    G, ints, out = r[1], Ints(), []
    s0 = sparse_snapshot(G, kind, as_query(case['q0']), ints, 0)
    for i, (st, op) in enumerate(zip(case['steps'], large_ops(case))):
        o = large_apply(G, op, st['modes'], ints, CONTAINERS[i % 4])
        out.append((o, sparse_snapshot(G, kind, as_query(st['q']), ints, i)))
    return (s0, out, G)


def large_failure(case, final_full=True):
    """the implementation against the set-of-edges oracle on the named queries (and on every view at the end).
    None or (step, what, detail)"""
    kind, a, b = case['kind'], case['a'], case['b']
    r = impl_new(kind, a, b)
    if r[0] != 'ok':
        return (-1, 'constructor', 'valid size refused: %r' % (r,))
    G, ints, orc = r[1], Ints(), Oracle(kind, a, b)
    bad = oracle_check_sparse(orc, sparse_snapshot(G, kind, as_query(case['q0']), ints, 0), as_query(case['q0']))
    if bad:
        return (-1, bad, 'fresh object')
    for i, (st, op) in enumerate(zip(case['steps'], large_ops(case))):
        qy = as_query(st['q'])
        before = sparse_snapshot(G, kind, qy, ints, i)
        raw_before = None
        want = orc.apply(op, has_method(kind, op))
        if want in ('ValueError', 'NoMethod') and op[0] != 'addfrom':
            raw_before = raw_state(G)
        got = large_apply(G, op, st['modes'], ints, CONTAINERS[i % 4])
        after = sparse_snapshot(G, kind, qy, ints, i)
        if norm_outcome(got) != want:
            return (i, 'outcome', 'raised/returned %s, the property asks %s (argument objects: %s)' % (got, want, st['modes']))
        if raw_before is not None and (before != after or raw_before != raw_state(G)):
            return (i, 'side-effect', 'refused call changed a view')
        bad = oracle_check_sparse(orc, after, qy)
        if bad:
            return (i, bad, 'view disagrees with the set of inserted edges')
        if kind != 'bipartite':
            try:
                if list(G.vertices()) != list(range(1, orc.n + 1)) or G.order() != orc.n or len(G) != orc.n:
                    return (i, 'order', 'vertices() / order() / len() disagree with the vertex count')
            except Exception as e:  # noqa
                return (i, 'order', 'vertices() raised %s' % type(e).__name__)
    if final_full and max(orc.n, orc.r) <= FULL_CHECK_MAX:
        bad = orc.check(snapshot(G, kind))
        if bad:
            return (len(case['steps']) - 1, bad, 'final state: view disagrees with the set of inserted edges')
    return None


def query_sx(qj):
    return [bool(qj[0]), list(qj[1]), list(qj[2]), [list(p) for p in qj[3]]]


def large_req(case):
    return cmd('graph_probe', Sym(case['kind']), case['a'], case['b'], query_sx(case['q0']),
               [[op_sx(op), query_sx(st['q'])] for st, op in zip(case['steps'], large_ops(case))])


def probe_view(v):
    order, count, edges, edges2, has, n1, n2, d1, d2, dag = v
    return [order, count, _opt(edges), _opt(edges2), has, [_opt(x) for x in n1], [_opt(x) for x in n2],
            [_opt(x) for x in d1], [_opt(x) for x in d2], dag]


def large_model_trace(rep):
    if rep[0] == 'init-error':
        return 'ValueError'
    return (probe_view(rep[1]), [(str(o), probe_view(v)) for (o, v) in rep[2]])


def large_mismatch(ctx, case):
    rep = ctx.model.batch([large_req(case)])[0]
    if is_error(rep):
        return (-2, 'model-error', None, rep)
    it = large_impl_trace(case)
    return first_difference(it if isinstance(it, str) else it[:2], large_model_trace(rep))


def large_input(case, steps=None):
    steps = case['steps'] if steps is None else steps
    return dict(large=True, stream=case['stream'], scenario=case['scenario'], kind=case['kind'], initial=[case['a'], case['b']],
                q0=case['q0'], steps=steps,
                legend="step = op + how each integer argument is passed ('s' the same int object every time, 'f' a freshly computed "
                       "int) + the views asked after it (full, vertices, vertices of the second kind, has_edge pairs)")


def with_steps(case, steps):
    c = dict(case)
    c['steps'] = list(steps)
    return c


def budgeted(pred, max_calls=120, max_s=10.0):
    """shrinking long sequences is best effort: after the budget nothing is reduced any more"""
    state = dict(n=0, t0=time.time())

    def f(x):
        if state['n'] >= max_calls or time.time() - state['t0'] > max_s:
            return False
        state['n'] += 1
        return pred(x)
    return f


def report_large(ctx, case, pf, diff):
    ctx.disagreements_checked += 1
    kind = case['kind']
    if pf is not None:
        step, what, detail = pf
        site, cls = site_of(kind, large_ops(case), step), 'property:' + what
        small = case
        if not any(v['site'] == site and v['cls'] == cls for v in ctx.violations):
            early = large_failure(case, final_full=False) is not None
            steps = ddmin(case['steps'], budgeted(lambda st: large_failure(with_steps(case, st), final_full=not early) is not None))
            small = with_steps(case, steps)
            step, what, detail = large_failure(small, final_full=False) or large_failure(small) or pf
        ctx.violation('counterexample',
                      '%s (%d vertices): after this op sequence the view `%s` contradicts the set of inserted edges (%s)'
                      % (CLSNAME[kind], case['a'], what, detail),
                      dict(input=large_input(small), failing_step=step, view=what, detail=detail, original_length=len(case['steps'])),
                      True, site=site_of(kind, large_ops(small), step), cls='property:' + what)
        return
    step, what, iv, mv = diff
    site, cls = site_of(kind, large_ops(case), step), 'model:' + what
    small = case
    if not any(v['site'] == site and v['cls'] == cls for v in ctx.violations):
        steps = ddmin(case['steps'], budgeted(lambda st: large_mismatch(ctx, with_steps(case, st)) is not None, 60))
        small = with_steps(case, steps)
        step, what, iv, mv = large_mismatch(ctx, small) or diff
    ctx.violation('correspondence',
                  '%s (%d vertices) differs from the model (coq/GraphObj.v) in `%s` but still agrees with the set-of-edges oracle; '
                  'theorems C16_* no longer cover the code' % (CLSNAME[kind], case['a'], what),
                  dict(input=large_input(small), failing_step=step, view=what, implementation=iv, model=mv,
                       correspondence='coq/GraphObj.v %s_step <-> cnfgen/graphs.py %s' % (kind[0], CLSNAME[kind])),
                  False, site=site_of(kind, large_ops(small), step), cls='model:' + what)


def check_large_case(ctx, case, rep):
    if is_error(rep):
        ctx.violation('correspondence', 'model error', dict(input=large_input(case, case['steps'][:10]), model=rep), False,
                      site='model-error', cls=case['kind'])
        return True
    pf = large_failure(case)
    it = large_impl_trace(case)
    diff = first_difference(it if isinstance(it, str) else it[:2], large_model_trace(rep))
    if pf is None and diff is None:
        return False
    report_large(ctx, case, pf, diff)
    return True


class LargeBuilder:
    """accumulates the steps of one large case; keeps a set-of-edges track only to aim the generator"""

    def __init__(self, rng, stream, scenario, kind, a, b, full_every=16):
        self.rng, self.kind, self.a, self.b = rng, kind, a, b
        self.track = Oracle(kind, a, b)
        self.steps = []
        self.watch_u, self.watch_v = set(), set()
        self.full_every = full_every
        self.stream, self.scenario = stream, scenario

    def sizes(self):
        return (self.track.n, self.track.r if self.kind == 'bipartite' else self.track.n)

    def query(self, op, full, extra_u=(), extra_v=(), extra_pairs=()):
        n1, n2 = self.sizes()
        us, vs, pairs = set(self.watch_u) | set(extra_u), set(self.watch_v) | set(extra_v), list(extra_pairs)
        es = []
        if op is not None and op[0] in ('add', 'remove'):
            es = [(op[1], op[2])]
        elif op is not None and op[0] == 'addfrom':
            es = list(op[1][:2]) + list(op[1][-2:])
        elif op is not None and op[0] == 'raise':
            us |= {op[1] - 1, op[1], op[1] + 1}
        for (u, v) in es:
            us.add(u)
            vs.add(v)
            if self.kind != 'bipartite':
                us.add(v)
                vs.add(u)
            pairs += [(u, v), (v, u), (u, u), (v, v)]
        for h in sorted(self.watch_u)[:4]:
            for w in sorted(self.watch_v)[:4]:
                pairs.append((h, w))
        if full:
            us, vs = set(qrange(n1)), set(qrange(n2))
        if self.kind == 'simple':
            us, vs = us | vs if not full else us, set()
        big = 4 * max(n1, n2) + 8
        us = sorted(x for x in us if -big <= x <= big)
        vs = sorted(x for x in vs if -big <= x <= big)
        seen, ps = set(), []
        for p in pairs:
            if p not in seen:
                seen.add(p)
                ps.append(list(p))
        return [bool(full), us, vs, ps[:60]]

    def step(self, op, modes=None, full=None, **extra):
        rng = self.rng
        if modes is None:
            modes = ''.join(rng.choice('sf') for _ in range(1 if op[0] in ('raise', 'addfrom') else 2))
            if op[0] == 'addfrom':
                modes = modes * 2 if rng.random() < 0.7 else rng.choice(['sf', 'fs'])
        self.track.apply(op, has_method(self.kind, op))
        if full is None:
            full = len(self.steps) % self.full_every == self.full_every - 1
        jop = jsonable_ops([op])[0]
        self.steps.append(dict(op=jop, modes=modes, q=self.query(op, full, **extra)))

    def case(self):
        if self.steps:
            # the last step always looks at everything
            last = self.steps[-1]
            last['q'] = self.query(ops_from_json([last['op']])[0], True)
        return dict(stream=self.stream, scenario=self.scenario, kind=self.kind, a=self.a, b=self.b,
                    q0=self.query(None, True), steps=self.steps)


def both_modes(rng):
    return rng.choice(['ss', 'ff', 'sf', 'fs'])


def gen_hub(rng, kind, D):
    """shapes: a hub of degree D built in random order, then its largest / smallest / middle neighbours removed
    (Graph) and inserted again; duplicates given as other int objects; new neighbours next to the extremes"""
    n = rng.choice([300, 301, 310, 384])
    B = LargeBuilder(rng, 'large-shapes', 'hub-degree-%d' % D, kind, n, n if kind == 'bipartite' else 0)
    hub = rng.choice([1, 2, 129, 256, 257, 258, n - 1, n])
    hub2 = rng.choice([x for x in (1, 128, 257, 258, 299, n) if x != hub])
    others = rng.sample([x for x in range(1, n + 1) if x != hub], D)
    others2 = rng.sample([x for x in range(1, n + 1) if x != hub2], D)
    B.watch_u.add(hub)
    B.watch_v.add(hub2 if kind != 'simple' else hub)
    ins = []
    if kind == 'simple':
        ins = [(hub, w) if rng.random() < 0.5 else (w, hub) for w in others]
    elif kind == 'directed':
        ins = [(hub, w) for w in others] + [(w, hub2) for w in others2]
    else:
        ins = [(hub, w) for w in others] + [(w, hub2) for w in others2]
    rng.shuffle(ins)
    i = 0
    while i < len(ins):
        if rng.random() < 0.15:
            k = rng.randint(2, 12)
            B.step(('addfrom', ins[i:i + k]))
            i += k
        else:
            B.step(('add',) + ins[i])
            i += 1
    nb = sorted(others)
    picks = [nb[-1], nb[0], nb[len(nb) // 2]]

    def e(w):
        return (hub, w) if (kind != 'simple' or rng.random() < 0.5) else (w, hub)
    ex = dict(extra_u=picks, extra_pairs=[(hub, w) for w in picks] + [(w, hub) for w in picks])
    for w in picks:
        B.step(('remove',) + e(w), modes=both_modes(rng), full=True, **ex)
    order = list(picks)
    rng.shuffle(order)
    for w in order:
        B.step(('add',) + e(w), modes=both_modes(rng), full=True, **ex)
    for w in order:
        B.step(('add',) + e(w), modes=both_modes(rng), **ex)             # duplicates: no-ops
    B.step(('remove',) + e(picks[2]), modes=both_modes(rng), full=True, **ex)
    free = [x for x in range(1, n + 1) if x != hub and x not in others]
    near = sorted(free, key=lambda x: abs(x - picks[2]))[:2] + [min(free), max(free)]
    for w in near:
        B.step(('add',) + e(w), modes=both_modes(rng), full=True, extra_u=[w], extra_pairs=[(hub, w), (w, hub)])
    B.step(('add',) + e(picks[2]), modes=both_modes(rng), **ex)
    if kind != 'simple':
        nb2 = sorted(others2)
        for w in (nb2[-1], nb2[0], nb2[len(nb2) // 2]):
            B.step(('add', w, hub2), modes=both_modes(rng), extra_u=[w], extra_pairs=[(w, hub2)])
        free2 = [x for x in range(1, n + 1) if x != hub2 and x not in others2]
        for w in sorted(free2, key=lambda x: abs(x - nb2[len(nb2) // 2]))[:2] + [min(free2), max(free2)]:
            B.step(('add', w, hub2), modes=both_modes(rng), full=True, extra_u=[w], extra_pairs=[(w, hub2)])
    return B.case()


def gen_thresholds(rng, kind, n, length=110):
    """thresholds: every vertex argument is one of the threshold values (or just outside the range), every argument is
    passed as the canonical object or as a fresh one"""
    r = rng.choice([257, 258, 300]) if kind == 'bipartite' else 0
    B = LargeBuilder(rng, 'large-thresholds', 'vertices-at-thresholds', kind, n, r, full_every=10)
    n2 = r if kind == 'bipartite' else n
    P1 = [x for x in THRESH + [n - 1, n] if 1 <= x <= n]
    P2 = [x for x in THRESH + [n2 - 1, n2] if 1 <= x <= n2]
    bad1 = [0, -1, n + 1, n + 2, -257, 2 * n, -n]
    bad2 = [0, -1, n2 + 1, n2 + 2, -257, 2 * n2, -n2]
    B.watch_u |= set(rng.sample(P1, 3)) | {n}
    B.watch_v |= set(rng.sample(P2, 3)) | {n2}
    for _ in range(length):
        x = rng.random()
        E = sorted(B.track.E)
        if x < 0.34:
            u, v = rng.choice(P1), rng.choice(P2)
            if u == v and kind == 'simple':
                continue
            B.step(('add', u, v))
        elif x < 0.46:
            u = rng.choice([y for y in P1 if y in P2])
            B.step(('add', u, u), modes=rng.choice(['ss', 'ff', 'ff', 'sf']))          # self-loop
        elif x < 0.62 and E:
            u, v = rng.choice(E)
            if kind == 'simple' and rng.random() < 0.5:
                u, v = v, u
            B.step(('add', u, v), modes=both_modes(rng))                               # duplicate
        elif x < 0.74:
            u, v = rng.choice([(rng.choice(bad1), rng.choice(P2)), (rng.choice(P1), rng.choice(bad2)),
                               (rng.choice(bad1), rng.choice(bad2))])
            B.step((rng.choice(['add', 'add', 'remove']), u, v))
        elif x < 0.88:
            if E and rng.random() < 0.7:
                u, v = rng.choice(E)
                if rng.random() < 0.5:
                    u, v = v, u
            else:
                u, v = rng.choice(P1), rng.choice(P2)
            B.step(('remove', u, v), modes=both_modes(rng))
        elif x < 0.97:
            es = []
            for _ in range(rng.randint(0, 6)):
                y = rng.random()
                if y < 0.7 or not E:
                    es.append((rng.choice(P1), rng.choice(P2)))
                elif y < 0.9:
                    es.append(rng.choice(E))
                else:
                    es.append((rng.choice(P1), rng.choice(bad2)))
            B.step(('addfrom', es))
        else:
            B.step(('raise', rng.choice([n, n - 1, 0, -1, B.track.n + 2])))
    return B.case()


def gen_raise(rng, kind, n0, d):
    """history: update_vertex_number raises the count by d >= 2 at once; the new vertices are used at once"""
    B = LargeBuilder(rng, 'large-history', 'raise-by-%d' % d, kind, n0, n0 if kind == 'bipartite' else 0, full_every=4)
    for _ in range(min(n0, 6)):
        u, v = rng.randint(1, n0), rng.randint(1, n0)
        if u != v or kind != 'simple':
            B.step(('add', u, v))
    for rnd in range(2):
        old = B.track.n
        new = old + (d if rnd == 0 else 2)
        fresh = list(range(old + 1, new + 1))
        B.step(('raise', new), full=True, extra_u=fresh + [new + 1])
        if not has_method(kind, ('raise', new)):
            break
        use = [(new, old + 1)] if new != old + 1 else []
        use += [(old + 1, old + 2), (new - 1, new), (new, new + 1), (new + 1, new)]
        if old >= 1:
            use += [(old, new), (old + 1, 1), (rng.randint(1, old), rng.choice(fresh))]
        use += [(x, rng.choice(fresh)) for x in fresh]
        rng.shuffle(use)
        for (u, v) in use:
            if u != v:
                B.step(('add', u, v), extra_u=fresh[:8] + fresh[-8:] + [new + 1])
        B.step(('add', new, new), modes='ff')
        B.step(('remove', new, old + 1), full=True, extra_u=fresh[:8] + fresh[-8:])
        B.step(('add', old + 1, new), full=True, extra_u=fresh[:8] + fresh[-8:])
    B.step(('raise', B.track.n - 2 if B.track.n >= 2 else 0), full=True)
    B.step(('raise', -1))
    B.step(('raise', B.track.n), modes='f')
    if B.track.n >= 2:
        B.step(('add', B.track.n, 1), full=True)
    return B.case()


def gen_random_order(rng, kind, n, heavy_sizes, sparse, removals):
    """history: edges inserted in random order (singly and through add_edges_from); some vertices end up with long
    neighbour lists on either side; removals and re-insertions in between (Graph)"""
    r = n if kind == 'bipartite' else 0
    B = LargeBuilder(rng, 'large-history', 'random-insertion-order', kind, n, r, full_every=25)
    n2 = n
    edges = set()
    verts = list(range(1, n + 1))
    for k, size in enumerate(heavy_sizes):
        h = rng.choice(verts)
        side = k % 2
        for w in rng.sample([x for x in verts if x != h], min(size, n - 1)):
            e = (h, w) if side == 0 else (w, h)
            if kind == 'simple':
                e = (min(e), max(e))
            edges.add(e)
        (B.watch_u if side == 0 or kind == 'simple' else B.watch_v).add(h)
    most = n * (n - 1) // 2 if kind == 'simple' else n * n
    target = min(sum(min(s, n - 1) for s in heavy_sizes) + sparse, (most * 8) // 10)
    while len(edges) < target:
        u, v = rng.randint(1, n), rng.randint(1, n2)
        if kind == 'simple':
            if u == v:
                continue
            u, v = min(u, v), max(u, v)
        edges.add((u, v))
    todo = list(edges)
    rng.shuffle(todo)
    if kind == 'simple':
        todo = [(u, v) if rng.random() < 0.5 else (v, u) for (u, v) in todo]
    i, removed = 0, 0
    while i < len(todo):
        x = rng.random()
        if x < 0.12:
            k = rng.randint(2, 30)
            B.step(('addfrom', todo[i:i + k]))
            i += k
        elif x < 0.12 + (0.1 if removed < removals else 0) and B.track.E:
            u, v = rng.choice(sorted(B.track.E))
            if rng.random() < 0.5:
                u, v = v, u
            B.step(('remove', u, v), modes=both_modes(rng))
            if has_method(kind, ('remove', u, v)):
                todo.append((u, v))
            removed += 1
        else:
            B.step(('add',) + todo[i])
            i += 1
    return B.case()


def large_cases(rng, quick):
    cases = []
    reps = 1 if quick else 8
    for _ in range(reps):
        for kind in KINDS:
            for D in (64, 129):
                cases.append(gen_hub(rng, kind, D))
        cases.append(gen_hub(rng, rng.choice(KINDS), 65))
        cases.append(gen_hub(rng, rng.choice(KINDS), 130))
        for kind in KINDS:
            cases.append(gen_thresholds(rng, kind, rng.choice([257, 258, 300])))
            cases.append(gen_thresholds(rng, kind, 1025, length=60))
        for (n0, d) in [(255, 3), (256, 2), (300, 17), (0, 2), (15, 2), (1, 5)]:
            cases.append(gen_raise(rng, 'simple', n0, d))
        cases.append(gen_raise(rng, 'directed', 256, 2))
        cases.append(gen_raise(rng, 'bipartite', 256, 2))
        for kind in KINDS:
            cases.append(gen_random_order(rng, kind, rng.choice([300, 320]), [129, 130, 65, 64, 17, 16], 120, 12))
            for _ in range(2):
                n = rng.choice([18, 24, 40, 70])
                cases.append(gen_random_order(rng, kind, n, [n - 1, n - 1, 17, 16], rng.choice([0, n, n * n // 3]), 8))
    return cases


def run_large(ctx, rng):
    quick = ctx.tier == 'quick'
    cases = large_cases(rng, quick)
    replies = ctx.model.batch([large_req(c) for c in cases])
    for ci, (case, rep) in enumerate(zip(cases, replies)):
        kind = case['kind']
        ctx.count(case['stream'], (kind, case['a'], case['b'], json.dumps(case['steps'])), len(case['steps']) > 0,
                  sample=dict(scenario=case['scenario'], kind=kind, initial=[case['a'], case['b']], steps=case['steps'][:3],
                              length=len(case['steps'])))
        ctx.tally('large: scenario', '%s/%s' % (case['scenario'], kind))
        ctx.tally('large: initial size', case['a'])
        for st in case['steps']:
            ctx.tally('large: op', st['op'][0])
            ctx.tally('large: argument objects (s = same int object, f = freshly computed int)', st['op'][0] + '/' + st['modes'])
        orc = Oracle(kind, case['a'], case['b'])
        for op in large_ops(case):
            orc.apply(op, has_method(kind, op))
        fwd, bwd = {}, {}
        for (u, v) in orc.E:
            fwd[u] = fwd.get(u, 0) + 1
            bwd[v] = bwd.get(v, 0) + 1
            if kind == 'simple':
                fwd[v] = fwd.get(v, 0) + 1
        ctx.tally('large: final maximum degree', max(list(fwd.values()) + list(bwd.values()) + [0]))
        ctx.tally('large: final edge count (bucket of 50)', (len(orc.E) // 50) * 50)
        if check_large_case(ctx, case, rep):
            continue
        # the object is reused: conversion through networkx and back (every view of the copy, the reordered copy too)
        if (quick and ci % 2) or max(orc.n, orc.r) > FULL_CHECK_MAX:
            continue
        it = large_impl_trace(case)
        fail = nx_roundtrip_failure(kind, it[2], orc, rng)
        ctx.count('networkx-roundtrip', ('large', kind, case['a'], case['b'], json.dumps(case['steps'])), len(orc.E) > 0,
                  sample=dict(kind=kind, initial=[case['a'], case['b']], edges=len(orc.E)))
        if fail:
            ctx.disagreements_checked += 1

            def still(steps):
                c = with_steps(case, steps)
                t = large_impl_trace(c)
                if isinstance(t, str):
                    return False
                oc = Oracle(kind, case['a'], case['b'])
                for op in large_ops(c):
                    oc.apply(op, has_method(kind, op))
                return nx_roundtrip_failure(kind, t[2], oc) is not None
            steps = ddmin(case['steps'], budgeted(still)) if still(case['steps']) else case['steps']
            ctx.violation('counterexample', '%s: conversion through networkx does not preserve vertices and edges (%s)' % (CLSNAME[kind], fail),
                          dict(input=dict(large_input(case, steps), then='from_networkx(to_networkx())'), detail=fail),
                          True, site=CLSNAME[kind] + '.networkx', cls='roundtrip')


# --------------------------------------------------------------------------------------------
# networkx graphs with arbitrary labels -> cnfgen graph objects
# --------------------------------------------------------------------------------------------
NX_SCHEMES = ['identity-shuffled', 'zero-based', 'negative', 'gaps', 'max-is-n', 'strings', 'numeric-strings', 'tuples', 'floats',
              'mixed']
BIP_SCHEMES = ['to_networkx-format', 'right-first', 'interleaved', 'zero-based', 'negative-gaps', 'strings', 'mixed']


def nx_labels(rng, n, scheme):
    if scheme == 'identity-shuffled':
        return list(range(1, n + 1))
    if scheme == 'zero-based':
        return list(range(n))
    if scheme == 'negative':
        k = rng.randint(1, n + 2)
        return list(range(-k, n - k))
    if scheme == 'gaps':
        return rng.sample(range(-20, 4 * n + 20), n)
    if scheme == 'max-is-n':            # n labels, the largest is n, but they are not 1..n
        if n < 2:
            return list(range(1, n + 1))
        j = rng.randint(1, n - 1)
        return [x for x in range(0, n + 1) if x != j]
    if scheme == 'strings':
        return ['v%d' % i for i in range(1, n + 1)]
    if scheme == 'numeric-strings':
        return [str(i) for i in range(1, n + 1)]
    if scheme == 'tuples':
        w = max(1, int(n ** 0.5))
        return [(i // w, i % w) for i in range(n)]
    if scheme == 'floats':
        return [i if i % 3 else i + 0.5 for i in range(n)]
    return [i if i % 2 else 'v%d' % i for i in range(n)]       # mixed: cannot be sorted when n >= 2


def gen_nx_plain(rng, kind, n, scheme):
    """a networkx Graph / DiGraph with the labels of the scheme, nodes and edges inserted in random order.
    Returns (X, description)"""
    import networkx
    labels = nx_labels(rng, n, scheme)
    order = list(labels)
    rng.shuffle(order)
    X = networkx.DiGraph() if kind == 'directed' else networkx.Graph()
    for u in order:
        X.add_node(u)
    pairs = set()
    if n >= 2:
        if n >= 130:
            h = rng.choice(labels)
            for w in rng.sample([x for x in labels if x != h], 129):
                pairs.add((h, w) if rng.random() < 0.5 else (w, h))
        for _ in range(rng.choice([0, 1, n, 2 * n, 3 * n]) if n < 130 else n):
            u, v = rng.choice(labels), rng.choice(labels)
            if u != v:
                pairs.add((u, v))
    if kind == 'directed' and n >= 1 and rng.random() < 0.2:
        u = rng.choice(labels)
        pairs.add((u, u))
    es = list(pairs)
    rng.shuffle(es)
    for (u, v) in es:
        X.add_edge(u, v)
    return X, dict(kind=kind, scheme=scheme, nodes_in_insertion_order=[repr(u) for u in order][:40], order=n,
                   edges_in_insertion_order=[[repr(u), repr(v)] for (u, v) in es][:60], edges=len(es))


def gen_nx_bip(rng, L, R, scheme):
    import networkx
    if scheme == 'to_networkx-format':
        left, right = list(range(1, L + 1)), list(range(L + 1, L + R + 1))
    elif scheme == 'right-first':
        right, left = list(range(1, R + 1)), list(range(R + 1, R + L + 1))
    elif scheme == 'interleaved':
        allv = list(range(1, L + R + 1))
        left = sorted(rng.sample(allv, L))
        right = [x for x in allv if x not in set(left)]
    elif scheme == 'zero-based':
        left, right = list(range(L)), list(range(L, L + R))
    elif scheme == 'negative-gaps':
        allv = rng.sample(range(-30, 3 * (L + R) + 30), L + R)
        left, right = allv[:L], allv[L:]
    elif scheme == 'strings':
        left, right = ['l%d' % i for i in range(1, L + 1)], ['r%d' % i for i in range(1, R + 1)]
    else:
        left = [i if i % 2 else 'l%d' % i for i in range(L)]
        right = [(i,) if i % 2 else 'r%d' % i for i in range(R)]
    if scheme not in ('to_networkx-format',) or rng.random() < 0.5:
        if rng.random() < 0.7:
            rng.shuffle(left)
            rng.shuffle(right)
    lq, rq = list(left), list(right)
    X = networkx.Graph()
    nodes = []
    while lq or rq:
        if lq and (not rq or rng.random() < 0.5):
            u, side = lq.pop(0), 0
        else:
            u, side = rq.pop(0), 1
        attr = rng.choice([side, str(side)])
        X.add_node(u, bipartite=attr)
        nodes.append((u, attr))
    pairs = set()
    if L and R:
        if L >= 130 and R >= 130:
            h = rng.choice(left)
            for w in rng.sample(right, 129):
                pairs.add((h, w))
            h = rng.choice(right)
            for w in rng.sample(left, 129):
                pairs.add((w, h))
        for _ in range(rng.choice([0, 1, L, L + R, 3 * (L + R)]) if L < 130 else L):
            pairs.add((rng.choice(left), rng.choice(right)))
    es = [(u, v) if rng.random() < 0.5 else (v, u) for (u, v) in pairs]
    rng.shuffle(es)
    for (u, v) in es:
        X.add_edge(u, v)
    return X, left, right, pairs, dict(kind='bipartite', scheme=scheme, nodes_in_insertion_order=[[repr(u), repr(a)] for (u, a) in nodes][:40],
                                       sides=[L, R], edges_in_insertion_order=[[repr(u), repr(v)] for (u, v) in es][:60], edges=len(es))


def label_order(X):
    """the documented numbering of Graph / DirectedGraph.from_networkx: sorted order when the labels can be sorted
    (`the order is preserved`), and None when they cannot (then only a renumbering 1..n is promised)"""
    try:
        return sorted(X.nodes())
    except TypeError:
        return None


def run_nx_labels(ctx, rng):
    import networkx
    quick = ctx.tier == 'quick'
    jobs = []
    sizes = [0, 1, 2, 3, 4, 5, 6, 8, 9, 12]
    for rep in range(1 if quick else 6):
        for kind in ('simple', 'directed'):
            for scheme in NX_SCHEMES:
                for n in ([2, 3, 5, rng.choice(sizes), rng.choice(sizes)] if quick else sizes + [17, 33]):
                    jobs.append((kind, n, scheme))
        for scheme in BIP_SCHEMES:
            for _ in range(5 if quick else 14):
                jobs.append(('bipartite', (rng.choice([0, 1, 2, 3, 4, 6]), rng.choice([0, 1, 2, 3, 5, 7])), scheme))
        for kind in ('simple', 'directed'):
            for j, (scheme, n) in enumerate([('identity-shuffled', 257), ('max-is-n', 300), ('zero-based', 258), ('gaps', 300),
                                             ('numeric-strings', 130), ('mixed', 257), ('negative', 300), ('tuples', 289)]):
                if quick and (j + (kind == 'directed')) % 2:
                    continue
                jobs.append((kind, n, scheme))
        for scheme in (['to_networkx-format', 'interleaved', 'right-first'] if quick else BIP_SCHEMES):
            jobs.append(('bipartite', (rng.choice([150, 257]), rng.choice([150, 258])), scheme))
    work, reqs = [], []
    for (kind, n, scheme) in jobs:
        ctx.tally('networkx labels: scheme', kind + '/' + scheme)
        ctx.tally('networkx labels: order', n if not isinstance(n, tuple) else '%d,%d' % n)
        if kind == 'bipartite':
            X, left, right, pairs, descr = gen_nx_bip(rng, n[0], n[1], scheme)
            iu = {u: i for i, u in enumerate([u for u in X.nodes() if X.nodes[u]['bipartite'] in (0, '0')], start=1)}
            iv = {v: i for i, v in enumerate([v for v in X.nodes() if X.nodes[v]['bipartite'] in (1, '1')], start=1)}
            orc = Oracle(kind, n[0], n[1])
            orc.E = {(iu[u], iv[v]) for (u, v) in pairs}
            exact = True
        else:
            X, descr = gen_nx_plain(rng, kind, n, scheme)
            order = label_order(X)
            exact = order is not None
            if order is None:
                order = list(X.nodes())            # what the code does when the labels cannot be sorted (not promised)
            idx = {u: i for i, u in enumerate(order, start=1)}
            orc = Oracle(kind, n, 0)
            orc.E = {orc.norm(idx[u], idx[v]) for (u, v) in X.edges()}
        descr['expected_edges'] = [list(e) for e in sorted(orc.E)][:60]
        descr['numbering_promised'] = exact
        fq = [True, qrange(orc.n), qrange(orc.r if kind == 'bipartite' else orc.n) if kind != 'simple' else [], []]
        reqs.append(cmd('graph_probe', Sym(kind), orc.n, orc.r, query_sx(fq), [[op_sx(('addfrom', sorted(orc.E))), query_sx(fq)]]))
        work.append((kind, scheme, X, orc, exact, descr, fq))
    replies = ctx.model.batch(reqs)
    for (kind, scheme, X, orc, exact, descr, fq), rep in zip(work, replies):
        ctx.count('networkx-labels', json.dumps(descr, sort_keys=True), len(orc.E) > 0, sample=descr)
        site = CLSNAME[kind] + '.from_networkx'
        try:
            G = impl_class(kind).from_networkx(X)
        except Exception as e:  # noqa
            ctx.disagreements_checked += 1
            ctx.violation('counterexample', '%s.from_networkx raised %s on a valid networkx graph (labels: %s)' % (CLSNAME[kind], type(e).__name__, scheme),
                          dict(input=descr, raised=type(e).__name__, message=str(e)[:200]), True, site=site, cls='labels:raises-' + type(e).__name__)
            continue
        big = max(orc.n, orc.r) > 40
        snap = sparse_snapshot(G, kind, as_query(fq), Ints(), 1)
        bad = oracle_check_sparse(orc, snap, as_query(fq)) if big else orc.check(snapshot(G, kind))
        if bad and not exact:
            # the labels cannot be sorted: only SOME numbering 1..n is promised -- count / order / degree multiset must still hold
            degs = sorted(len(list(X.predecessors(u))) + len(list(X.successors(u))) if kind == 'directed' else
                          sum(1 for w in X.neighbors(u) if w != u) for u in X.nodes())
            gd = sorted((G.in_degree(u) + G.out_degree(u)) if kind == 'directed' else G.degree(u) for u in range(1, G.number_of_vertices() + 1)) \
                if G.number_of_vertices() == orc.n else None
            weak_ok = G.number_of_vertices() == orc.n and G.number_of_edges() == len(orc.E) and gd == degs
            ctx.disagreements_checked += 1
            if weak_ok:
                ctx.violation('correspondence', '%s.from_networkx numbers labels that cannot be sorted in another order than node order (view %s); '
                              'nothing is promised there, but the recorded behaviour (C16_*_networkx, relabelling abstracted) changed' % (CLSNAME[kind], bad),
                              dict(input=descr, view=bad, correspondence='harness/c16.py label_order <-> cnfgen/graphs.py normalize_networkx_labels'),
                              False, site=site, cls='labels-unsortable:' + bad)
                continue
        if bad:
            ctx.disagreements_checked += 1
            got = q(lambda: [list(e) for e in G.edges()])
            ctx.violation('counterexample', '%s.from_networkx: view `%s` is not that of the documented renumbering (labels: %s; %s)'
                          % (CLSNAME[kind], bad, scheme, 'sorted label order' if kind != 'bipartite' else 'node order within each side'),
                          dict(input=descr, view=bad, got_order=q(G.number_of_vertices), got_edges=got[:60] if isinstance(got, list) else got), True,
                          site=site, cls='labels:' + bad)
            continue
        if is_error(rep) or rep[0] != 'ok':
            ctx.violation('correspondence', 'model error', dict(input=descr, model=rep), False, site='model-error', cls=kind)
            continue
        mo, mv = rep[2][0]
        mv = probe_view(mv)
        if str(mo) != 'ok' or snap != mv:
            ctx.disagreements_checked += 1
            badv = [nm for nm, x, y in zip(VIEWNAMES, snap, mv) if x != y]
            ctx.violation('correspondence', 'from_networkx: implementation and model (add_edges_from of the renumbered edges) differ in %s' % badv,
                          dict(input=descr, implementation=snap[:2], model=mv[:2], correspondence='coq/GraphObj.v g_from_nx / d_from_nx / b_from_nx'),
                          False, site=site, cls='model:' + (badv or ['outcome'])[0])
    # ---- what must be refused (BipartiteGraph.from_networkx documents ValueError)
    for i in range(30 if quick else 300):
        L, R = rng.randint(1, 5), rng.randint(1, 5)
        X, left, right, pairs, descr = gen_nx_bip(rng, L, R, rng.choice(BIP_SCHEMES))
        how = rng.choice(['no-attribute', 'attribute-2', 'edge-inside-a-side', 'not-a-graph'])
        if how == 'no-attribute':
            X.add_node('extra')
        elif how == 'attribute-2':
            X.add_node('extra', bipartite=2)
        elif how == 'edge-inside-a-side':
            side = left if (len(left) >= 2 and (len(right) < 2 or rng.random() < 0.5)) else right
            if len(side) < 2:
                continue
            u, v = rng.sample(side, 2)
            X.add_edge(u, v)
        else:
            X = [(1, 2)]
        descr['malformed'] = how
        ctx.tally('networkx labels: refused input', how)
        ctx.count('networkx-labels-refused', json.dumps(descr, sort_keys=True), True, sample=descr)
        try:
            impl_class('bipartite').from_networkx(X)
            got = 'accepted'
        except ValueError:
            got = 'ValueError'
        except Exception as e:  # noqa
            got = type(e).__name__
        if got != 'ValueError':
            ctx.disagreements_checked += 1
            ctx.violation('counterexample', 'BipartiteGraph.from_networkx: %s instead of the documented ValueError (%s)' % (got, how),
                          dict(input=descr, got=got), True, site='BipartiteGraph.from_networkx', cls='refusal:' + how)


# --------------------------------------------------------------------------------------------
# run
# --------------------------------------------------------------------------------------------
def check_case(ctx, kind, a, b, ops, rep):
    """one sequence; rep = the model's reply.  Returns True when something was reported."""
    if is_error(rep):
        ctx.violation('correspondence', 'model error', dict(input=dict(kind=kind, initial=[a, b], ops=jsonable_ops(ops)), model=rep),
                      False, site='model-error', cls=kind)
        return True
    it = impl_trace(kind, a, b, ops)
    pf = property_failure(kind, a, b, ops)
    diff = first_difference(it if isinstance(it, str) else it[:2], model_trace(rep))
    if pf is None and diff is None:
        return False
    report(ctx, kind, a, b, ops, diff, pf)
    return True


def run(ctx):
    import_impl()
    quick = ctx.tier == 'quick'
    ctx.assumptions.append('theorems quantify over integer (Z) arguments of any value; non-integer arguments are outside the model '
                           'and are exercised only by the malformed stream against the oracle')
    ctx.assumptions.append('add_edges_from is read as the loop of add_edge calls it is: at the first refused edge it raises ValueError '
                           'and keeps the edges inserted before it (theorems C16_*_add_edges_from)')
    rng = ctx.rng
    nseq = 450 if quick else 7500

    # ---- API surface assumed by the model -------------------------------------------------
    expect = {'simple': {'remove_edge': True, 'update_vertex_number': True},
              'directed': {'remove_edge': False, 'update_vertex_number': False},
              'bipartite': {'remove_edge': False, 'update_vertex_number': False}}
    for kind in KINDS:
        for meth, want in expect[kind].items():
            have = hasattr(impl_class(kind), meth)
            ctx.count('api-surface', (kind, meth), True, sample=dict(cls=CLSNAME[kind], method=meth, present=have))
            if have != want:
                ctx.note('%s.%s present=%s (model assumes %s): ops of this kind are judged by the oracle only' % (CLSNAME[kind], meth, have, want))

    # ---- large graphs, thresholds, histories, label schemes (always run, first) ----------------
    lrng = random.Random('%d-c16-large' % ctx.seed)      # derived from the seed; the streams below keep their own sequence
    run_large(ctx, lrng)
    run_nx_labels(ctx, lrng)

    # ---- fixed corner sequences (always run) ------------------------------------------------
    corpus = [
        ('simple', 0, 0, []), ('simple', 0, 0, [('add', 1, 1)]), ('simple', 1, 0, [('add', 1, 1), ('raise', 2), ('add', 2, 1)]),
        ('simple', 3, 0, [('add', 3, 1), ('add', 1, 3), ('remove', 1, 3), ('remove', 1, 3), ('add', 1, 3)]),
        ('simple', 5, 0, [('addfrom', [(1, 4), (4, 5), (2, 4), (2, 3)]), ('raise', 7), ('remove', 4, 1), ('add', 1, 6), ('add', 6, 4)]),
        ('simple', 3, 0, [('addfrom', [(1, 2), (0, 1), (2, 3)])]), ('simple', 2, 0, [('raise', -1), ('raise', 0), ('raise', 2)]),
        ('directed', 3, 0, [('add', 1, 2), ('add', 2, 3), ('add', 2, 2)]), ('directed', 3, 0, [('add', 3, 1)]),
        ('directed', 2, 0, [('add', 1, 2), ('remove', 1, 2), ('raise', 4)]), ('directed', 0, 0, [('add', 0, 0)]),
        ('bipartite', 3, 5, [('add', 2, 3), ('add', 2, 2), ('add', 2, 3)]), ('bipartite', 2, 2, [('add', 3, 1), ('add', 1, 3), ('add', 0, 1)]),
        ('bipartite', 0, 0, [('add', 1, 1)]), ('bipartite', 2, 3, [('addfrom', [(1, 1), (2, 3), (3, 3), (1, 2)])]),
        ('simple', -1, 0, []), ('directed', -2, 0, []), ('bipartite', -1, 2, []), ('bipartite', 2, -1, []),
    ]
    cases = [(k, a, b, list(ops), False) for (k, a, b, ops) in corpus]
    for i in range(nseq):
        kind = KINDS[i % 3]
        a, b, ops, dagmode = gen_sequence(rng, kind, quick, ctx.tally)
        cases.append((kind, a, b, ops, dagmode))

    replies = ctx.model.batch([model_req(k, a, b, ops) for (k, a, b, ops, _) in cases])
    rt_jobs = []
    for (kind, a, b, ops, dagmode), rep in zip(cases, replies):
        ctx.count('ops-' + kind, (kind, a, b, json.dumps(jsonable_ops(ops))), len(ops) > 0,
                  sample=dict(kind=kind, initial=[a, b], ops=jsonable_ops(ops)[:8], length=len(ops)))
        ctx.tally('kind', kind)
        ctx.tally('sequence length (bucket of 10)', (len(ops) // 10) * 10)
        ctx.tally('initial size', a if kind != 'bipartite' else '%d,%d' % (a, b))
        reported = check_case(ctx, kind, a, b, ops, rep)
        if not reported and not is_error(rep) and a >= 0 and b >= 0:
            mt = model_trace(rep)
            if not isinstance(mt, str):
                outs = [o for (o, _) in mt[1]]
                for o in outs:
                    ctx.tally('outcome (model = implementation)', o)
                final = mt[1][-1][1] if mt[1] else mt[0]
                ctx.tally('final edge count (bucket of 5)', (final[1] // 5) * 5)
                if kind == 'directed':
                    ctx.tally('final is_dag', final[9])
                rt_jobs.append((kind, a, b, ops))

    # ---- networkx round trip -----------------------------------------------------------------
    rt_jobs = rt_jobs if not quick else rt_jobs[:250]
    rt_replies = ctx.model.batch([model_req(k, a, b, ops, 'graph_roundtrip') for (k, a, b, ops) in rt_jobs])
    for (kind, a, b, ops), rep in zip(rt_jobs, rt_replies):
        it = impl_trace(kind, a, b, ops)
        G = it[2]
        orc = Oracle(kind, a, b)
        for op in ops:
            orc.apply(op, has_method(kind, op))
        ctx.count('networkx-roundtrip', (kind, a, b, json.dumps(jsonable_ops(ops))), len(orc.E) > 0,
                  sample=dict(kind=kind, initial=[a, b], edges=[list(e) for e in sorted(orc.E)][:10]))
        fail = nx_roundtrip_failure(kind, G, orc, rng)
        desc = dict(kind=kind, initial=[a, b], ops=jsonable_ops(ops), then='from_networkx(to_networkx())')
        if fail:
            ctx.disagreements_checked += 1
            # shrink on the oracle predicate
            def still(k, x, y, o):
                t = impl_trace(k, x, y, o)
                if isinstance(t, str):
                    return False
                oc = Oracle(k, x, y)
                for op in o:
                    oc.apply(op, has_method(k, op))
                return nx_roundtrip_failure(k, t[2], oc) is not None
            a2, b2, ops2 = shrink(kind, a, b, ops, still)
            ctx.violation('counterexample', '%s: conversion through networkx does not preserve vertices and edges (%s)' % (CLSNAME[kind], fail),
                          dict(input=dict(kind=kind, initial=[a2, b2], ops=jsonable_ops(ops2), then='from_networkx(to_networkx())'), detail=fail),
                          True, site=CLSNAME[kind] + '.networkx', cls='roundtrip')
            continue
        if is_error(rep) or rep[0] != 'ok' or str(rep[1]) != 'ok':
            ctx.violation('correspondence', 'model round trip failed', dict(input=desc, model=rep), False,
                          site=CLSNAME[kind] + '.networkx', cls='model-roundtrip')
            continue
        G2 = type(G).from_networkx(G.to_networkx())
        iv, mv = snapshot(G2, kind), model_view(rep[2])
        if iv != mv:
            bad = [nm for nm, x, y in zip(VIEWNAMES, iv, mv) if x != y]
            ctx.violation('correspondence', 'round trip through networkx: implementation and model differ in %s' % bad,
                          dict(input=desc, implementation=iv, model=mv, correspondence='coq/GraphObj.v any_roundtrip'), False,
                          site=CLSNAME[kind] + '.networkx', cls='model:' + bad[0])

    # ---- malformed arguments -------------------------------------------------------------------
    run_malformed(ctx, 600 if quick else 8000)
    ctx.exhaustive = False


def replay(ctx, rp):
    """./check C16 --replay FILE : rerun the recorded sequence"""
    import_impl()
    inp = rp.get('input', {})
    if inp.get('large'):
        case = dict(stream=inp.get('stream', 'large'), scenario=inp.get('scenario', ''), kind=inp['kind'], a=inp['initial'][0],
                    b=inp['initial'][1], q0=inp['q0'], steps=inp['steps'])
        ctx.count(case['stream'], json.dumps(case['steps']), True, sample=dict(kind=case['kind'], initial=inp['initial']))
        check_large_case(ctx, case, ctx.model.batch([large_req(case)])[0])
        return
    if 'ops' not in inp:
        return run(ctx)
    kind, (a, b), ops = inp['kind'], inp['initial'], ops_from_json(inp['ops'])
    rep = ctx.model.batch([model_req(kind, a, b, ops)])[0]
    ctx.count('ops-' + kind, (kind, a, b, json.dumps(jsonable_ops(ops))), True, sample=inp)
    check_case(ctx, kind, a, b, ops, rep)
    if inp.get('then'):
        it = impl_trace(kind, a, b, ops)
        if not isinstance(it, str):
            orc = Oracle(kind, a, b)
            for op in ops:
                orc.apply(op, has_method(kind, op))
            fail = nx_roundtrip_failure(kind, it[2], orc)
            if fail:
                ctx.violation('counterexample', 'networkx round trip: ' + fail, dict(input=inp, detail=fail), True,
                              site=CLSNAME[kind] + '.networkx', cls='roundtrip')
