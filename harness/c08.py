"""C08 -- the pseudo-Boolean (OPB) and CNF renderings of a family are the same formula.

Theorem side (coq/IRFacts.v, Prop_C08.v): every family is modelled once as a
list of builder calls; for EVERY such list whose literals are non-zero the CNF
rendering (class CNF) and the OPB rendering (class OPB) have exactly the same
models (`cnf_opb_same_models`), and the per-family lemmas `*_irs_ok` discharge
the hypothesis.  Correspondence: each family of the FAMILIES registries is
built with formula_class=CNF and formula_class=OPB (library) and through
cnfgen / pbgen (command line); number of variables and names must coincide,
the OPB constraint list must equal `to_opb` of the model (in order) and the
clause list `to_cnf` (as a set).  On a mismatch both renderings are evaluated
on all assignments."""
import importlib
import itertools

from lib import import_impl, outcome, is_error, cnf_sat, pb_sat, assignments, family_replies, lit_true

META = dict(
    technique='Coq theorem cnf_opb_same_models over the IR of builder calls (+ per-family irs_ok lemmas) + differential build of every family under both formula classes and both command line tools against to_cnf/to_opb of the extracted model + whole-program model of pbgen (argv -> bytes) with the tool-level theorem tools_same_variables_and_models, compared byte for byte with the real pbgen',
    category='proof',
    text='Theorem: for every list of builder calls (add_clause, cardinality_*, add_parity, majorities) with non-zero literals, the clause list '
         'class CNF produces and the constraint list class OPB produces are satisfied by exactly the same assignments; each family model is '
         'such a list, so both renderings of a family have the same models, for all parameters and graphs. Same variables/names holds because '
         'the variable layout of the model does not depend on the class. Tied to the code by building every family of the registries under '
         'both classes (library and cnfgen/pbgen) and comparing numvar, names, the ordered OPB constraint list with to_opb and the clause set '
         'with to_cnf. At the level of the tools (Prop_C08_pipeline.v): for every argv on which cnfgen and pbgen both write output, the two '
         'texts read back as to_cnf / to_opb of one list of builder calls, with the same variable count and the same verdict on every assignment.',
    note='Trusted: Coq kernel, extraction, harness; family models are hand-written (agreement checked on enumerated small and seeded medium parameters). '
         'Families not in a registry (randkcnf, randkxor, and/or/true/false, dimacs) are compared CNF-vs-OPB directly by brute force only.',
    design_ref='5/C08',
)
REQUIRES_ANY = ['harness/fam_c01.py', 'harness/fam_c02.py', 'harness/fam_c03.py']
RULE = ('every family of harness/fam_c01|c02|c03.py x its parameter generator (exhaustive small + seeded medium); non-trivial = at least one constraint; '
        'distinct = distinct (family, params)')


def load_families(ctx):
    fams = []
    for m in ('fam_c01', 'fam_c02', 'fam_c03'):
        try:
            fams += importlib.import_module(m).FAMILIES
        except ImportError:
            ctx.note('registry %s not present' % m)
    return fams


def opb_models(n, cons):
    return [tuple(a[1:]) for a in assignments(n) if all(pb_sat(a, c) for c in cons)]


def run(ctx):
    import_impl()
    from cnfgen.formula.cnf import CNF
    from cnfgen.formula.opb import OPB
    fams = load_families(ctx)
    quick = ctx.tier == 'quick'
    jobs = []
    for fam in fams:
        ps = fam['params'](ctx.rng, ctx.tier)
        cap = 60 if quick else 400
        if len(ps) > cap:
            ps = ps[:cap // 2] + ctx.rng.sample(ps[cap // 2:], cap // 2)
        for p in ps:
            jobs.append((fam, p))
    def in_chunks(jobs, size=40):
        # the replies of a chunk (whole clause lists) are dropped before the next chunk is asked for
        for k in range(0, len(jobs), size):
            part = jobs[k:k + size]
            yield from zip(part, family_replies(ctx.model, part))
    for (fam, p), reps in in_chunks(jobs):
        name = fam['name']
        a = outcome(fam['build'], p, CNF)
        b = outcome(fam['build'], p, OPB)
        ctx.tally('family', name)
        if a[0] != 'ok' or b[0] != 'ok':
            ctx.count('both-classes', (name, repr(p)), nontrivial=False)
            if (a[0] == 'ok') != (b[0] == 'ok'):
                ctx.violation('counterexample', '%s builds under one formula class and fails under the other' % name,
                              dict(input=dict(family=name, params=p), cnf=str(a[1:])[:200], opb=str(b[1:])[:200]), True, site='class-accept', cls=name)
            continue
        F, G = a[1], b[1]
        cl = [list(c) for c in F]
        cons = [list(c) for c in G]
        ctx.count('both-classes', (name, repr(p)), nontrivial=len(cl) > 0, sample=dict(family=name, params=p, numvar=F.number_of_variables(), clauses=len(cl), constraints=len(cons)))
        bad = None
        if type(G).__name__ != 'OPB':
            bad = 'formula_class=OPB ignored: got %s' % type(G).__name__
        elif F.number_of_variables() != G.number_of_variables():
            bad = 'number of variables differs: CNF %d, OPB %d' % (F.number_of_variables(), G.number_of_variables())
        elif list(F.all_variable_labels()) != list(G.all_variable_labels()):
            bad = 'variable names differ'
        if bad:
            ctx.violation('counterexample', '%s: %s' % (name, bad), dict(input=dict(family=name, params=p)), True, site='class-shape', cls=name)
            continue
        n = F.number_of_variables()
        good = [r for r in reps if not is_error(r) and isinstance(r, list) and len(r) == 3]
        if not good:
            ctx.violation('correspondence', 'family model %s gives no formula where the implementation does' % name, dict(input=dict(family=name, params=p), model=str(reps)[:200]),
                          False, site='model-accept', cls=name)
            continue
        canon = lambda x: sorted(set(tuple(sorted(c)) for c in x))
        cons_py = [[tuple(t) if isinstance(t, (list, tuple)) else t for t in c] for c in cons]
        agree = False
        for mnum, mcnf, mopb in good:
            mopb_py = [[tuple(t) for t in c[0]] + [c[1], c[2]] for c in mopb]
            if mnum == n and canon(mcnf) == canon(cl) and mopb_py == cons_py:
                agree = True
                break
        mnum = good[0][0]
        if agree:
            continue
        ctx.disagreements_checked += 1
        # the property itself on this instance: same models under both classes
        if n <= 16:
            m1 = set(tuple(a[1:]) for a in assignments(n) if cnf_sat(a, cl))
            m2 = set(opb_models(n, cons))
            if m1 != m2:
                w = sorted(m1 ^ m2)[0]
                ctx.violation('counterexample', '%s: CNF and OPB renderings have different models' % name,
                              dict(input=dict(family=name, params=p), assignment=list(w), satisfies_cnf=w in m1, satisfies_opb=w in m2), True, site='class-models', cls=name)
                continue
        ctx.violation('correspondence', '%s: implementation differs from the family model (to_cnf/to_opb); theorem cnf_opb_same_models no longer covers it' % name,
                      dict(input=dict(family=name, params=p), numvar=(n, mnum), theorem='C08_same_models'), False, site='model-mismatch', cls=name)

    random_builder_calls(ctx, CNF, OPB)
    wide_builder_calls(ctx, CNF, OPB)
    dimacs_family(ctx)
    tool_outputs(ctx)
    seeded_tools(ctx)
    import c08_pipeline
    c08_pipeline.run_pb_pipeline(ctx)

    # command line: cnfgen vs pbgen on the same arguments
    from cnfgen.clitools.cnfgen import cli as cnfgen_cli
    from cnfgen.clitools.pbgen import cli as pbgen_cli
    import tempfile
    import shutil
    tmp = tempfile.mkdtemp(prefix='c08-')
    for fam in fams:
        if not fam.get('cli'):
            continue
        ps = fam['params'](ctx.rng, 'quick')[:8 if quick else 40]
        for p in ps:
            try:
                argv = fam['cli'](p, tmp)          # used at once (files with fixed names are overwritten by the next call)
            except Exception:
                argv = None
            if not argv:
                continue
            argv = [str(x) for x in argv]
            a = outcome(lambda: cnfgen_cli(['cnfgen'] + argv, mode='formula'))
            b = outcome(lambda: pbgen_cli(['pbgen'] + argv, mode='formula'))
            ctx.count('cnfgen-vs-pbgen', (fam['name'], tuple(argv)), nontrivial=True, sample=dict(argv=argv))
            if a[0] != 'ok' or b[0] != 'ok':
                continue
            F, G = a[1], b[1]
            n = F.number_of_variables()
            if n != G.number_of_variables() or list(F.all_variable_labels()) != list(G.all_variable_labels()):
                ctx.violation('counterexample', 'cnfgen and pbgen disagree on variables/names for %s' % ' '.join(argv), dict(input=dict(argv=argv)), True, site='tools-shape', cls=fam['name'])
            elif n <= 14:
                m1 = set(tuple(x[1:]) for x in assignments(n) if cnf_sat(x, [list(c) for c in F]))
                m2 = set(opb_models(n, [list(c) for c in G]))
                if m1 != m2:
                    w = sorted(m1 ^ m2)[0]
                    ctx.violation('counterexample', 'cnfgen and pbgen formulas for %s have different models' % ' '.join(argv),
                                  dict(input=dict(argv=argv), assignment=list(w)), True, site='tools-models', cls=fam['name'])
    shutil.rmtree(tmp, ignore_errors=True)


def random_builder_calls(ctx, CNF, OPB):
    """the theorem's own quantifier: ANY list of builder calls executed on a CNF object and on an OPB object; both must
    equal the renderings of the extracted model (to_cnf in order, to_opb in order) and have the same models"""
    from lib import cmd, Sym
    rng = ctx.rng
    reqs, cases = [], []
    for i in range(300 if ctx.tier == 'quick' else 3000):
        nv = rng.randint(1, 6)
        calls = []
        for _ in range(rng.randint(0, 5)):
            kind = rng.choice(['clause', 'clause', 'clause', 'lin', 'lin', 'parity', 'loose_majority', 'loose_minority', 'strict_majority', 'strict_minority'])
            k = rng.randint(0, 4)
            lits = [rng.choice([1, -1]) * rng.randint(1, nv) for _ in range(k)]     # repeated and opposite literals on purpose
            if kind == 'clause':
                calls.append([Sym('clause'), lits])
            elif kind == 'lin':
                calls.append([Sym('lin'), lits, rng.choice(['<=', '>=', '==', '!=', '<', '>']), rng.randint(-1, k + 1)])
            elif kind == 'parity':
                calls.append([Sym('parity'), lits, rng.randint(0, 1)])
            else:
                calls.append([Sym(kind), lits])
        reqs.append(cmd('to_cnf', calls))
        reqs.append(cmd('to_opb', calls))
        cases.append((nv, calls))
    reps = ctx.model.batch(reqs)
    for j, (nv, calls) in enumerate(cases):
        mcnf, mopb = reps[2 * j], reps[2 * j + 1]
        F, G = CNF(), OPB()
        F.update_variable_number(nv)
        G.update_variable_number(nv)
        try:
            for c in calls:
                for X in (F, G):
                    if c[0] == 'clause':
                        X.add_clause(list(c[1]))
                    elif c[0] == 'lin':
                        op = c[2]
                        if op in ('<', '>') and X is G:
                            X.add_constraint([(1, l) for l in c[1]] + [op, c[3]])
                        else:
                            {'<=': X.cardinality_leq, '>=': X.cardinality_geq, '==': X.cardinality_eq, '!=': X.cardinality_neq,
                             '<': lambda l, v: X.add_linear(l, '<', v), '>': lambda l, v: X.add_linear(l, '>', v)}[op](list(c[1]), c[3])
                    elif c[0] == 'parity':
                        X.add_parity(list(c[1]), c[2])
                    else:
                        getattr(X, 'add_' + str(c[0]))(list(c[1]))
        except Exception as e:
            ctx.violation('counterexample', 'a builder call raised %s under one of the classes' % type(e).__name__, dict(input=dict(calls=str(calls))), True,
                          site='builder-raises', cls=type(e).__name__)
            continue
        cl = [list(c) for c in F]
        cons = [[tuple(t) if isinstance(t, (list, tuple)) else t for t in c] for c in G]
        ctx.count('builder-calls', str(calls), nontrivial=len(calls) > 0, sample=dict(numvar=nv, calls=str(calls)))
        ctx.tally('builder call list length', len(calls))
        mopb_py = [[tuple(t) for t in c[0]] + [c[1], c[2]] for c in mopb]
        if cl == mcnf and cons == mopb_py and F.number_of_variables() == G.number_of_variables():
            continue
        ctx.disagreements_checked += 1
        n = max(F.number_of_variables(), G.number_of_variables())
        m1 = set(tuple(a[1:]) for a in assignments(n) if cnf_sat(a, cl))
        m2 = set(opb_models(n, [list(c) for c in G]))
        if m1 != m2 or F.number_of_variables() != G.number_of_variables():
            w = sorted(m1 ^ m2)[0] if m1 != m2 else None
            ctx.violation('counterexample', 'the same builder calls give different formulas under class CNF and class OPB', dict(input=dict(numvar=nv, calls=str(calls)), assignment=w,
                          cnf=cl, opb=[list(c) for c in G]), True, site='builder-models', cls=str(sorted(set(str(c[0]) for c in calls))))
        else:
            ctx.violation('correspondence', 'builder calls render differently from IR.v to_cnf/to_opb (theorem C08_same_models no longer covers the code)',
                          dict(input=dict(numvar=nv, calls=str(calls)), cnf=cl, model_cnf=mcnf, opb=[list(c) for c in G], model_opb=mopb_py, theorem='C08_same_models'), False,
                          site='builder-render', cls='order-or-shape')


def dimacs_family(ctx):
    """the families without a model of their own (dimacs, and, or, true, false): cnfgen vs pbgen, same variables and models"""
    import os
    import tempfile
    from cnfgen.clitools.cnfgen import cli as cnfgen_cli
    from cnfgen.clitools.pbgen import cli as pbgen_cli
    rng = ctx.rng
    tmp = tempfile.mkdtemp(prefix='c08d-')
    cases = [['true'], ['false']] + [[k, a, b] for k in ('and', 'or') for a in range(3) for b in range(3)]
    for i in range(40 if ctx.tier == 'quick' else 400):
        n = rng.randint(1, 5)
        cl = [[rng.choice([1, -1]) * rng.randint(1, n) for _ in range(rng.randint(0, 4))] for _ in range(rng.randint(0, 5))]
        p = os.path.join(tmp, 'f%d.cnf' % i)
        with open(p, 'w') as f:
            f.write('p cnf %d %d\n' % (n, len(cl)) + ''.join(' '.join(map(str, c + [0])) + '\n' for c in cl))
        cases.append(['dimacs', p])
    for argv in cases:
        argv = [str(x) for x in argv]
        a = outcome(lambda: cnfgen_cli(['cnfgen'] + argv, mode='formula'))
        b = outcome(lambda: pbgen_cli(['pbgen'] + argv, mode='formula'))
        ctx.count('unmodelled-families', tuple(argv), nontrivial=True, sample=dict(argv=argv, file=open(argv[1]).read() if argv[0] == 'dimacs' else None))
        ctx.tally('unmodelled family', argv[0])
        if a[0] != 'ok' or b[0] != 'ok':
            if (a[0] == 'ok') != (b[0] == 'ok'):
                ctx.violation('counterexample', 'cnfgen and pbgen disagree on accepting %s' % ' '.join(argv), dict(input=dict(argv=argv), cnfgen=str(a[1:])[:200], pbgen=str(b[1:])[:200]),
                              True, site='tools-accept', cls=argv[0])
            continue
        F, G = a[1], b[1]
        n = F.number_of_variables()
        if type(G).__name__ != 'OPB':
            ctx.violation('counterexample', 'pbgen %s builds a %s' % (argv[0], type(G).__name__), dict(input=dict(argv=argv)), True, site='formula-class', cls=argv[0])
        elif n != G.number_of_variables() or list(F.all_variable_labels()) != list(G.all_variable_labels()):
            ctx.violation('counterexample', 'cnfgen and pbgen disagree on variables/names for %s' % ' '.join(argv), dict(input=dict(argv=argv)), True, site='tools-shape', cls=argv[0])
        elif n <= 14:
            m1 = set(tuple(x[1:]) for x in assignments(n) if cnf_sat(x, [list(c) for c in F]))
            m2 = set(opb_models(n, [list(c) for c in G]))
            if m1 != m2:
                w = sorted(m1 ^ m2)[0]
                ctx.violation('counterexample', 'cnfgen and pbgen formulas for %s have different models' % ' '.join(argv),
                              dict(input=dict(argv=argv, file=open(argv[1]).read() if argv[0] == 'dimacs' else None), assignment=list(w)), True, site='tools-models', cls=argv[0])
    import shutil
    shutil.rmtree(tmp, ignore_errors=True)


def wide_builder_calls(ctx, CNF, OPB):
    """constraints of 15..18 literals (defects that only show beyond 16 literals: folded parities, fast paths): the CNF object
    and the OPB object against to_cnf / to_opb of the extracted model, in order; on a difference the property is decided on
    sampled assignments (the arithmetic meaning of the call against both objects)."""
    from lib import cmd, Sym
    rng = ctx.rng
    cases, reqs = [], []
    forced = [(16, 'parity'), (17, 'parity')] + ([(18, 'parity')] if ctx.tier != 'quick' else [])
    for i in range(8 if ctx.tier == 'quick' else 40):
        k = rng.choice([15, 16, 17, 17, 18])
        kind = rng.choice(['parity', 'lin', 'lin', 'lin'])
        if i < len(forced):
            k, kind = forced[i]
        nv = k + rng.randint(0, 2)
        vs = rng.sample(range(1, nv + 1), k)
        lits = [v * rng.choice([1, -1]) for v in vs]
        if kind == 'parity' and (k <= 17 or i < len(forced)):
            call = [Sym('parity'), lits, rng.randint(0, 1)]
        else:
            op, val = rng.choice([('>=', 1), ('>=', 2), ('<=', k - 1), ('<=', k - 2), ('==', 0), ('==', k), ('==', 1), ('!=', 0), ('!=', 1), ('!=', k),
                                  ('>', 0), ('<', k), ('>=', k - 1), ('<=', 1)])
            call = [Sym('lin'), lits, op, val]
        cases.append((nv, call))
        reqs.append(cmd('to_cnf', [call]))
        reqs.append(cmd('to_opb', [call]))
    reps = ctx.model.batch(reqs)
    for j, (nv, c) in enumerate(cases):
        mcnf, mopb = reps[2 * j], reps[2 * j + 1]
        F, G = CNF(), OPB()
        for X in (F, G):
            X.update_variable_number(nv)
            if c[0] == 'parity':
                X.add_parity(list(c[1]), c[2])
            elif c[2] in ('<', '>') and X is G:
                X.add_constraint([(1, l) for l in c[1]] + [c[2], c[3]])
            else:
                {'<=': X.cardinality_leq, '>=': X.cardinality_geq, '==': X.cardinality_eq, '!=': X.cardinality_neq,
                 '<': lambda l, v: X.add_linear(l, '<', v), '>': lambda l, v: X.add_linear(l, '>', v)}[c[2]](list(c[1]), c[3])
        cl = [list(x) for x in F]
        cons = [[tuple(t) if isinstance(t, (list, tuple)) else t for t in x] for x in G]
        ctx.count('wide-builder-calls', str(c), nontrivial=True, sample=dict(numvar=nv, call=str(c)[:200], clauses=len(cl), constraints=len(cons)))
        ctx.tally('wide builder call: literals', len(c[1]))
        mopb_py = [[tuple(t) for t in x[0]] + [x[1], x[2]] for x in mopb]
        if cl == mcnf and cons == mopb_py:
            continue
        ctx.disagreements_checked += 1
        # decide the property on assignments: all-true/all-false of the literals, single flips of them, and random ones
        def meaning(a):
            s_ = sum(1 for l in c[1] if lit_true(a, l))
            if c[0] == 'parity':
                return s_ % 2 == c[2]
            return {'<=': s_ <= c[3], '>=': s_ >= c[3], '==': s_ == c[3], '!=': s_ != c[3], '<': s_ < c[3], '>': s_ > c[3]}[c[2]]
        probes = []
        for base_val in (True, False):
            a0 = [None] + [False] * nv
            for l in c[1]:
                a0[abs(l)] = (l > 0) == base_val
            probes.append(a0)
            for l in c[1]:
                a1 = list(a0)
                a1[abs(l)] = not a1[abs(l)]
                probes.append(a1)
        for _ in range(300):
            probes.append([None] + [rng.random() < 0.5 for _ in range(nv)])
        bad = None
        for a in probes:
            want, gc, go = meaning(a), cnf_sat(a, cl), all(pb_sat(a, x) for x in G)
            if gc != go or gc != want:
                bad = (a[1:], want, gc, go)
                break
        if bad:
            ctx.violation('counterexample', 'a %s call on %d literals: the CNF object and the OPB object do not have the same models (meaning %s, CNF %s, OPB %s)'
                          % (c[0], len(c[1]), bad[1], bad[2], bad[3]), dict(input=dict(numvar=nv, call=str(c)), assignment=bad[0]), True,
                          site='builder-models', cls='wide-' + str(c[0]))
        else:
            ctx.violation('correspondence', 'wide builder call renders differently from IR.v to_cnf/to_opb (theorem C08_same_models no longer covers the code)',
                          dict(input=dict(numvar=nv, call=str(c)), clauses=(len(cl), len(mcnf)), constraints=(len(cons), len(mopb_py)), theorem='C08_same_models'),
                          False, site='builder-render', cls='wide')


def _read_opb_text(text):
    """strict reader of the OPB text: (numvar, declared constraints, constraint list [([(coeff, lit)...], op, degree)])"""
    import re
    lines = text.split('\n')
    m = re.match(r'^\* #variable= (\d+) #constraint= (\d+)\s*$', lines[0])
    if not m:
        raise ValueError('first line %r' % lines[0][:80])
    cons = []
    for ln in lines[1:]:
        if ln.startswith('*') or ln.strip() == '':
            continue
        toks = ln.split()
        if toks[-1] == ';':
            toks = toks[:-1]
        body, op, deg = toks[:-2], toks[-2], int(toks[-1])
        if op not in ('>=', '=') or len(body) % 2:
            raise ValueError('bad constraint line %r' % ln[:80])
        terms = []
        for i in range(0, len(body), 2):
            v = body[i + 1]
            terms.append((int(body[i]), -int(v[2:]) if v.startswith('~x') else int(v[1:])))
        cons.append((terms, op, deg))
    return int(m.group(1)), int(m.group(2)), cons


def _read_dimacs_text(text):
    import re
    nv = nc = None
    cl = []
    for ln in text.split('\n'):
        if ln.startswith('c') or ln.strip() == '':
            continue
        if ln.startswith('p'):
            _, _, a, b = ln.split()
            nv, nc = int(a), int(b)
            continue
        t = [int(x) for x in ln.split()]
        if t[-1] != 0:
            raise ValueError('clause line without 0')
        cl.append(t[:-1])
    return nv, nc, cl


def tool_outputs(ctx):
    """what the property observes: the TEXT pbgen writes against the TEXT cnfgen writes, on sizes around the block sizes of
    the writers (4095..4097, 8192.. constraints).  For these families every pseudo-Boolean constraint is a clause, so the two
    files must list the same clauses in the same order; plus the declared counts."""
    from cnfgen.clitools.cnfgen import cli as cnfgen_cli
    from cnfgen.clitools.pbgen import cli as pbgen_cli
    rng = ctx.rng
    sizes = [4095, 4096, 4097, 8192, 8193] if ctx.tier == 'quick' else [1023, 1024, 1025, 4095, 4096, 4097, 8191, 8192, 8193, 12288, 16385, 65536, 65537]
    cases = []
    for n in sizes:
        a = rng.randint(0, n)
        cases.append(['and', a, n - a])
        cases.append(['peb', 'path', n])
    cases.append(['or', rng.randint(1, 3000), rng.randint(1, 3000)])
    cases.append(['php', 20, 19])             # 4 000 constraints
    cases.append(['op', 17])
    for argv in cases:
        argv = ['-q'] + [str(x) for x in argv]
        a = outcome(lambda: cnfgen_cli(['cnfgen'] + argv, mode='string'))
        b = outcome(lambda: pbgen_cli(['pbgen'] + argv, mode='string'))
        ctx.count('tool-outputs', tuple(argv), nontrivial=True, sample=dict(argv=argv))
        ctx.tally('tool output family', argv[1])
        if a[0] != 'ok' or b[0] != 'ok':
            ctx.violation('counterexample', 'cnfgen / pbgen do not both write a formula for %s: %s / %s' % (' '.join(argv), a[:2], b[:2]), dict(input=dict(argv=argv)),
                          True, site='tools-accept', cls=argv[1])
            continue
        try:
            nv, nc, cl = _read_dimacs_text(a[1])
            ov, oc, cons = _read_opb_text(b[1])
        except ValueError as e:
            ctx.violation('counterexample', 'output of %s is not readable: %s' % (' '.join(argv), e), dict(input=dict(argv=argv)), True, site='tools-text', cls=argv[1])
            continue
        what = None
        if nv != ov:
            what = 'cnfgen declares %d variables, pbgen %d' % (nv, ov)
        elif nc != len(cl) or oc != len(cons):
            what = 'declared and written counts differ (dimacs %d/%d, opb %d/%d)' % (nc, len(cl), oc, len(cons))
        elif all(op == '>=' and deg == 1 and all(co == 1 for co, _ in terms) for terms, op, deg in cons):
            asclauses = [[l for _, l in terms] for terms, _, _ in cons]
            if asclauses != cl:
                i = next((i for i, (x, y) in enumerate(zip(asclauses, cl)) if x != y), min(len(asclauses), len(cl)))
                what = 'the files list different clauses from position %d on (%d clauses in the dimacs file, %d constraints in the opb file)' % (i, len(cl), len(cons))
        else:
            # constraints that are not clauses (php, op): sampled assignments must be judged alike
            for _ in range(30):
                x = [None] + [rng.random() < 0.5 for _ in range(nv)]
                # walk towards a model of the CNF to make the comparison informative
                if cnf_sat(x, cl) != all(pb_sat(x, list(t) + [o if o != '=' else '==', d]) for t, o, d in cons):
                    what = 'an assignment satisfies one file and not the other'
                    break
        if what:
            ctx.violation('counterexample', 'pbgen and cnfgen outputs for %s: %s' % (' '.join(argv), what), dict(input=dict(argv=argv)), True,
                          site='tools-text', cls=argv[1])


def seeded_tools(ctx):
    """the same seeded command line through both tools: random graph arguments, random charges and random formulas must come
    out the same (same variables, same models) - both tools stand for the same seeded library session"""
    from cnfgen.clitools.cnfgen import cli as cnfgen_cli
    from cnfgen.clitools.pbgen import cli as pbgen_cli
    rng = ctx.rng
    for i in range(24 if ctx.tier == 'quick' else 200):
        seed = rng.choice([0, 1, 2, 5, 42, -3, 10 ** 12])
        n = rng.randint(4, 7)
        argv = rng.choice([
            ['tseitin', rng.choice(['random', 'randomodd', 'randomeven']), 'gnm', n, rng.randint(n - 2, n + 2)],
            ['tseitin', rng.choice(['random', 'randomodd', 'randomeven']), 'gnp', n, '0.5'],
            ['tseitin', rng.choice(['randomodd', 'first']), 'gnd', 6, 3],
            ['tseitin', 6, 3],
            ['kcolor', 2, 'gnm', n, n], ['kcolor', 2, 'grid', 2, 3, 'addedges', 2], ['matching', 'gnp', 6, '0.6'],
            ['php', 4, 3, 2], ['subsetcard', 'glrd', 3, 4, 2], ['subsetcard', 4, 2], ['randkcnf', 3, n, n + 2], ['randkxor', 3, n, 3],
            ['domset', 2, 'gnm', 5, 5, 'plantclique', 3], ['ec', 'gnd', 6, 2]])
        argv = ['-q', '-S', str(seed)] + [str(x) for x in argv]
        a = outcome(lambda: cnfgen_cli(['cnfgen'] + argv, mode='formula'))
        b = outcome(lambda: pbgen_cli(['pbgen'] + argv, mode='formula'))
        ctx.count('seeded-tools', tuple(argv), nontrivial=True, sample=dict(argv=argv))
        ctx.tally('seeded tool family', argv[3])
        if a[0] != 'ok' or b[0] != 'ok':
            if (a[0] == 'ok') != (b[0] == 'ok'):
                ctx.violation('counterexample', 'cnfgen and pbgen disagree on accepting %s' % ' '.join(argv), dict(input=dict(argv=argv), cnfgen=str(a[1:])[:200], pbgen=str(b[1:])[:200]),
                              True, site='tools-accept', cls=argv[3])
            continue
        F, G = a[1], b[1]
        nv = F.number_of_variables()
        if nv != G.number_of_variables() or list(F.all_variable_labels()) != list(G.all_variable_labels()):
            ctx.violation('counterexample', 'cnfgen and pbgen disagree on variables/names for %s' % ' '.join(argv), dict(input=dict(argv=argv)), True, site='tools-shape', cls=argv[3])
        elif nv <= 16:
            cl = [list(c) for c in F]
            cons = [list(c) for c in G]
            m1 = set(tuple(x[1:]) for x in assignments(nv) if cnf_sat(x, cl))
            m2 = set(opb_models(nv, cons))
            if m1 != m2:
                w = sorted(m1 ^ m2)[0]
                ctx.violation('counterexample', 'seeded cnfgen and pbgen formulas for %s have different models' % ' '.join(argv), dict(input=dict(argv=argv), assignment=list(w)),
                              True, site='tools-models', cls='seeded-' + argv[3])
