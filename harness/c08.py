"""C08 -- the pseudo-Boolean (OPB) and CNF renderings of a family are the same formula.

Theorem side (coq/IRFacts.v, Prop_C08.v): every family is modelled once as a
list of builder calls; for EVERY such list whose literals are non-zero the CNF
rendering (class CNF) and the OPB rendering (class OPB) have exactly the same
models (`cnf_opb_same_models`), and the per-family lemmas `*_irs_ok` discharge
the hypothesis.  Correspondence: each family of the FAMILIES registries is
built with formula_class=CNF and formula_class=OPB (library) and through
cnfgen / pbgen (command line); number of variables and names must coincide,
the OPB constraint list must equal `to_opb` of the model (in order) and the
clause list `to_cnf` (as a set).  On a mismatch both renderings are evaluated
on all assignments."""
import importlib
import itertools

from lib import import_impl, outcome, is_error, cnf_sat, pb_sat, assignments, family_replies

META = dict(
    technique='Coq theorem cnf_opb_same_models over the IR of builder calls (+ per-family irs_ok lemmas) + differential build of every family under both formula classes and both command line tools against to_cnf/to_opb of the extracted model',
    category='proof',
    text='Theorem: for every list of builder calls (add_clause, cardinality_*, add_parity, majorities) with non-zero literals, the clause list '
         'class CNF produces and the constraint list class OPB produces are satisfied by exactly the same assignments; each family model is '
         'such a list, so both renderings of a family have the same models, for all parameters and graphs. Same variables/names holds because '
         'the variable layout of the model does not depend on the class. Tied to the code by building every family of the registries under '
         'both classes (library and cnfgen/pbgen) and comparing numvar, names, the ordered OPB constraint list with to_opb and the clause set '
         'with to_cnf.',
    note='Trusted: Coq kernel, extraction, harness; family models are hand-written (agreement checked on enumerated small and seeded medium parameters). '
         'Families not in a registry (randkcnf, randkxor, and/or/true/false, dimacs) are compared CNF-vs-OPB directly by brute force only.',
    design_ref='5/C08',
)
REQUIRES_ANY = ['harness/fam_c01.py', 'harness/fam_c02.py', 'harness/fam_c03.py']
RULE = ('every family of harness/fam_c01|c02|c03.py x its parameter generator (exhaustive small + seeded medium); non-trivial = at least one constraint; '
        'distinct = distinct (family, params)')


def load_families(ctx):
    fams = []
    for m in ('fam_c01', 'fam_c02', 'fam_c03'):
        try:
            fams += importlib.import_module(m).FAMILIES
        except ImportError:
            ctx.note('registry %s not present' % m)
    return fams


def opb_models(n, cons):
    return [tuple(a[1:]) for a in assignments(n) if all(pb_sat(a, c) for c in cons)]


def run(ctx):
    import_impl()
    from cnfgen.formula.cnf import CNF
    from cnfgen.formula.opb import OPB
    fams = load_families(ctx)
    quick = ctx.tier == 'quick'
    jobs = []
    for fam in fams:
        ps = fam['params'](ctx.rng, ctx.tier)
        cap = 60 if quick else 400
        if len(ps) > cap:
            ps = ps[:cap // 2] + ctx.rng.sample(ps[cap // 2:], cap // 2)
        for p in ps:
            jobs.append((fam, p))
    replies = family_replies(ctx.model, jobs)
    for (fam, p), reps in zip(jobs, replies):
        name = fam['name']
        a = outcome(fam['build'], p, CNF)
        b = outcome(fam['build'], p, OPB)
        ctx.tally('family', name)
        if a[0] != 'ok' or b[0] != 'ok':
            ctx.count('both-classes', (name, repr(p)), nontrivial=False)
            if (a[0] == 'ok') != (b[0] == 'ok'):
                ctx.violation('counterexample', '%s builds under one formula class and fails under the other' % name,
                              dict(input=dict(family=name, params=p), cnf=str(a[1:])[:200], opb=str(b[1:])[:200]), True, site='class-accept', cls=name)
            continue
        F, G = a[1], b[1]
        cl = [list(c) for c in F]
        cons = [list(c) for c in G]
        ctx.count('both-classes', (name, repr(p)), nontrivial=len(cl) > 0, sample=dict(family=name, params=p, numvar=F.number_of_variables(), clauses=len(cl), constraints=len(cons)))
        bad = None
        if type(G).__name__ != 'OPB':
            bad = 'formula_class=OPB ignored: got %s' % type(G).__name__
        elif F.number_of_variables() != G.number_of_variables():
            bad = 'number of variables differs: CNF %d, OPB %d' % (F.number_of_variables(), G.number_of_variables())
        elif list(F.all_variable_labels()) != list(G.all_variable_labels()):
            bad = 'variable names differ'
        if bad:
            ctx.violation('counterexample', '%s: %s' % (name, bad), dict(input=dict(family=name, params=p)), True, site='class-shape', cls=name)
            continue
        n = F.number_of_variables()
        good = [r for r in reps if not is_error(r) and isinstance(r, list) and len(r) == 3]
        if not good:
            ctx.violation('correspondence', 'family model %s gives no formula where the implementation does' % name, dict(input=dict(family=name, params=p), model=str(reps)[:200]),
                          False, site='model-accept', cls=name)
            continue
        canon = lambda x: sorted(set(tuple(sorted(c)) for c in x))
        cons_py = [[tuple(t) if isinstance(t, (list, tuple)) else t for t in c] for c in cons]
        agree = False
        for mnum, mcnf, mopb in good:
            mopb_py = [[tuple(t) for t in c[0]] + [c[1], c[2]] for c in mopb]
            if mnum == n and canon(mcnf) == canon(cl) and mopb_py == cons_py:
                agree = True
                break
        mnum = good[0][0]
        if agree:
            continue
        ctx.disagreements_checked += 1
        # the property itself on this instance: same models under both classes
        if n <= 16:
            m1 = set(tuple(a[1:]) for a in assignments(n) if cnf_sat(a, cl))
            m2 = set(opb_models(n, cons))
            if m1 != m2:
                w = sorted(m1 ^ m2)[0]
                ctx.violation('counterexample', '%s: CNF and OPB renderings have different models' % name,
                              dict(input=dict(family=name, params=p), assignment=list(w), satisfies_cnf=w in m1, satisfies_opb=w in m2), True, site='class-models', cls=name)
                continue
        ctx.violation('correspondence', '%s: implementation differs from the family model (to_cnf/to_opb); theorem cnf_opb_same_models no longer covers it' % name,
                      dict(input=dict(family=name, params=p), numvar=(n, mnum), theorem='C08_same_models'), False, site='model-mismatch', cls=name)

    random_builder_calls(ctx, CNF, OPB)
    dimacs_family(ctx)

    # command line: cnfgen vs pbgen on the same arguments
    from cnfgen.clitools.cnfgen import cli as cnfgen_cli
    from cnfgen.clitools.pbgen import cli as pbgen_cli
    import tempfile
    import shutil
    tmp = tempfile.mkdtemp(prefix='c08-')
    for fam in fams:
        if not fam.get('cli'):
            continue
        ps = fam['params'](ctx.rng, 'quick')[:8 if quick else 40]
        for p in ps:
            try:
                argv = fam['cli'](p, tmp)          # used at once (files with fixed names are overwritten by the next call)
            except Exception:
                argv = None
            if not argv:
                continue
            argv = [str(x) for x in argv]
            a = outcome(lambda: cnfgen_cli(['cnfgen'] + argv, mode='formula'))
            b = outcome(lambda: pbgen_cli(['pbgen'] + argv, mode='formula'))
            ctx.count('cnfgen-vs-pbgen', (fam['name'], tuple(argv)), nontrivial=True, sample=dict(argv=argv))
            if a[0] != 'ok' or b[0] != 'ok':
                continue
            F, G = a[1], b[1]
            n = F.number_of_variables()
            if n != G.number_of_variables() or list(F.all_variable_labels()) != list(G.all_variable_labels()):
                ctx.violation('counterexample', 'cnfgen and pbgen disagree on variables/names for %s' % ' '.join(argv), dict(input=dict(argv=argv)), True, site='tools-shape', cls=fam['name'])
            elif n <= 14:
                m1 = set(tuple(x[1:]) for x in assignments(n) if cnf_sat(x, [list(c) for c in F]))
                m2 = set(opb_models(n, [list(c) for c in G]))
                if m1 != m2:
                    w = sorted(m1 ^ m2)[0]
                    ctx.violation('counterexample', 'cnfgen and pbgen formulas for %s have different models' % ' '.join(argv),
                                  dict(input=dict(argv=argv), assignment=list(w)), True, site='tools-models', cls=fam['name'])
    shutil.rmtree(tmp, ignore_errors=True)


def random_builder_calls(ctx, CNF, OPB):
    """the theorem's own quantifier: ANY list of builder calls executed on a CNF object and on an OPB object; both must
    equal the renderings of the extracted model (to_cnf in order, to_opb in order) and have the same models"""
    from lib import cmd, Sym
    rng = ctx.rng
    reqs, cases = [], []
    for i in range(300 if ctx.tier == 'quick' else 3000):
        nv = rng.randint(1, 6)
        calls = []
        for _ in range(rng.randint(0, 5)):
            kind = rng.choice(['clause', 'clause', 'clause', 'lin', 'lin', 'parity', 'loose_majority', 'loose_minority', 'strict_majority', 'strict_minority'])
            k = rng.randint(0, 4)
            lits = [rng.choice([1, -1]) * rng.randint(1, nv) for _ in range(k)]     # repeated and opposite literals on purpose
            if kind == 'clause':
                calls.append([Sym('clause'), lits])
            elif kind == 'lin':
                calls.append([Sym('lin'), lits, rng.choice(['<=', '>=', '==', '!=', '<', '>']), rng.randint(-1, k + 1)])
            elif kind == 'parity':
                calls.append([Sym('parity'), lits, rng.randint(0, 1)])
            else:
                calls.append([Sym(kind), lits])
        reqs.append(cmd('to_cnf', calls))
        reqs.append(cmd('to_opb', calls))
        cases.append((nv, calls))
    reps = ctx.model.batch(reqs)
    for j, (nv, calls) in enumerate(cases):
        mcnf, mopb = reps[2 * j], reps[2 * j + 1]
        F, G = CNF(), OPB()
        F.update_variable_number(nv)
        G.update_variable_number(nv)
        try:
            for c in calls:
                for X in (F, G):
                    if c[0] == 'clause':
                        X.add_clause(list(c[1]))
                    elif c[0] == 'lin':
                        op = c[2]
                        if op in ('<', '>') and X is G:
                            X.add_constraint([(1, l) for l in c[1]] + [op, c[3]])
                        else:
                            {'<=': X.cardinality_leq, '>=': X.cardinality_geq, '==': X.cardinality_eq, '!=': X.cardinality_neq,
                             '<': lambda l, v: X.add_linear(l, '<', v), '>': lambda l, v: X.add_linear(l, '>', v)}[op](list(c[1]), c[3])
                    elif c[0] == 'parity':
                        X.add_parity(list(c[1]), c[2])
                    else:
                        getattr(X, 'add_' + str(c[0]))(list(c[1]))
        except Exception as e:
            ctx.violation('counterexample', 'a builder call raised %s under one of the classes' % type(e).__name__, dict(input=dict(calls=str(calls))), True,
                          site='builder-raises', cls=type(e).__name__)
            continue
        cl = [list(c) for c in F]
        cons = [[tuple(t) if isinstance(t, (list, tuple)) else t for t in c] for c in G]
        ctx.count('builder-calls', str(calls), nontrivial=len(calls) > 0, sample=dict(numvar=nv, calls=str(calls)))
        ctx.tally('builder call list length', len(calls))
        mopb_py = [[tuple(t) for t in c[0]] + [c[1], c[2]] for c in mopb]
        if cl == mcnf and cons == mopb_py and F.number_of_variables() == G.number_of_variables():
            continue
        ctx.disagreements_checked += 1
        n = max(F.number_of_variables(), G.number_of_variables())
        m1 = set(tuple(a[1:]) for a in assignments(n) if cnf_sat(a, cl))
        m2 = set(opb_models(n, [list(c) for c in G]))
        if m1 != m2 or F.number_of_variables() != G.number_of_variables():
            w = sorted(m1 ^ m2)[0] if m1 != m2 else None
            ctx.violation('counterexample', 'the same builder calls give different formulas under class CNF and class OPB', dict(input=dict(numvar=nv, calls=str(calls)), assignment=w,
                          cnf=cl, opb=[list(c) for c in G]), True, site='builder-models', cls=str(sorted(set(str(c[0]) for c in calls))))
        else:
            ctx.violation('correspondence', 'builder calls render differently from IR.v to_cnf/to_opb (theorem C08_same_models no longer covers the code)',
                          dict(input=dict(numvar=nv, calls=str(calls)), cnf=cl, model_cnf=mcnf, opb=[list(c) for c in G], model_opb=mopb_py, theorem='C08_same_models'), False,
                          site='builder-render', cls='order-or-shape')


def dimacs_family(ctx):
    """the families without a model of their own (dimacs, and, or, true, false): cnfgen vs pbgen, same variables and models"""
    import os
    import tempfile
    from cnfgen.clitools.cnfgen import cli as cnfgen_cli
    from cnfgen.clitools.pbgen import cli as pbgen_cli
    rng = ctx.rng
    tmp = tempfile.mkdtemp(prefix='c08d-')
    cases = [['true'], ['false']] + [[k, a, b] for k in ('and', 'or') for a in range(3) for b in range(3)]
    for i in range(40 if ctx.tier == 'quick' else 400):
        n = rng.randint(1, 5)
        cl = [[rng.choice([1, -1]) * rng.randint(1, n) for _ in range(rng.randint(0, 4))] for _ in range(rng.randint(0, 5))]
        p = os.path.join(tmp, 'f%d.cnf' % i)
        with open(p, 'w') as f:
            f.write('p cnf %d %d\n' % (n, len(cl)) + ''.join(' '.join(map(str, c + [0])) + '\n' for c in cl))
        cases.append(['dimacs', p])
    for argv in cases:
        argv = [str(x) for x in argv]
        a = outcome(lambda: cnfgen_cli(['cnfgen'] + argv, mode='formula'))
        b = outcome(lambda: pbgen_cli(['pbgen'] + argv, mode='formula'))
        ctx.count('unmodelled-families', tuple(argv), nontrivial=True, sample=dict(argv=argv, file=open(argv[1]).read() if argv[0] == 'dimacs' else None))
        ctx.tally('unmodelled family', argv[0])
        if a[0] != 'ok' or b[0] != 'ok':
            if (a[0] == 'ok') != (b[0] == 'ok'):
                ctx.violation('counterexample', 'cnfgen and pbgen disagree on accepting %s' % ' '.join(argv), dict(input=dict(argv=argv), cnfgen=str(a[1:])[:200], pbgen=str(b[1:])[:200]),
                              True, site='tools-accept', cls=argv[0])
            continue
        F, G = a[1], b[1]
        n = F.number_of_variables()
        if type(G).__name__ != 'OPB':
            ctx.violation('counterexample', 'pbgen %s builds a %s' % (argv[0], type(G).__name__), dict(input=dict(argv=argv)), True, site='formula-class', cls=argv[0])
        elif n != G.number_of_variables() or list(F.all_variable_labels()) != list(G.all_variable_labels()):
            ctx.violation('counterexample', 'cnfgen and pbgen disagree on variables/names for %s' % ' '.join(argv), dict(input=dict(argv=argv)), True, site='tools-shape', cls=argv[0])
        elif n <= 14:
            m1 = set(tuple(x[1:]) for x in assignments(n) if cnf_sat(x, [list(c) for c in F]))
            m2 = set(opb_models(n, [list(c) for c in G]))
            if m1 != m2:
                w = sorted(m1 ^ m2)[0]
                ctx.violation('counterexample', 'cnfgen and pbgen formulas for %s have different models' % ' '.join(argv),
                              dict(input=dict(argv=argv, file=open(argv[1]).read() if argv[0] == 'dimacs' else None), assignment=list(w)), True, site='tools-models', cls=argv[0])
    import shutil
    shutil.rmtree(tmp, ignore_errors=True)
