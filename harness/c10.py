"""C10 -- every formula mentions only variables it owns, and allocates them freshly.

Theorem side (coq/IRRange.v, VarsFacts.v, SubstFacts.v, ShuffleFacts.v,
Prop_C10.v): the CNF/OPB rendering of ANY list of builder calls mentions only
variables up to the largest one the calls mention (`to_cnf_in_range`); the
allocation history machine keeps "largest variable mentioned <= number of
variables" and never hands out an identifier already mentioned; every
substitution result has exactly the documented number of variables with all
literals in range; shuffling keeps count and range.  Correspondence: families
of the FAMILIES registries at realistic sizes under both formula classes
(numvar vs the model and vs the documented closed formula; every literal
checked), transformation chains, the command line tools' output, and the
recorded allocation history of real runs (largest variable mentioned at each
group creation) replayed through the model machine."""
import importlib
import random

from lib import cmd, Sym, import_impl, outcome, is_error, family_replies

META = dict(
    technique='Coq theorems (to_cnf_in_range/to_opb_in_range for every IR list; per-family literal range and documented variable count for all 31 family models; allocation-history invariant over fold_left; numvar/range clauses of the substitution and shuffle theorems) + differential at realistic sizes + recorded allocation histories replayed in the extracted machine',
    category='proof',
    text='Theorems: (1) for every list of builder calls with non-zero literals, every literal of the CNF rendering is non-zero and within the '
         'largest variable the calls mention; (2) for every sequence of group creations, checked/unchecked clause insertions and explicit raises, '
         'the largest variable mentioned never exceeds the declared number and a new group starts above every variable mentioned before; '
         '(3) each substitution/lifting/compression yields exactly k*N, 3N, 2kN, R variables with all literals in range, shuffle keeps N. '
         'Tied to the code by building every registered family under both classes at small and realistic sizes (numvar vs model and vs the '
         'documented formula, all literals scanned), random transformation chains, CLI output, and by recording real allocation histories '
         '(wrapping add_clause/add_constraint/_add_variable_group from the harness) and replaying them through the extracted machine.',
    note='Trusted: Coq kernel, extraction, harness wrappers. Per family, "literals in 1..numvar" and "numvar = documented closed formula" are theorems (Prop_C10_families.v, 31 models) '
         'under the well-formedness hypothesis of the family; the tie to the code is the differential run.',
    design_ref='5/C10',
)
RULE = ('families x parameters (small exhaustive + seeded medium/large) x {CNF,OPB}; transformation chains on random and family formulas; '
        'allocation histories: random interleavings of group creation, clause insertion and update_variable_number; non-trivial = at least one clause/constraint; '
        'distinct = distinct inputs')


def scan(F, opb):
    """(max variable mentioned, first bad literal or None)"""
    n = F.number_of_variables()
    mx = 0
    for c in F:
        lits = [l for (_, l) in c[:-2]] if opb else c
        for l in lits:
            if not isinstance(l, int) or isinstance(l, bool) or l == 0 or abs(l) > n:
                return mx, l
            if abs(l) > mx:
                mx = abs(l)
    return mx, None


def run(ctx):
    import_impl()
    import cnfgen
    from cnfgen.formula.cnf import CNF
    from cnfgen.formula.opb import OPB
    rng = ctx.rng
    quick = ctx.tier == 'quick'
    fams = []
    for m in ('fam_c01', 'fam_c02', 'fam_c03'):
        try:
            fams += importlib.import_module(m).FAMILIES
        except ImportError:
            ctx.note('registry %s not present' % m)

    # ---------- families, both classes ----------
    jobs = []
    for fam in fams:
        ps = fam['params'](rng, ctx.tier)
        cap = 30 if quick else 300
        if len(ps) > cap:
            ps = ps[-cap // 2:] + rng.sample(ps[:-cap // 2], cap // 2)      # keep the large ones (generated last)
        jobs += [(fam, p) for p in ps]
    def in_chunks(jobs, size=40):
        # the replies of a chunk (whole clause lists) are dropped before the next chunk is asked for
        for k in range(0, len(jobs), size):
            part = jobs[k:k + size]
            for job, reps in zip(part, family_replies(ctx.model, part)):
                yield job, [r[0] if (not is_error(r) and isinstance(r, list) and len(r) == 3) else None for r in reps]
    for (fam, p), nums_all in in_chunks(jobs):
        for fc in (CNF, OPB):
            r = outcome(fam['build'], p, fc)
            if r[0] != 'ok':
                continue
            F = r[1]
            opb = type(F).__name__ == 'OPB'
            n = F.number_of_variables()
            mx, bad = scan(F, opb)
            ctx.count('family-range', (fam['name'], repr(p), fc.__name__), nontrivial=len(F) > 0,
                      sample=dict(family=fam['name'], params=p, cls=fc.__name__, numvar=n, constraints=len(F)))
            ctx.tally('family', fam['name'])
            ctx.tally('numvar bucket', '<=20' if n <= 20 else '<=200' if n <= 200 else '<=2000' if n <= 2000 else '>2000')
            if bad is not None:
                ctx.violation('counterexample', '%s (%s): literal %r outside 1..%d' % (fam['name'], fc.__name__, bad, n),
                              dict(input=dict(family=fam['name'], params=p, formula_class=fc.__name__), literal=bad, numvar=n), True, site='family-literal', cls=fam['name'])
                continue
            doc = fam['numvar_doc'](p) if fam.get('numvar_doc') else None
            if doc is not None and doc != n:
                ctx.violation('counterexample', '%s (%s): %d variables, the documentation promises %d' % (fam['name'], fc.__name__, n, doc),
                              dict(input=dict(family=fam['name'], params=p, formula_class=fc.__name__), numvar=n, documented=doc), True, site='family-numvar', cls=fam['name'])
                continue
            nums = [x for x in nums_all if x is not None]
            rep = [nums[0]] if nums else None
            if nums and n not in nums:
                ctx.violation('correspondence', '%s: number of variables %d differs from the family model (%s)' % (fam['name'], n, rep[0]),
                              dict(input=dict(family=fam['name'], params=p), theorem='C10_rendering_in_range'), False, site='family-numvar-model', cls=fam['name'])

    # ---------- thresholds: sizes at which index arithmetic, caches and "fast paths" switch ----------
    from cnfgen import graphs as _g

    def star(n):
        G = cnfgen.Graph(n)
        for v in range(2, n + 1):
            G.add_edge(1, v)
        return G

    def cbip(l, r):
        B = cnfgen.BipartiteGraph(l, r)
        for u in range(1, l + 1):
            for v in range(1, r + 1):
                B.add_edge(u, v)
        return B
    log2up = lambda m: (m - 1).bit_length()
    thr = []
    for n in (63, 64, 65, 127, 128, 129, 255, 256, 257, 300):
        thr.append(('php 3x%d' % n, lambda fc, n=n: cnfgen.PigeonholePrinciple(3, n, formula_class=fc), 3 * n))
        thr.append(('php %dx2' % n, lambda fc, n=n: cnfgen.PigeonholePrinciple(n, 2, formula_class=fc), 2 * n))
        thr.append(('gphp complete 2x%d' % n, lambda fc, n=n: cnfgen.GraphPigeonholePrinciple(cbip(2, n), formula_class=fc), 2 * n))
        thr.append(('stone path(3) %d stones' % n, lambda fc, n=n: cnfgen.StoneFormula(_g.dag_path(3), n, formula_class=fc), n + _g.dag_path(3).number_of_vertices() * n))
        thr.append(('kcolor star(%d) 2' % n, lambda fc, n=n: cnfgen.GraphColoringFormula(star(n), 2, formula_class=fc), 2 * n))
        thr.append(('matching star(%d)' % n, lambda fc, n=n: cnfgen.PerfectMatchingPrinciple(star(n), formula_class=fc), n - 1))
        thr.append(('kclique star(%d) 2' % n, lambda fc, n=n: cnfgen.CliqueFormula(star(n), 2, formula_class=fc), 2 * n))
        thr.append(('rphp 2 %d 2' % n, lambda fc, n=n: cnfgen.RelativizedPigeonholePrinciple(2, n, 2, formula_class=fc), 2 * n + n * 2 + n))
    for m in (255, 256, 257, 1023, 1024, 1025, 2048, 2049, 4097):
        thr.append(('bphp 3x%d' % m, lambda fc, m=m: cnfgen.BinaryPigeonholePrinciple(3, m, formula_class=fc), 3 * log2up(m)))
    for b in (1024, 2048):
        thr.append(('cpls 1 %d 2' % b, lambda fc, b=b: cnfgen.CPLSFormula(1, b, 2, formula_class=fc), 1 * b * 2 + 1 * b * log2up(b) + b * 1))
    if quick:
        thr = [t for t in thr if any(x in t[0] for x in ('65', '129', '257', '1025', '2048', '2049'))]
    for name, build, doc in thr:
        for fc in (CNF, OPB):
            r = outcome(build, fc)
            ctx.count('thresholds', (name, fc.__name__), nontrivial=True, sample=dict(instance=name, cls=fc.__name__, documented_numvar=doc))
            ctx.tally('threshold family', name.split()[0])
            if r[0] != 'ok':
                ctx.violation('counterexample', '%s (%s) raised %s' % (name, fc.__name__, r[1]), dict(input=dict(instance=name, formula_class=fc.__name__), error=r[1:]), True,
                              site='threshold-raises', cls=name.split()[0])
                continue
            F = r[1]
            mx, bad = scan(F, type(F).__name__ == 'OPB')
            if bad is not None:
                ctx.violation('counterexample', '%s (%s): literal %r outside 1..%d' % (name, fc.__name__, bad, F.number_of_variables()),
                              dict(input=dict(instance=name, formula_class=fc.__name__), literal=bad, numvar=F.number_of_variables()), True, site='threshold-literal', cls=name.split()[0])
            elif F.number_of_variables() != doc:
                ctx.violation('counterexample', '%s (%s): %d variables, documented %d' % (name, fc.__name__, F.number_of_variables(), doc),
                              dict(input=dict(instance=name, formula_class=fc.__name__), numvar=F.number_of_variables(), documented=doc), True, site='threshold-numvar', cls=name.split()[0])
            elif mx != doc and not name.startswith(('matching', 'kclique', 'kcolor')) and len(F) > 0 and doc > 0:
                ctx.violation('counterexample', '%s (%s): the largest variable mentioned is %d although %d are declared and all are used by this family' % (name, fc.__name__, mx, doc),
                              dict(input=dict(instance=name, formula_class=fc.__name__), largest_mentioned=mx, numvar=doc), True, site='threshold-unused-top', cls=name.split()[0])

    # ---------- transformation chains ----------
    T = [
        ('xor', lambda F, k: cnfgen.XorSubstitution(F, k), lambda N, k, F: k * N), ('or', lambda F, k: cnfgen.OrSubstitution(F, k), lambda N, k, F: k * N),
        ('maj', lambda F, k: cnfgen.MajoritySubstitution(F, k), lambda N, k, F: k * N), ('eq', lambda F, k: cnfgen.AllEqualSubstitution(F, k), lambda N, k, F: k * N),
        ('neq', lambda F, k: cnfgen.NotAllEqualSubstitution(F, k), lambda N, k, F: k * N), ('one', lambda F, k: cnfgen.ExactlyOneSubstitution(F, k), lambda N, k, F: k * N),
        ('exact', lambda F, k: cnfgen.ExactlyKSubstitution(F, k, 1), lambda N, k, F: k * N), ('atleast', lambda F, k: cnfgen.AtLeastKSubstitution(F, k, 1), lambda N, k, F: k * N),
        ('atmost', lambda F, k: cnfgen.AtMostKSubstitution(F, k, 1), lambda N, k, F: k * N), ('anybut', lambda F, k: cnfgen.AnythingButKSubstitution(F, k, 1), lambda N, k, F: k * N),
        ('ite', lambda F, k: cnfgen.IfThenElseSubstitution(F), lambda N, k, F: 3 * N), ('lift', lambda F, k: cnfgen.FormulaLifting(F, k), lambda N, k, F: 2 * k * N),
        ('flip', lambda F, k: cnfgen.FlipPolarity(F), lambda N, k, F: N), ('shuffle', lambda F, k: cnfgen.Shuffle(F), lambda N, k, F: N),
        ('xorcomp', lambda F, k: cnfgen.VariableCompression(F, cnfgen.graphs.bipartite_random_left_regular(F.number_of_variables(), k + 2, 2), function='xor'), lambda N, k, F: k + 2),
        ('majcomp', lambda F, k: cnfgen.VariableCompression(F, cnfgen.graphs.bipartite_random_left_regular(F.number_of_variables(), k + 2, 2), function='maj'), lambda N, k, F: k + 2),
    ]
    bases = [lambda: cnfgen.PigeonholePrinciple(rng.randint(1, 5), rng.randint(1, 4)), lambda: cnfgen.OrderingPrinciple(rng.randint(1, 5)),
             lambda: cnfgen.RandomKCNF(3, rng.randint(4, 12), rng.randint(0, 10)), lambda: cnfgen.CountingPrinciple(rng.randint(0, 6), 2),
             lambda: cnfgen.RamseyNumber(3, 3, rng.randint(0, 5)), lambda: cnfgen.PebblingFormula(cnfgen.graphs.dag_pyramid(rng.randint(0, 3)))]

    def with_unused(F):
        F.update_variable_number(F.number_of_variables() + rng.randint(0, 2))
        return F
    for i in range(150 if quick else 1500):
        F = with_unused(rng.choice(bases)())
        chain = []
        for _ in range(rng.randint(1, 3)):
            name, f, doc = rng.choice(T)
            k = rng.randint(1, 3)
            N = F.number_of_variables()
            if len(F) * (2 ** (3 * k)) > 40000 or N > 150:
                break
            r = outcome(f, F, k)
            chain.append((name, k))
            if r[0] != 'ok':
                break
            G = r[1]
            n = G.number_of_variables()
            mx, bad = scan(G, False)
            ctx.count('transformation-range', (tuple(chain), N, len(F)), nontrivial=len(F) > 0, sample=dict(chain=chain, numvar_before=N, numvar_after=n))
            ctx.tally('transformation', name)
            if bad is not None:
                ctx.violation('counterexample', 'after %s: literal %r outside 1..%d' % (chain, bad, n), dict(input=dict(chain=chain, base_numvar=N), literal=bad), True,
                              site='transformation-literal', cls=name)
                break
            if n != doc(N, k, F):
                ctx.violation('counterexample', 'after %s: %d variables, documented %d' % (chain, n, doc(N, k, F)), dict(input=dict(chain=chain, numvar_before=N), numvar=n), True,
                              site='transformation-numvar', cls=name)
                break
            F = G

    # ---------- allocation histories (monitor on the implementation + model machine) ----------
    history_runs(ctx, CNF, OPB)
    constructor_runs(ctx, CNF, OPB)


def history_runs(ctx, CNF, OPB):
    """random interleavings of group creation / clause insertion / explicit raises; at every group creation the
    first identifier must exceed every variable mentioned so far and the declared number of variables"""
    import cnfgen
    rng = ctx.rng
    have_model = True
    reqs, expected = [], []
    for i in range(120 if ctx.tier == 'quick' else 1500):
        fc = rng.choice([CNF, OPB])
        F = fc()
        mentioned = 0
        ops = []
        kept = []
        ok = True
        for _ in range(rng.randint(1, 12)):
            want = None
            kind = rng.choice(['single', 'block', 'mapping', 'binmap', 'comb', 'clause', 'clause', 'unchecked', 'raise', 'bip', 'graph', 'linear', 'linear', 'bip-reuse', 'sparse-reuse', 'bulk'])
            if kind in ('bip-reuse', 'sparse-reuse') and not kept:
                kind = 'bip'
            before = F.number_of_variables()
            try:
                if kind == 'clause':
                    c = [rng.choice([1, -1]) * rng.randint(1, before + 3) for _ in range(rng.randint(0, 3))]
                    F.add_clause(c)
                    mentioned = max([mentioned] + [abs(l) for l in c])
                    ops.append([Sym('clause'), c, True])
                    continue
                if kind == 'bulk':
                    # several clauses / constraints at once, with the default arguments (docs/buildcnf.rst builds formulas this way)
                    cs = [[rng.choice([1, -1]) * rng.randint(1, before + 3) for _ in range(rng.randint(1, 3))] for _ in range(rng.randint(1, 3))]
                    how = rng.choice(['add_clauses_from', 'add_clauses_from', 'add_constraints_from'] if fc is OPB else ['add_clauses_from'])
                    shape = rng.choice(['list', 'list', 'generator', 'tuple', 'iterator'])       # any iterable of clauses is accepted
                    wrap = {'list': list, 'generator': lambda x: (c for c in x), 'tuple': lambda x: tuple(tuple(c) for c in x), 'iterator': iter}[shape]
                    ctx.tally('history op: bulk argument given as', shape)
                    if how == 'add_clauses_from':
                        F.add_clauses_from(wrap(cs))
                    else:
                        cons = [[(1, l) for l in c] + ['>=', 1] for c in cs]       # each constraint stays a list; the collection takes the shape
                        F.add_constraints_from({'tuple': tuple}.get(shape, wrap)(cons))
                    ctx.tally('history op', 'bulk ' + how)
                    top = max(abs(l) for c in cs for l in c)
                    if F.number_of_variables() < top:
                        ctx.violation('counterexample', '%s(%s) with default arguments left the formula with %d variables: a literal is out of range' % (how, cs, F.number_of_variables()),
                                      dict(input=dict(ops=str(ops), call=how, clauses=cs, formula_class=fc.__name__), numvar=F.number_of_variables()), True,
                                      site='builder-range', cls=how)
                        ok = False
                        break
                    for c in cs:
                        mentioned = max([mentioned] + [abs(l) for l in c])
                        ops.append([Sym('clause'), c, True])
                    continue
                if kind == 'linear':
                    # a constraint builder called with literals beyond the current count (checked insertion):
                    # every builder must raise the count like add_clause does
                    c = [rng.choice([1, -1]) * v for v in rng.sample(range(1, before + 5), rng.randint(1, 3))]
                    which = rng.choice(['<=', '>=', '==', '!=', '<', '>', 'parity', 'loose_majority', 'strict_minority'])
                    kk = rng.randint(0, len(c))
                    if which in ('<=', '>=', '==', '!='):
                        {'<=': F.cardinality_leq, '>=': F.cardinality_geq, '==': F.cardinality_eq, '!=': F.cardinality_neq}[which](c, kk)
                    elif which in ('<', '>'):
                        if fc is CNF:
                            F.add_linear(c, which, kk)
                        else:
                            F.add_constraint([(1, l) for l in c] + [which, kk])
                    elif which == 'parity':
                        F.add_parity(c, kk % 2)
                    else:
                        getattr(F, 'add_' + which)(c)
                    ctx.tally('history op', 'builder ' + which)
                    mx_now, bad_now = scan(F, fc is OPB)
                    if bad_now is not None or F.number_of_variables() < max(abs(l) for l in c):
                        ctx.violation('counterexample', 'builder %s with literals %s left the formula with %d variables (a literal is out of range)' % (which, c, F.number_of_variables()),
                                      dict(input=dict(ops=str(ops), builder=which, literals=c, constant=kk, formula_class=fc.__name__), numvar=F.number_of_variables()), True,
                                      site='builder-range', cls=which)
                        ok = False
                        break
                    mentioned = max([mentioned] + [abs(l) for l in c])
                    ops.append([Sym('clause'), c, True])
                    continue
                if kind == 'unchecked':
                    if before == 0:
                        continue
                    c = [rng.choice([1, -1]) * rng.randint(1, before) for _ in range(rng.randint(0, 3))]
                    F.add_clause(c, check=False)
                    mentioned = max([mentioned] + [abs(l) for l in c])
                    ops.append([Sym('clause'), c, False])
                    continue
                if kind == 'raise':
                    k = rng.randint(0, before + 4)
                    F.update_variable_number(k)
                    ops.append([Sym('raise'), k])
                    continue
                want = None
                if kind == 'single':
                    g = [F.new_variable('s%d' % len(ops))]
                    want = 1
                    ops.append([Sym('group'), 1])
                elif kind == 'block':
                    dims = [rng.randint(0, 3) for _ in range(rng.randint(1, 3))]
                    g = list(F.new_block(*dims))
                    want = 1
                    for x in dims:
                        want *= x
                    ops.append([Sym('group'), len(g)])
                elif kind == 'mapping':
                    a_, b_ = rng.randint(0, 3), rng.randint(0, 3)
                    g = list(F.new_mapping(a_, b_))
                    want = a_ * b_
                    ops.append([Sym('group'), len(g)])
                elif kind == 'binmap':
                    a_, b_ = rng.randint(1, 3), rng.choice([1, 1, 2, 3, 4, 5, 8, 9])
                    g = list(F.new_binary_mapping(a_, b_))
                    want = a_ * (b_ - 1).bit_length()          # documented: ceil(log2 m) bits per element
                    ops.append([Sym('group'), len(g)])
                elif kind == 'comb':
                    a_, b_ = rng.randint(0, 4), rng.randint(0, 3)
                    g = list(F.new_combinations(a_, b_))
                    import math
                    want = math.comb(a_, b_)
                    ops.append([Sym('group'), len(g)])
                elif kind == 'bip':
                    B = cnfgen.BipartiteGraph(rng.randint(0, 3), rng.randint(0, 3))
                    for u in range(1, B.left_order() + 1):
                        for v in range(1, B.right_order() + 1):
                            if rng.random() < 0.5:
                                B.add_edge(u, v)
                    kept.append(B)
                    g = list(F.new_bipartite_edges(B))
                    want = B.number_of_edges()
                    ops.append([Sym('group'), len(g)])
                elif kind in ('bip-reuse', 'sparse-reuse'):
                    # the SAME graph object serves a second group, at another offset
                    B = rng.choice(kept)
                    grp = F.new_bipartite_edges(B) if kind == 'bip-reuse' else F.new_sparse_mapping(B)
                    g = list(grp)
                    want = B.number_of_edges()
                    if g and sorted(grp(u, v) for (u, v) in B.edges()) != g:
                        ctx.violation('counterexample', 'a second group over the same bipartite graph maps its edges to %s, its identifiers are %s' % (sorted(grp(u, v) for (u, v) in B.edges())[:6], g[:6]),
                                      dict(input=dict(ops=str(ops), formula_class=fc.__name__)), True, site='history-reuse', cls=kind)
                        ok = False
                        break
                    ops.append([Sym('group'), len(g)])
                else:
                    G = cnfgen.Graph(rng.randint(0, 4))
                    for u in range(1, G.number_of_vertices() + 1):
                        for v in range(u + 1, G.number_of_vertices() + 1):
                            if rng.random() < 0.5:
                                G.add_edge(u, v)
                    g = list(F.new_graph_edges(G))
                    ops.append([Sym('group'), len(g)])
            except Exception as e:
                ctx.violation('counterexample', 'allocation step %s raised %s' % (kind, type(e).__name__), dict(input=dict(ops=str(ops), step=kind, formula_class=fc.__name__)), True,
                              site='history-raises', cls='%s-%s' % (kind, type(e).__name__))
                ok = False
                break
            ctx.tally('history op', kind)
            if want is not None and len(g) != want:
                ctx.violation('counterexample', 'new %s group has %d variables, documented %d' % (kind, len(g), want),
                              dict(input=dict(ops=str(ops), formula_class=fc.__name__), size=len(g), documented=want), True, site='group-size', cls=kind)
                ok = False
                break
            if g:
                if g != list(range(g[0], g[0] + len(g))) or g[0] <= mentioned or g[0] <= before or F.number_of_variables() != g[-1]:
                    ctx.violation('counterexample', 'new %s group got identifiers %s although variables up to %d were mentioned / %d declared' % (kind, g[:4], mentioned, before),
                                  dict(input=dict(ops=str(ops), formula_class=fc.__name__), ids=g[:8], mentioned=mentioned, declared_before=before), True, site='history-fresh', cls=kind)
                    ok = False
                    break
        ctx.count('allocation-history', str(ops), nontrivial=len(ops) > 1, sample=dict(ops=str(ops), formula_class=fc.__name__))
        if ok:
            reqs.append(cmd('alloc_history', ops))
            expected.append((F.number_of_variables(), str(ops)))
    if reqs:
        reps = ctx.model.batch(reqs)
        for rep, (n, ops) in zip(reps, expected):
            if is_error(rep):
                if 'unknown command' in str(rep):
                    ctx.note('allocation machine of the model not present (slice C11 not merged): histories checked on the implementation only')
                    break
                continue
            if rep != n:
                ctx.violation('correspondence', 'number of variables after an allocation history differs from the model machine (%s vs %s)' % (n, rep),
                              dict(input=dict(ops=ops), theorem='C10_history_invariant'), False, site='history-model', cls='numvar')


def constructor_runs(ctx, CNF, OPB):
    """CNF(clauses): the constructor is one more way to insert clauses.  Oracle: the documented insertion path, add_clause clause by
    clause on an empty formula - the constructor must refuse what add_clause refuses (a literal 0 ...), and otherwise hold the same
    clauses with the same number of variables; on integer input every literal is then in range"""
    rng = ctx.rng
    for i in range(60 if ctx.tier == 'quick' else 600):
        n = rng.randint(1, 8)
        cs = [[rng.choice([1, -1]) * rng.randint(1, n) for _ in range(rng.randint(0, 4))] for _ in range(rng.randint(0, 5))]
        bad = 'none'
        if rng.random() < 0.35 and cs:
            j = rng.randrange(len(cs))
            bad = rng.choice([0, 0, 0, '1', None])
            cs[j] = cs[j] + [bad] if rng.random() < 0.5 else [bad] + cs[j]
        shape = rng.choice(['list', 'generator', 'tuple'])
        arg = {'list': lambda: [list(c) for c in cs], 'generator': lambda: (list(c) for c in cs), 'tuple': lambda: tuple(tuple(c) for c in cs)}[shape]()
        r = outcome(lambda: CNF(arg))

        def by_add_clause():
            G = CNF()
            for c in cs:
                G.add_clause(list(c))
            return G
        o = outcome(by_add_clause)
        ctx.count('constructor', ('ctor', str(cs), shape), nontrivial=bool(cs), sample=dict(clauses=str(cs), given_as=shape))
        ctx.tally('constructor argument', shape + (' with the invalid literal %r' % (bad,) if bad != 'none' else ''))
        descr = dict(call='CNF(clauses)', clauses=str(cs), given_as=shape)
        if o[0] != 'ok':
            if r[0] == 'ok':
                ctx.violation('counterexample', 'CNF(clauses) accepts clauses that add_clause refuses (%s): the formula holds a literal that is not a non-zero integer' % o[1],
                              dict(input=descr, stored=str([list(c) for c in r[1]])), True, site='constructor', cls='invalid-literal-stored')
            continue
        if r[0] != 'ok':
            ctx.violation('counterexample', 'CNF(clauses) raised %s on clauses that add_clause accepts one by one' % r[1], dict(input=descr, error=list(r[1:])), True,
                          site='constructor', cls='raises-' + str(r[1]))
            continue
        F, G = r[1], o[1]
        stored = [list(c) for c in F]
        top = max([abs(l) for c in stored for l in c] + [0])
        if stored != [list(c) for c in G] or F.number_of_variables() != G.number_of_variables():
            ctx.violation('counterexample', 'CNF(clauses) differs from inserting the same clauses with add_clause (%d vs %d variables)' % (F.number_of_variables(), G.number_of_variables()),
                          dict(input=descr, stored=str(stored)), True, site='constructor', cls='clauses-or-numvar')
        elif F.number_of_variables() < top:
            ctx.violation('counterexample', 'CNF(clauses) has %d variables but mentions variable %d' % (F.number_of_variables(), top), dict(input=descr), True,
                          site='constructor', cls='numvar')
