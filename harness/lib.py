"""Shared machinery of the correspondence harness.

 * Model      -- talks to the extracted OCaml model (build/driver), one request per line
 * Ctx        -- per-run bookkeeping: evidence counters, violations, known findings, replay files
 * proofs     -- recompiles coq/Prop_<id>.v and reads the `Print Assumptions` output
 * ensure_built -- incremental rebuild of the Coq development and the driver

Everything random derives from ctx.rng (seeded from VERIF_SEED).
"""
import fcntl
import hashlib
import json
import os
import random
import re
import resource
import subprocess
import sys
import time

ROOT = os.path.dirname(os.path.dirname(os.path.abspath(__file__)))
REPO = os.environ.get('VERIF_REPO', '/repo')
OUT = os.environ.get('VERIF_OUT', ROOT)      # where evidence/ and replays/ are written (redirected when trying seeded changes)
DRIVER = os.path.join(ROOT, 'build', 'driver')
GUARD = 'CNFGEN_VERIF'
PY = '/venv/bin/python'


# --------------------------------------------------------------------------
# s-expressions
# --------------------------------------------------------------------------
class Sym(str):
    """an unquoted symbol"""


def sx(o):
    if o is True:
        return 'true'
    if o is False:
        return 'false'
    if o is None:
        return 'none'
    if isinstance(o, Sym):
        return str(o)
    if isinstance(o, int):
        return str(o)
    if isinstance(o, str):
        out = ['"']
        for ch in o:
            c = ord(ch)
            if ch == '"':
                out.append('\\"')
            elif ch == '\\':
                out.append('\\\\')
            elif ch == '\n':
                out.append('\\n')
            elif ch == '\t':
                out.append('\\t')
            elif ch == '\r':
                out.append('\\r')
            elif c < 32 or c > 126:
                if c > 255:
                    raise ValueError('non latin-1 character for the model')
                out.append('\\x%02x' % c)
            else:
                out.append(ch)
        out.append('"')
        return ''.join(out)
    if isinstance(o, (list, tuple)):
        return '(' + ' '.join(sx(x) for x in o) + ')'
    raise TypeError('cannot encode %r' % (o,))


_TOK = re.compile(r'\(|\)|"(?:\\.|[^"\\])*"|[^\s()]+')
_ESC = re.compile(r'\\(x[0-9a-fA-F]{2}|.)')


def _unesc(m):
    g = m.group(1)
    if g[0] == 'x':
        return chr(int(g[1:], 16))
    return {'n': '\n', 't': '\t', 'r': '\r'}.get(g, g)


def unsx(s):
    stack = [[]]
    for t in _TOK.findall(s):
        if t == '(':
            stack.append([])
        elif t == ')':
            x = stack.pop()
            stack[-1].append(x)
        elif t[0] == '"':
            stack[-1].append(_ESC.sub(_unesc, t[1:-1]))
        else:
            c = t[0]
            if c.isdigit() or (c == '-' and len(t) > 1):
                stack[-1].append(int(t))
            elif t == 'true':
                stack[-1].append(True)
            elif t == 'false':
                stack[-1].append(False)
            elif t == 'none':
                stack[-1].append(None)
            else:
                stack[-1].append(Sym(t))
    return stack[0][0]


class ModelError(Exception):
    pass


def _unlimit_stack():
    try:
        resource.setrlimit(resource.RLIMIT_STACK, (resource.RLIM_INFINITY, resource.RLIM_INFINITY))
    except Exception:
        pass


class Model:
    """Runs requests through the extracted model.  A request is a Python list
    [Sym(cmd), arg, ...] (or a pre-rendered string)."""

    def batch(self, reqs, timeout=600):
        if not reqs:
            return []
        text = '\n'.join(r if isinstance(r, str) else sx(r) for r in reqs) + '\n'
        p = subprocess.run([DRIVER], input=text.encode('latin-1'), stdout=subprocess.PIPE,
                           stderr=subprocess.PIPE, preexec_fn=_unlimit_stack, timeout=timeout)
        lines = p.stdout.decode('latin-1').split('\n')
        if lines and lines[-1] == '':
            lines.pop()
        if len(lines) != len(reqs):
            raise ModelError('driver answered %d of %d requests (rc=%s, stderr=%s)' %
                             (len(lines), len(reqs), p.returncode, p.stderr.decode()[:300]))
        return [unsx(l) for l in lines]

    def call(self, *req):
        return self.batch([list(req)])[0]


def cmd(name, *args):
    return [Sym(name)] + list(args)


def is_error(reply):
    return isinstance(reply, list) and len(reply) == 2 and reply[0] == 'error' and isinstance(reply[0], Sym)


# --------------------------------------------------------------------------
# build
# --------------------------------------------------------------------------
def ensure_built(log=None):
    """Incremental rebuild (make is a no-op when nothing changed).  Returns
    (ok, message).  Serialised by a file lock so parallel checks do not race."""
    os.makedirs(os.path.join(ROOT, 'build'), exist_ok=True)
    with open(os.path.join(ROOT, 'build', '.lock'), 'w') as lk:
        fcntl.flock(lk, fcntl.LOCK_EX)
        p = subprocess.run(['bash', os.path.join(ROOT, 'setup.sh')], stdout=subprocess.PIPE,
                           stderr=subprocess.STDOUT, cwd=ROOT, timeout=3600)
        out = p.stdout.decode(errors='replace')
        return p.returncode == 0, out


_THM = re.compile(r'^\s*(Theorem|Lemma|Corollary|Example|Fact|Remark|Proposition)\s+([A-Za-z_][A-Za-z_0-9\']*)', re.M)
_PA = re.compile(r'^\s*Print Assumptions\s+([A-Za-z_][A-Za-z_0-9\'.]*)\s*\.', re.M)
AXIOM_WHITELIST = set()   # no axiom is expected anywhere (DESIGN.md section 8)


def check_proofs(prop):
    """Recompile coq/Prop_<prop>.v.  Returns dict(obligations, discharged, theorems,
    axioms, ok, error, checker_cmd)."""
    import glob as _glob
    extra = sorted(f for f in _glob.glob(os.path.join(ROOT, 'coq', 'Prop_%s_*.v' % prop)))
    if extra and not os.environ.get('_VERIF_SUB'):
        # a property whose statements are spread over several files: Prop_Cxx.v + Prop_Cxx_*.v
        os.environ['_VERIF_SUB'] = '1'
        try:
            from concurrent.futures import ThreadPoolExecutor
            with ThreadPoolExecutor(max_workers=6) as ex:       # independent files: one coqc each, side by side
                parts = list(ex.map(check_proofs, [prop] + [os.path.basename(f)[5:-2] for f in extra]))
        finally:
            del os.environ['_VERIF_SUB']
        tot = dict(parts[0])
        for q in parts[1:]:
            tot['obligations'] += q['obligations']
            tot['discharged'] += q['discharged']
            tot['theorems'] = tot['theorems'] + q['theorems']
            tot['axioms'] = dict(tot['axioms'], **q['axioms'])
            tot['ok'] = tot['ok'] and q['ok']
            tot['error'] = tot['error'] or q['error']
            tot['checker_cmd'] += ' ; ' + q['checker_cmd']
            if not q['ok'] and not tot.get('failed_theorem'):
                tot['failed_theorem'] = q.get('failed_theorem')
        return tot
    src = os.path.join(ROOT, 'coq', 'Prop_%s.v' % prop)
    res = dict(obligations=0, discharged=0, theorems=[], axioms={}, ok=False, error=None,
               checker_cmd='coqc -R coq Cnfgen coq/Prop_%s.v  (after make in coq/)' % prop)
    if not os.path.exists(src):
        res['error'] = 'no property file'
        return res
    text = open(src).read()
    text_nc = re.sub(r'\(\*.*?\*\)', '', text, flags=re.S)
    thms = [m.group(2) for m in _THM.finditer(text_nc)]
    printed = [m.group(1) for m in _PA.finditer(text_nc)]
    res['theorems'] = thms
    res['obligations'] = len(thms)
    t0 = time.time()
    p = subprocess.run(['timeout', '900', 'coqc', '-R', '.', 'Cnfgen', 'Prop_%s.v' % prop],
                       cwd=os.path.join(ROOT, 'coq'), stdout=subprocess.PIPE, stderr=subprocess.PIPE)
    out = p.stdout.decode(errors='replace')
    err = p.stderr.decode(errors='replace')
    res['coqc_s'] = round(time.time() - t0, 1)
    # split the Print Assumptions output
    blocks = re.split(r'(?m)^(?=Closed under the global context|Axioms:)', out)
    blocks = [b for b in blocks if b.startswith('Closed under') or b.startswith('Axioms:')]
    for name, b in zip(printed, blocks):
        if b.startswith('Closed under'):
            res['axioms'][name] = []
        else:
            res['axioms'][name] = [ln.split(':')[0].strip() for ln in b.split('\n')[1:]
                                   if ln and not ln.startswith(' ') and ':' in ln]
    if p.returncode != 0:
        m = re.search(r'line (\d+)', err)
        line = int(m.group(1)) if m else 0
        done = 0
        if line:
            upto = '\n'.join(text.split('\n')[:line - 1])
            upto = re.sub(r'\(\*.*?\*\)', '', upto, flags=re.S)
            done = max(0, len(_THM.findall(upto)) - 1)
        res['discharged'] = done
        res['error'] = err.strip()[-1500:]
        # name the theorem that failed
        res['failed_theorem'] = thms[done] if done < len(thms) else None
        return res
    res['discharged'] = len(thms)
    bad = {n: [a for a in ax if a not in AXIOM_WHITELIST] for n, ax in res['axioms'].items()}
    bad = {n: ax for n, ax in bad.items() if ax}
    missing = [t for t in thms if t not in printed and not t.endswith('_nonvacuous') and not t.startswith('ex_')]
    res['not_printed'] = missing
    if bad:
        res['error'] = 'axioms outside the whitelist: %r' % bad
        return res
    res['ok'] = True
    return res


# --------------------------------------------------------------------------
# known findings
# --------------------------------------------------------------------------
def load_findings():
    p = os.path.join(ROOT, 'known_findings.json')
    out = []
    if os.path.exists(p):
        out = list(json.load(open(p))['findings'])
    # fragments written by slice builders before they are folded into known_findings.json
    import glob
    for f in sorted(glob.glob(os.path.join(ROOT, 'findings', '*.json'))):
        out.extend(json.load(open(f)))
    return out


# --------------------------------------------------------------------------
# context of one check run
# --------------------------------------------------------------------------
class Ctx:
    def __init__(self, prop, tier, seed):
        self.prop = prop
        self.tier = tier
        self.seed = seed
        self.rng = random.Random(seed)
        self.t0 = time.time()
        self.evaluations = 0
        self.nontrivial = set()
        self.samples = []
        self.dist = {}
        self.violations = []       # dicts
        self.known_hits = {}       # finding id -> count
        self.notes = []
        self.findings = [f for f in load_findings() if f['property'] == prop]
        self.model = Model()
        self.streams = {}
        self.assumptions = []
        self.disagreements_checked = 0
        self.exhaustive = False

    # ---- evidence ----
    def count(self, stream, key=None, nontrivial=True, sample=None):
        """one evaluated case of a stream; key identifies it for distinctness"""
        self.evaluations += 1
        st = self.streams.setdefault(stream, {'cases': 0})
        st['cases'] += 1
        if nontrivial and key is not None:
            k = key if isinstance(key, (str, int, tuple)) else json.dumps(key, sort_keys=True, default=str)
            if not isinstance(k, int):
                # distinctness only needs identity of keys: keep a 16-byte digest, not the (possibly very large) key itself
                k = hashlib.blake2b(repr(k).encode('utf-8', 'surrogatepass'), digest_size=16).digest()
            self.nontrivial.add((stream, k))
        if sample is not None and len([s for s in self.samples if s.get('stream') == stream]) < 3:
            self.samples.append({'stream': stream, 'case': sample})

    def tally(self, name, value):
        d = self.dist.setdefault(name, {})
        value = str(value)
        d[value] = d.get(value, 0) + 1

    def note(self, s):
        self.notes.append(s)

    # ---- violations ----
    def violation(self, kind, what, replay, found_input, site=None, cls=None):
        """kind: counterexample | correspondence | proof.  found_input: a concrete
        input on which the property itself fails is in the replay."""
        for f in self.findings:
            if f.get('status') == 'finding' and site is not None and f.get('site') == site and f.get('class') == cls:
                n = self.known_hits.setdefault(f['id'], {'n': 0, 'f': f, 'example': replay})
                n['n'] += 1
                return False
        # collapse duplicates of one site/class
        for v in self.violations:
            if v['site'] == site and v['cls'] == cls and site is not None:
                v['count'] += 1
                return True
        self.violations.append(dict(kind=kind, what=what, replay=replay, found_input=found_input,
                                    site=site, cls=cls, count=1))
        return True

    def finish(self, level, proof, rule, extra=None, trusted=None):
        wall = time.time() - self.t0
        os.makedirs(os.path.join(OUT, 'replays'), exist_ok=True)
        os.makedirs(os.path.join(OUT, 'evidence'), exist_ok=True)
        lines = []
        for hid, h in sorted(self.known_hits.items()):
            lines.append('KNOWN-FINDING: property=%s %s (%d case(s) this run, e.g. %s)' %
                         (self.prop, h['f']['what'], h['n'], json.dumps(h['example'].get('input', h['example']), default=str)[:200]))
        nviol = 0
        import glob
        for old in glob.glob(os.path.join(OUT, 'replays', '%s-%s-*.json' % (self.prop, self.tier))):
            try:
                os.unlink(old)          # replay files of earlier runs of this check
            except OSError:
                pass
        for i, v in enumerate(self.violations):
            nviol += 1
            path = os.path.join(OUT, 'replays', '%s-%s-%d.json' % (self.prop, self.tier, i))
            rp = dict(property=self.prop, kind=v['kind'], what=v['what'], site=v['site'], input_class=v['cls'],
                      occurrences=v['count'], seed=self.seed, tier=self.tier,
                      failing_input_found=bool(v['found_input']),
                      replay_cmd='./check %s --replay %s' % (self.prop, path))
            rp.update(v['replay'])
            with open(path, 'w') as f:
                json.dump(rp, f, indent=1, default=str)
            tail = '' if v['found_input'] else ' no-failing-input-found'
            lines.append('VIOLATION property=%s replay=%s%s' % (self.prop, path, tail))
        cov = dict(evaluations=self.evaluations, distinct_nontrivial=len(self.nontrivial), rule=rule,
                   samples=self.samples[:40] or [{'note': 'no correspondence case run'}],
                   streams=self.streams, input_distribution=self.dist,
                   disagreements_checked=self.disagreements_checked, exhaustive=self.exhaustive,
                   known_findings_seen={k: v['n'] for k, v in self.known_hits.items()}, notes=self.notes)
        if proof is not None:
            cov.update(obligations=proof['obligations'], discharged=proof['discharged'],
                       checker_cmd=proof['checker_cmd'], theorems=proof['theorems'],
                       print_assumptions=proof['axioms'],
                       trusted_base=trusted or [])
        if extra:
            cov.update(extra)
        ev = dict(property_id=self.prop, tier=self.tier, seed=self.seed, level=level, coverage=cov,
                  assumptions=self.assumptions, wall_s=round(wall, 2), violations=nviol)
        with open(os.path.join(OUT, 'evidence', '%s.json' % self.prop), 'w') as f:
            json.dump(ev, f, indent=1, default=str)
        for ln in lines:
            print(ln)
        sys.stdout.flush()
        return 1 if nviol else 0


TRUSTED_COMMON = [
    'Coq 8.16.1 kernel (coqc); vm_compute only in Examples/_refuted witnesses; no native_compute',
    'no axioms declared; Print Assumptions of every property theorem must be "Closed under the global context"',
    'extraction: Require Extraction + ExtrOcamlBasic + ExtrOcamlString (their Extract Inductive/Constant directives only); Z/positive/nat stay extracted inductives',
    'OCaml 4.13.1 and ocaml/sx.ml, main.ml, glue_*.ml (request parsing / printing)',
    'hand-written Gallina model: tied to /repo only on the inputs the correspondence ran (distribution in this file)',
    'CPython, networkx, the harness generators and diff',
]


# --------------------------------------------------------------------------
# implementation access
# --------------------------------------------------------------------------
def import_impl():
    """import cnfgen from the current working tree of the repository"""
    os.environ[GUARD] = '1'
    os.environ.setdefault('PYTHONHASHSEED', '0')
    if REPO not in sys.path:
        sys.path.insert(0, REPO)
    cwd = os.getcwd()
    os.chdir(REPO)
    try:
        import cnfgen  # noqa
    finally:
        os.chdir(cwd)
    return cnfgen


def outcome(f, *a, **k):
    """('ok', value) or ('exc', ExceptionClassName, message)"""
    try:
        return ('ok', f(*a, **k))
    except Exception as e:  # noqa
        return ('exc', type(e).__name__, str(e)[:200])


# --------------------------------------------------------------------------
# semantic helpers for failing-input search
# --------------------------------------------------------------------------
def lit_true(a, l):
    return a[abs(l)] if l > 0 else not a[abs(l)]


def cnf_sat(a, F):
    return all(any(lit_true(a, l) for l in c) for c in F)


def assignments(n):
    """all total assignments to variables 1..n as lists indexed by variable"""
    for bits in range(1 << n):
        yield [None] + [bool((bits >> i) & 1) for i in range(n)]


def pb_sat(a, c):
    *terms, op, deg = c
    s = sum(co for (co, l) in terms if lit_true(a, l))
    return {'>=': s >= deg, '==': s == deg, '<=': s <= deg, '>': s > deg, '<': s < deg}[op]


def models_cnf(n, F):
    return [tuple(a[1:]) for a in assignments(n) if cnf_sat(a, F)]


# --------------------------------------------------------------------------
# family registries (harness/fam_c0X.py) reused by C08, C10, C17
# --------------------------------------------------------------------------
def family_replies(model, fams_params):
    """for each (fam, p): the list of model replies of every variant the implementation may agree with
    (documented variant first, then the as-found variant of an unrepaired known finding)"""
    reqs, index = [], []
    for fam, p in fams_params:
        variants = []
        spec = fam.get('request_spec') or fam.get('spec_request')
        if spec:
            variants.append(spec(p))
        r = fam['request'](p)
        if r not in variants:
            variants.append(r)
        if fam.get('alternatives'):
            for a in fam['alternatives'](p):
                if a['request'] not in variants:
                    variants.append(a['request'])
        index.append((len(reqs), len(variants)))
        reqs += variants
    reps = model.batch(reqs) if reqs else []
    return [reps[i:i + n] for i, n in index]
