"""C06 -- DIMACS output round-trips and the DIMACS reader never misreads.

Correspondence between cnfgen (to_dimacs_file / parse_dimacs / from_dimacs_file as
reached through CNF.to_file, CNF.to_dimacs, CNF.from_file) and the extracted Coq
model (coq/Text.v, coq/Dimacs.v):

 formulas   formulas of many families / transformation chains and hand-built ones
            -> the implementation writes them (with and without header / names, to a
            StringIO and to a file) -> the text must equal the model's text byte for
            byte, header fields and variable names with line breaks ("\n", "\r",
            "\r\n") included (print_dimacs models the writer after the repair of D4;
            a text equal to print_dimacs_as_found on such an input is the old defect
            come back and is reported with its failing input)
            -> the implementation's reader and the model's reader must both give
            back (n, clauses), under both newline conventions.  The shape of the text
            is also checked directly (one true problem line, comments, clause lines).
 texts      mostly valid texts with ONE mutation each, and fully random texts over the
            alphabet: the implementation's verdict (formula / exception class / which
            raise statement / line number) must equal the model's.
 primitives int(), str.split(), str.strip(), str(int) against parse_int, split_ws,
            strip, print_Z on random tokens.
 unicode    exotic Unicode and raw bytes, implementation only: formula or ValueError.
 cli        (thorough) `cnfgen -q dimacs FILE` on a few texts.
 cli-write  `cnfgen [-of dimacs] [-o FILE] <family> ...` and `cnfgen dimacs FILE` at
            realistic sizes for every registered family (harness/fam_c0[123].py): the
            bytes written must equal print_dimacs of the library object's header,
            variable count and clauses.
Run first, as a corpus (notes/LARGE_STREAMS.md):
 huge       outputs of more than 8 and 16 MiB (padded to one byte past the boundary), more
            than 65536 / 131072 clauses or comment lines, lines of more than 131072
            characters, through a StringIO, a file name, an open file and the standard
            output, and `cnfgen dimacs FILE` on a 16 MiB file.  The character-level model
            is too slow there: the statement itself is checked on the text (read back =
            written formula; one true problem line; every other line a comment or a clause).
 thresholds literal values, clause widths, clause / field / name counts and lengths at
            15..1025, 4096..131073 and 2^31..10^19, writer and reader, exact comparison.
 shapes     kinds of destination (write-only object, descriptor-named and anonymous files,
            bytes paths, tiny buffers), file names that merely END in the letters of an
            extension (to_file(name) and `cnfgen -o name`, format as documented by
            guess_output_format), names outside ASCII written in-process and by a process
            in the C locale with UTF-8 mode off.
 history    one formula object edited through its public API between writes, written to
            the same file name again and again; the reader called on texts it saw before.

Any exception class other than ValueError, and any accepted text whose formula is
not the one the (proved sound) model reads, is a failing input for the property."""
import io
import json
import os
import re
import subprocess
import tempfile
import time

import lib
from lib import cmd, Sym, import_impl, is_error

META = dict(
    technique='Coq theorems over a character-level model of writer and reader (dimacs_roundtrip, print_shape, parse_sound, for every '
              'header and name list; *_refuted witnesses for the writer as found before the repair of D4) + extracted-model '
              'differential check (texts byte for byte, reader verdicts on mutated and random texts, command-line output of every family)',
    category='proof',
    text='Machine-checked theorems state, for every formula with literals in range, every header and every list of variable names '
         '(line breaks inside them included) and both newline conventions, that reading the written text gives back the number of variables and the clauses '
         'in order, that the output consists of comment lines, one problem line with the true counts and one line per clause, '
         'and, for every text, that an accepted text has exactly one problem line and denotes exactly the returned clauses with '
         'all literals in the declared range and the declared count; every other outcome of the model is ValueError. The model is '
         'tied to the code by comparing written texts byte for byte and reader verdicts (formula, or which ValueError at which '
         'line) on formulas of many families and on mutated / random texts.',
    note='Trusted: Coq kernel, extraction, OCaml driver, the harness. The model is hand-written and covers 8-bit characters; '
         'agreement with the code is checked only on the inputs of the run (see input_distribution). D4 (a line break in a header '
         'field or variable name written raw) is repaired in the code; the model follows the repaired writer and the old behaviour is '
         'reported as a violation again. Integers of more than 4300 digits are outside the theorems (Python refuses to print or read them).',
    design_ref='5/C06',
)
RULE = ('formulas: one case per (formula, header?, names?, StringIO/file); texts: one case per (text, newline convention); a case '
        'is non-trivial when the formula has a clause or the text has a non-comment line; distinct = distinct (stream, input)')
TRUSTED = ['CPython str/int/io semantics outside the 8-bit alphabet (non-ASCII digits, UTF-8 decoding)',
           'harness/c06.py generators, verdict classification by the text of the ValueError message']

FINDING_SITE = 'to_dimacs_file'
FINDING_CLS = 'line-break-in-header-or-name'

_MSG = [
    (re.compile(r'^There is a another spec at line (\d+)$'), 'DupSpec'),
    (re.compile(r'^Spec at line (\d+) should have format'), 'BadSpec'),
    (re.compile(r'^Non comment line (\d+) before p cnf'), 'DataBeforeSpec'),
    (re.compile(r'^Invalid literal at line (\d+)$'), 'BadLiteral'),
    (re.compile(r'^Last clause was incomplete$'), 'Incomplete'),
    (re.compile(r"^Missing spec line 'p cnf <n> <m>$"), 'MissingSpec'),
    (re.compile(r'^Formula contains \d+ clauses but \d+ were expected\.$'), 'WrongCount'),
]

TMPDIR = None


def tmp_path(name):
    global TMPDIR
    if TMPDIR is None:
        TMPDIR = tempfile.mkdtemp(prefix='c06-')
    return os.path.join(TMPDIR, name)


# --------------------------------------------------------------------------
# the implementation, observed
# --------------------------------------------------------------------------
def impl_read(CNF, text, universal):
    """verdict of the real reader: ['ok', n, clauses] | ['err', kind, line] | ['exc', class, message]"""
    try:
        if universal:
            p = tmp_path('in.cnf')
            with open(p, 'w', newline='', encoding='utf-8') as f:
                f.write(text)
            F = CNF.from_file(p)
        else:
            F = CNF.from_file(io.StringIO(text))
        return ['ok', F.number_of_variables(), [list(c) for c in F]]
    except ValueError as e:
        if type(e) is not ValueError:
            return ['err', type(e).__name__, 0]
        msg = str(e)
        for rx, kind in _MSG:
            m = rx.match(msg)
            if m:
                return ['err', kind, int(m.group(1)) if m.groups() else 0]
        return ['err', 'other:' + msg[:60], 0]
    except Exception as e:  # noqa -- any other class is a failing input
        return ['exc', type(e).__name__, str(e)[:120]]


def impl_write(F, header, names, to_file):
    if to_file:
        p = tmp_path('out.cnf')
        F.to_file(p, fileformat='dimacs', export_header=header, export_varnames=names)
        with open(p, 'r', newline='', encoding='utf-8') as f:
            return f.read()
    s = io.StringIO()
    F.to_file(s, fileformat='dimacs', export_header=header, export_varnames=names)
    return s.getvalue()


def latin1(s):
    return all(ord(ch) < 256 for ch in s)


def clip(s, k=300):
    """long fields are shown by their ends and their length in samples and replay files"""
    return s if len(s) <= k else '%s ... (%d characters) ... %s' % (s[:k // 2], len(s), s[-k // 4:])


def header_for_model(F):
    """header fields as the writer formats them; characters above 255 are sent as \\xff (both become '?')"""
    out = []
    for k, v in F.header.items():
        out.append([''.join(ch if ord(ch) < 256 else '\xff' for ch in str(k)),
                    ''.join(ch if ord(ch) < 256 else '\xff' for ch in str(v))])
    return out


BREAKS = ('\n', '\r')


def has_break(F, header, names, labels):
    if header and any(b in str(k) or b in str(v) for k, v in F.header.items() for b in BREAKS):
        return True
    if names and any(b in lab for lab in labels for b in BREAKS):
        return True
    return False


def shape_defect(text, n, clauses):
    """direct check of the output shape on the implementation's text (None = fine)"""
    if not text.endswith('\n') and text != '':
        return 'last line not terminated'
    lines = text.split('\n')[:-1]
    rest = [l for l in lines if not l.startswith('c')]
    if not rest:
        return 'no problem line'
    if rest[0].split() != ['p', 'cnf', str(n), str(len(clauses))]:
        return 'problem line is %r, true counts are %d %d' % (rest[0][:60], n, len(clauses))
    want = [[str(l) for l in c] + ['0'] for c in clauses]
    got = [l.split() for l in rest[1:]]
    if got != want:
        for i, (a, b) in enumerate(zip(got, want)):
            if a != b:
                return 'clause line %d is %r, expected the tokens %r' % (i + 1, rest[1 + i][:60], b[:12])
        return 'number of clause lines %d, expected %d' % (len(got), len(want))
    return None


# --------------------------------------------------------------------------
# stream (a): formulas
# --------------------------------------------------------------------------
def small_graph(cnfgen, rng, n, p=0.5):
    G = cnfgen.Graph(n)
    for u in range(1, n + 1):
        for v in range(u + 1, n + 1):
            if rng.random() < p:
                G.add_edge(u, v)
    return G


def cycle_graph(cnfgen, n):
    G = cnfgen.Graph(n)
    for u in range(1, n + 1):
        if n > 2:
            G.add_edge(u, u % n + 1)
    return G


def dag(cnfgen, rng, n):
    D = cnfgen.DirectedGraph(n)
    for v in range(2, n + 1):
        for u in rng.sample(range(1, v), min(2, v - 1)):
            D.add_edge(u, v)
    return D


def bip(cnfgen, rng, l, r, d):
    B = cnfgen.BipartiteGraph(l, r)
    for u in range(1, l + 1):
        for v in rng.sample(range(1, r + 1), min(d, r)):
            B.add_edge(u, v)
    return B


ODD_TEXTS = [
    '', ' ', 'plain', 'c p cnf 1 1', 'p cnf 3 2', '  leading and trailing  ', 'tab\there', 'percent % and 0',
    'quote " back\\slash', 'caf\xe9 na\xefve \xff', 'nbsp\xa0nel\x85end', 'vt\x0bff\x0cfs\x1c', 'αβ   \U0001f600',
    '{} {0} %s %d', '1 2 0', '-1 0', 'x' * 300, '0', 'c', 'p',
]
BREAK_TEXTS = ['two\nlines', 'cr\rinside', 'crlf\r\nhere', '\n', 'end\n', 'x\np cnf 1 0', 'x\n1 0']


BREAK_ALPHA = ['\n', '\n', '\r', '\r', '\r\n', ' ', ' ', 'c', 'p', 'x', '1', '0', '-', ':', '\t', '\xe9', '\xa0', '\x85', '\x0b', '\x0c',
               '\x1c', 'cnf', 'c ', '%']


def break_text(r):
    return ''.join(r.choice(BREAK_ALPHA) for _ in range(r.choice([1, 2, 3, 5, 8, 13])))


def build_formulas(ctx, cnfgen, quick):
    """[(label, class, thunk)] -- thunks so that one failing generator does not stop the stream"""
    rng = ctx.rng
    C = cnfgen
    CNF = C.CNF
    out = []

    def add(label, cls, thunk):
        out.append((label, cls, thunk))

    # hand-built
    add('empty formula', 'hand', lambda: CNF())
    add('only empty clauses', 'hand', lambda: CNF([[], [], []]))

    def unused():
        F = CNF([[1, -2], [], [2]])
        F.update_variable_number(7)
        return F
    add('unused variables', 'hand', unused)

    def novars():
        F = CNF()
        F.update_variable_number(5)
        return F
    add('variables but no clause', 'hand', novars)
    add('repeated and opposite literals', 'hand', lambda: CNF([[1, 1, -1], [2, -2], [3, 3, 3], [1, 1, -1]]))
    add('large literal 10**30', 'hand', lambda: CNF([[10 ** 30, -1], [-(10 ** 30)]]))
    add('wide clause', 'hand', lambda: CNF([list(range(1, 400)), [-x for x in range(1, 400)]]))

    def named():
        F = CNF()
        F.new_variable('X')
        F.new_block(2, 3, label='z_{{{},{}}}')
        F.new_variable('c p cnf 9 9')
        F.new_variable('')
        F.new_variable('caf\xe9 \xa0 \x85')
        F.add_clause([1, -2, 7])
        F.add_clause([-9, 10])
        return F
    add('named variables', 'hand', named)
    for i, txt in enumerate(ODD_TEXTS):
        def odd(txt=txt, i=i):
            F = CNF([[1, -3], [2]], description=txt)
            F.header['field %d' % i] = txt
            if i % 3 == 0:
                F.header[txt] = 'value'
            if i % 4 == 0:
                F.header[7] = 3.5
            return F
        add('odd header %d' % i, 'hand-odd-header', odd)
    for i, txt in enumerate(t for t in ODD_TEXTS if latin1(t)):
        def oddn(txt=txt):
            F = CNF()
            F.new_variable(txt)
            F.new_variable('y')
            F.add_clause([1, -2])
            return F
        add('odd name %d' % i, 'hand-odd-name', oddn)
    for i, txt in enumerate(BREAK_TEXTS):
        def brk(txt=txt):
            return CNF([[1, -2], [2]], description=txt)
        add('line break in description %d' % i, 'hand-break', brk)

        def brkn(txt=txt):
            F = CNF()
            F.new_variable('a' + txt + 'b')
            F.new_variable('y')
            F.add_clause([1, -2])
            return F
        add('line break in name %d' % i, 'hand-break', brkn)

        def brkk(txt=txt):
            F = CNF([[1]])
            F.header['k' + txt] = 'v'
            return F
        add('line break in header key %d' % i, 'hand-break', brkk)

    for i in range(40 if quick else 400):
        def rbrk(seed=rng.randrange(1 << 30)):
            import random
            r = random.Random(seed)
            F = CNF(description=break_text(r))
            for _ in range(r.randint(0, 3)):
                F.header[break_text(r)] = break_text(r)
            for _ in range(r.randint(0, 3)):
                try:
                    F.new_variable(break_text(r))
                except ValueError:      # a repeated name
                    pass
            if F.number_of_variables() < 2:
                F.update_variable_number(2)
            F.add_clause([1, -2])
            F.add_clause([2])
            return F
        add('random fields with line breaks %d' % i, 'hand-break-random', rbrk)

    # random hand-built formulas
    for i in range(20 if quick else 120):
        def rnd(seed=rng.randrange(1 << 30)):
            import random
            r = random.Random(seed)
            n = r.randint(0, 12)
            F = CNF()
            if n:
                F.update_variable_number(n)
            for _ in range(r.randint(0, 15)):
                w = r.choice([0, 1, 2, 3, 3, 5]) if n else 0
                F.add_clause([r.choice([1, -1]) * r.randint(1, n) for _ in range(w)])
            return F
        add('random clause list %d' % i, 'random-clauses', rnd)

    # families
    s = 1 if quick else 2
    add('php 5 4', 'family', lambda: C.PigeonholePrinciple(5, 4))
    add('php 4 3 functional onto', 'family', lambda: C.PigeonholePrinciple(4, 3, functional=True, onto=True))
    add('php 0 0', 'family', lambda: C.PigeonholePrinciple(0, 0))
    add('php 3 0', 'family', lambda: C.PigeonholePrinciple(3, 0))
    add('bphp 5 4', 'family', lambda: C.BinaryPigeonholePrinciple(5, 4))
    add('gphp', 'family', lambda: C.GraphPigeonholePrinciple(bip(C, rng, 5, 4, 2)))
    add('op 5', 'family', lambda: C.OrderingPrinciple(5))
    add('op 4 total smart', 'family', lambda: C.OrderingPrinciple(4, total=True, smart=True))
    add('gop', 'family', lambda: C.GraphOrderingPrinciple(small_graph(C, rng, 5)))
    add('tseitin cycle', 'family', lambda: C.TseitinFormula(cycle_graph(C, 6)))
    add('tseitin random', 'family', lambda: C.TseitinFormula(small_graph(C, rng, 6, 0.6)))
    add('count 5 2', 'family', lambda: C.CountingPrinciple(5, 2))
    add('matching', 'family', lambda: C.PerfectMatchingPrinciple(small_graph(C, rng, 6, 0.6)))
    add('kcolor', 'family', lambda: C.GraphColoringFormula(small_graph(C, rng, 5), 3))
    add('ec', 'family', lambda: C.EvenColoringFormula(cycle_graph(C, 6)))
    add('domset', 'family', lambda: C.DominatingSet(small_graph(C, rng, 6), 2))
    add('kclique', 'family', lambda: C.CliqueFormula(small_graph(C, rng, 5), 3))
    add('kcliquebin', 'family', lambda: C.BinaryCliqueFormula(small_graph(C, rng, 5), 3))
    add('ram 3 3 5', 'family', lambda: C.RamseyNumber(3, 3, 5))
    add('vdw 7 3 3', 'family', lambda: C.VanDerWaerden(7, 3, 3))
    add('ptn 12', 'family', lambda: C.PythagoreanTriples(12))
    add('subsetcard', 'family', lambda: C.SubsetCardinalityFormula(bip(C, rng, 5, 5, 3)))
    add('peb', 'family', lambda: C.PebblingFormula(dag(C, rng, 7)))
    add('stone', 'family', lambda: C.StoneFormula(dag(C, rng, 5), 3))
    add('cliquecoloring 5 3 2', 'family', lambda: C.CliqueColoring(5, 3, 2))
    add('cpls 2 2 2', 'family', lambda: C.CPLSFormula(2, 2, 2))
    add('iso', 'family', lambda: C.GraphIsomorphism(small_graph(C, rng, 4), small_graph(C, rng, 4)))
    for i in range(3 * s):
        k, n = rng.randint(1, 4), rng.randint(4, 12)
        m = rng.randint(0, 8 if k == 1 else 25)
        seed = rng.randrange(1 << 30)
        add('randkcnf %d %d %d' % (k, n, m), 'family', lambda k=k, n=n, m=m, seed=seed: C.RandomKCNF(k, n, m, seed=seed))
    add('randkxor 3 7 4', 'family', lambda: C.RandomKXOR(3, 7, 4, seed=11))

    # transformation chains
    base = lambda: C.PigeonholePrinciple(4, 3)   # noqa
    rk = lambda: C.RandomKCNF(3, 6, 9, seed=5)   # noqa
    add('xor 2 (php)', 'chain', lambda: C.XorSubstitution(base(), 2))
    add('or 2 (rand)', 'chain', lambda: C.OrSubstitution(rk(), 2))
    add('maj 3 (rand)', 'chain', lambda: C.MajoritySubstitution(rk(), 3))
    add('lift 2 (op)', 'chain', lambda: C.FormulaLifting(C.OrderingPrinciple(3), 2))
    add('ite (rand)', 'chain', lambda: C.IfThenElseSubstitution(rk()))
    add('eq 2 (rand)', 'chain', lambda: C.AllEqualSubstitution(rk(), 2))
    add('neq 3 (rand)', 'chain', lambda: C.NotAllEqualSubstitution(rk(), 3))
    add('one 3 (rand)', 'chain', lambda: C.ExactlyOneSubstitution(rk(), 3))
    add('flip (php)', 'chain', lambda: C.FlipPolarity(base()))
    add('shuffle (php)', 'chain', lambda: C.Shuffle(base()))
    add('shuffle(xor 2 (op 4))', 'chain', lambda: C.Shuffle(C.XorSubstitution(C.OrderingPrinciple(4), 2)))
    add('xor 2 (shuffle (tseitin))', 'chain', lambda: C.XorSubstitution(C.Shuffle(C.TseitinFormula(cycle_graph(C, 5))), 2))
    add('or 2 (flip (rand))', 'chain', lambda: C.OrSubstitution(C.FlipPolarity(rk()), 2))
    add('xor 2 of empty clause formula', 'chain', lambda: C.XorSubstitution(CNF([[], [1, 2]]), 2))
    # realistic sizes
    add('php 20 10', 'large', lambda: C.PigeonholePrinciple(20, 10))
    add('op 14', 'large', lambda: C.OrderingPrinciple(14))
    if not quick:
        add('php 40 20', 'large', lambda: C.PigeonholePrinciple(40, 20))
        add('xor 3 (randkcnf 3 60 250)', 'large', lambda: C.XorSubstitution(C.RandomKCNF(3, 60, 250, seed=3), 3))
        add('tseitin grid-ish', 'large', lambda: C.TseitinFormula(small_graph(C, rng, 14, 0.5)))
    return out


def opt(x):
    return None if x is None else [Sym('some'), x]


def run_formulas(ctx, cnfgen, quick, formulas=None, stream='formulas'):
    """formulas: [(label, class, thunk)] or [(label, class, thunk, options)] with options a list of
    (export_header, export_varnames, to_file) triples; None = the collection of build_formulas, all combinations"""
    CNF = cnfgen.CNF
    cases = []
    corpus = formulas is not None
    for item in (formulas if corpus else build_formulas(ctx, cnfgen, quick)):
        label, cls, thunk = item[:3]
        only = item[3] if len(item) > 3 else None
        try:
            F = thunk()
        except Exception as e:  # the generator itself failed: not this property's business, but recorded
            ctx.note('generator %s raised %s: %s' % (label, type(e).__name__, str(e)[:80]))
            ctx.tally('formula class', 'generator-raised')
            continue
        n = F.number_of_variables()
        clauses = [list(c) for c in F]
        want_names = only is None or any(o[1] for o in only)
        labels = list(F.all_variable_labels()) if (n <= 10 ** 6 and want_names) else None   # 10**30 variables cannot be listed
        ctx.tally('formula class', cls)
        ctx.tally('clauses', '0' if not clauses else '1-9' if len(clauses) < 10 else '10-999' if len(clauses) < 1000 else '1000+')
        ctx.tally('has empty clause', any(len(c) == 0 for c in clauses))
        ctx.tally('has unused trailing variables', n > max([abs(l) for c in clauses for l in c], default=0))
        for header in (False, True):
            for names in (False, True):
                if names and labels is None:
                    ctx.tally('skipped', 'names of a formula with 10**30 variables')
                    continue
                if names and not all(latin1(x) for x in labels):
                    ctx.tally('skipped', 'names outside latin-1')
                    continue
                for to_file in ((False, True) if cls != 'large' or (header and names) else (False,)):
                    if only is not None and (header, names, to_file) not in only:
                        continue
                    cases.append(dict(label=label, cls=cls, F=F, n=n, clauses=clauses, labels=labels,
                                      header=header, names=names, to_file=to_file))
    judge_cases(ctx, cnfgen, stream, cases, corpus)
    if not quick and not corpus:
        php_100_40(ctx, cnfgen)


def header_items(F):
    return [(str(k), str(v)) for k, v in F.header.items()]


def judge_cases(ctx, cnfgen, stream, cases, corpus=True):
    """cases: dicts with label, cls, F, n, clauses, labels, header, names, to_file.  A case that already carries 'text'
    (and 'hdr_items', the header at the time of writing) was written by the caller at that moment -- the object may have
    changed since (history stream); else the formula is written here."""
    CNF = cnfgen.CNF
    # phase 1: write with the implementation, print with the model
    reqs = []
    for c in cases:
        F = c['F']
        if 'text' not in c:
            c['hdr_items'] = header_items(F)
            try:
                c['text'] = impl_write(F, c['header'], c['names'], c['to_file'])
                c['wexc'] = None
            except Exception as e:  # noqa
                c['text'] = None
                c['wexc'] = [type(e).__name__, str(e)[:120]]
        c.setdefault('via', 'file' if c['to_file'] else 'StringIO')
        hdr = [[''.join(ch if ord(ch) < 256 else '\xff' for ch in k), ''.join(ch if ord(ch) < 256 else '\xff' for ch in v)]
               for k, v in c['hdr_items']]
        margs = (opt(hdr if c['header'] else None), opt(c['labels'] if c['names'] else None), c['n'], c['clauses'])
        c['broken'] = bool((c['header'] and any(b in k or b in v for k, v in c['hdr_items'] for b in BREAKS)) or
                           (c['names'] and any(b in lab for lab in c['labels'] for b in BREAKS)))
        reqs.append(cmd('print_dimacs', *margs))
        if c['broken']:
            reqs.append(cmd('print_dimacs_as_found', *margs))
    flat = iter(ctx.model.batch(reqs))
    prints = []
    for c in cases:
        prints.append(next(flat))
        c['as_found'] = next(flat) if c['broken'] else None
    # phase 2: read the implementation's text with both readers, both conventions
    reqs = []
    for c in cases:
        if c['text'] is not None and latin1(c['text']):
            reqs.append(cmd('parse_dimacs', False, c['text']))
            reqs.append(cmd('parse_dimacs', True, c['text']))
    parses = iter(ctx.model.batch(reqs))
    for c, mp in zip(cases, prints):
        descr = dict(formula=c['label'], n=c['n'],
                     clauses=c['clauses'] if (len(c['clauses']) <= 30 and sum(map(len, c['clauses'])) <= 300) else '%d clauses' % len(c['clauses']),
                     export_header=c['header'], export_varnames=c['names'], via=c['via'],
                     header=[[clip(k), clip(v)] for k, v in c['hdr_items'][:40]] if c['header'] else None,
                     names=[clip(x) for x in c['labels'][:20]] if c['names'] else None)
        if c.get('history'):
            descr['history'] = c['history']
        key = (c['label'], c['header'], c['names'], c['via'])
        ctx.count(stream, key, nontrivial=len(c['clauses']) > 0, sample=dict(descr, clauses='...'))
        ctx.tally(stream + ' options' if corpus else 'options', 'header=%s names=%s via=%s' % (c['header'], c['names'], descr['via']) if corpus
                  else 'header=%s names=%s' % (c['header'], c['names']))
        broken = c['broken']
        ctx.tally('line break in header/name', broken)
        if c['text'] is None:
            ctx.disagreements_checked += 1
            ctx.violation('counterexample', 'writing a formula to DIMACS raised %s' % c['wexc'][0],
                          dict(input=descr, implementation=c['wexc']), True, site='to_dimacs_file', cls='raises-' + c['wexc'][0])
            continue
        text = c['text']
        want = ['ok', c['n'], c['clauses']]
        got = [impl_read(CNF, text, False), impl_read(CNF, text, True)]
        if latin1(text):
            mpar = [next(parses), next(parses)]
        else:
            mpar = None
        defect = shape_defect(text, c['n'], c['clauses'])
        roundtrip_ok = got[0] == want and got[1] == want
        if is_error(mp) or (broken and is_error(c['as_found'])):
            ctx.violation('correspondence', 'model error', dict(input=descr, model=mp), False, site='model-error', cls='print')
            continue
        same_text = (mp == text)
        old_text = broken and c['as_found'] == text       # the writer as it was before the repair of D4
        if not roundtrip_ok or defect is not None:
            ctx.disagreements_checked += 1
            bad = got[0] if got[0] != want else got[1]
            if old_text:
                ctx.violation('counterexample',
                              'a line break inside a header field or variable name is written raw again (the text is the one of '
                              'print_dimacs_as_found): the DIMACS output has a non-comment line that is neither the problem line nor a '
                              'clause%s' % ('' if roundtrip_ok else ', and cnfgen\'s own reader does not give the formula back'),
                              dict(input=descr, text=text[:400], expected_text=mp[:400], read_back=got, shape=defect,
                                   theorem='dimacs_roundtrip / print_shape hold of print_dimacs; dimacs_header_newline_refuted / '
                                           'print_shape_refuted describe this text'),
                              True, site=FINDING_SITE, cls=FINDING_CLS)
            elif broken:
                ctx.violation('counterexample', 'round trip / shape fails on a header or name with a line break: %s' % (defect or bad[:2]),
                              dict(input=descr, text=text[:400], model_text=mp[:400], read_back=got, shape=defect), True,
                              site='to_dimacs_file', cls='line-break-other')
            else:
                kind = 'raises-' + bad[1] if bad[0] == 'exc' else 'roundtrip' if not roundtrip_ok else 'shape'
                ctx.violation('counterexample', 'DIMACS round trip or output shape fails: %s' % (defect or bad[:2]),
                              dict(input=descr, text=text[:400], read_back=[g if g != want else 'same formula' for g in got], shape=defect),
                              True, site='dimacs-roundtrip', cls=kind)
            continue
        if broken:
            ctx.tally('line-break inputs on which the property holds', True)
        if not same_text:
            ctx.disagreements_checked += 1
            i = next((j for j in range(min(len(mp), len(text))) if mp[j] != text[j]), min(len(mp), len(text)))
            ctx.violation('correspondence', 'DIMACS text differs from the model (Dimacs.v print_dimacs) although it reads back correctly%s; '
                          'theorems dimacs_roundtrip / print_shape no longer cover the code'
                          % (' (it is the text of the writer before the repair of D4, harmless on this input)' if old_text else ''),
                          dict(input=descr, first_difference_at=i, implementation=text[max(0, i - 40):i + 60],
                               model=mp[max(0, i - 40):i + 60], correspondence='Dimacs.v print_dimacs <-> to_dimacs_file'),
                          False, site='to_dimacs_file', cls='text-differs')
            continue
        if mpar is not None:
            for u, (g, m) in enumerate(zip(got, mpar)):
                if g != m:
                    ctx.disagreements_checked += 1
                    ctx.violation('correspondence', 'reader verdicts differ on a written formula',
                                  dict(input=descr, universal_newlines=bool(u), implementation=g if g != want else 'same formula', model=m),
                                  False, site='parse_dimacs', cls='verdict-on-written')
                    break


def php_100_40(ctx, cnfgen):
    CNF = cnfgen.CNF
    F = cnfgen.PigeonholePrinciple(100, 40)
    text = F.to_dimacs()
    cl = [list(c) for c in F]
    r = ctx.model.batch([cmd('print_dimacs', None, None, F.number_of_variables(), cl), cmd('parse_dimacs', False, text)])
    ctx.count('formulas', ('php 100 40', False, False, False), True)
    ctx.tally('formula class', 'huge')
    if r[0] != text or r[1] != ['ok', F.number_of_variables(), cl] or impl_read(CNF, text, False) != r[1]:
        ctx.violation('correspondence', 'php 100 40: text or read-back differs from the model',
                      dict(input=dict(formula='php 100 40')), False, site='to_dimacs_file', cls='text-differs')


# --------------------------------------------------------------------------
# streams (b), (c): texts
# --------------------------------------------------------------------------
WS = [' ', ' ', ' ', ' ', '  ', '\t', ' \t ', '\x0b', '\x0c', '\x1c', '\x1f', '\x85', '\xa0']
JUNK = ['x', '1a', 'a1', '--1', '1__0', '_1', '1_', '+', '-', '+-1', '1.0', '0x1', '1e3', '1,2', '\xb2', '\x00', '1\x002', '%', 'p', 'c',
        '1-', '0-', '\xd9\xa3']


def render_lit(rng, l, fancy):
    if not fancy:
        return str(l)
    s = str(abs(l))
    r = rng.random()
    if r < 0.15 and len(s) >= 2:
        s = s[0] + '_' + s[1:]
    elif r < 0.3:
        s = '0' * rng.randint(1, 3) + s
    elif r < 0.4 and len(s) >= 3:
        s = '_'.join(s)
    if l < 0:
        return '-' + s
    return ('+' + s) if rng.random() < 0.3 else s


def base_text(rng):
    """a valid text in a loose style: returns (list of lines as token lists with separators, n, clauses)"""
    n = rng.choice([0, 1, 2, 3, 5, 9, 12, 120])
    m = rng.randint(0, 6)
    clauses = []
    for _ in range(m):
        w = rng.choice([0, 1, 2, 3, 4]) if n else 0
        clauses.append([rng.choice([1, -1]) * rng.randint(1, n) for _ in range(w)])
    fancy = rng.random() < 0.3
    loose = rng.random() < 0.5
    lines = []
    for _ in range(rng.choice([0, 0, 1, 2])):
        lines.append(rng.choice(['c a comment', 'c', 'c p cnf 1 1', 'comment 1 2 0', '', '   ', ' c indented', 'c\t1 0']))
    sep = (lambda: rng.choice(WS)) if loose else (lambda: ' ')
    lines.append('p' + sep() + 'cnf' + sep() + render_lit(rng, n, fancy).lstrip('+') + sep() + str(m))
    toks = []
    for c in clauses:
        toks.extend(render_lit(rng, l, fancy) for l in c)
        toks.append(rng.choice(['0', '0', '0', '-0', '00', '+0']) if fancy else '0')
    if loose:
        cur = []
        for t in toks:
            cur.append(t)
            if rng.random() < 0.35:
                lines.append((rng.choice(['', '', ' ', '\t']) + sep().join(cur) + rng.choice(['', '', ' ', ' \t'])))
                cur = []
                if rng.random() < 0.1:
                    lines.append(rng.choice(['', 'c mid comment', '  ']))
        if cur:
            lines.append(sep().join(cur))
    else:
        cur = []
        for t in toks:
            cur.append(t)
            if t == '0':
                lines.append(' '.join(cur))
                cur = []
        if cur:
            lines.append(' '.join(cur))
    return lines, n, clauses


def join_lines(rng, lines):
    eol = rng.choice(['\n', '\n', '\n', '\n', '\r\n', '\r', 'mixed'])
    out = []
    for l in lines:
        out.append(l + (rng.choice(['\n', '\r\n', '\r']) if eol == 'mixed' else eol))
    t = ''.join(out)
    if rng.random() < 0.2 and t:
        t = t.rstrip('\r\n')
    return t, eol


def spec_index(lines):
    for i, l in enumerate(lines):
        if l.strip().startswith('p'):
            return i
    return None


def mutate(rng, lines, n, clauses):
    """one mutation of a valid text: returns (label, new lines)"""
    lines = list(lines)
    si = spec_index(lines)
    data = [i for i in range(len(lines)) if i > (si if si is not None else -1) and lines[i].strip() and not lines[i].strip().startswith('c')]
    muts = ['none', 'none', 'drop-token', 'extra-p', 'dup-p', 'lit-n+1', 'lit-neg-n+1', 'missing-0', 'wrong-m+', 'wrong-m-', 'junk',
            '1_0', '+3', 'blank', 'comment', 'tabs', 'percent', 'truncate', 'delete-line', 'swap-lines', 'p-variant',
            'huge', 'data-before-p', 'c-glued', 'no-p', 'extra-0', 'p-late', 'insert-ws-char']
    mu = rng.choice(muts)

    def edit_tokens(f):
        if not data:
            return False
        i = rng.choice(data)
        toks = lines[i].split()
        toks = f(toks)
        lines[i] = ' '.join(toks)
        return True
    if mu == 'drop-token':
        edit_tokens(lambda t: [x for j, x in enumerate(t) if j != rng.randrange(len(t))] if t else t)
    elif mu == 'extra-p':
        lines.insert(rng.randint(0, len(lines)), 'p cnf %d %d' % (n, len(clauses)))
    elif mu == 'dup-p' and si is not None:
        lines.insert(si + 1, lines[si])
    elif mu == 'lit-n+1':
        edit_tokens(lambda t: [str(n + 1)] + t)
    elif mu == 'lit-neg-n+1':
        edit_tokens(lambda t: t[:-1] + [str(-(n + 1 + rng.randint(0, 3)))] + t[-1:])
    elif mu == 'missing-0':
        if data:
            i = data[-1]
            toks = lines[i].split()
            if toks:
                lines[i] = ' '.join(toks[:-1])
    elif mu in ('wrong-m+', 'wrong-m-') and si is not None:
        toks = lines[si].split()
        if len(toks) == 4:
            toks[3] = str(len(clauses) + (1 if mu == 'wrong-m+' else -1))
            lines[si] = ' '.join(toks)
    elif mu == 'junk':
        j = rng.choice(JUNK)
        if not edit_tokens(lambda t: t[:rng.randint(0, len(t))] + [j] + t[:0]) and si is not None:
            lines.append(j)
    elif mu == '1_0':
        edit_tokens(lambda t: ['1_0'] + t)
    elif mu == '+3':
        edit_tokens(lambda t: ['+3'] + t)
    elif mu == 'blank':
        lines.insert(rng.randint(0, len(lines)), rng.choice(['', ' ', '\t', '\x0c', '\xa0 ']))
    elif mu == 'comment':
        lines.insert(rng.randint(0, len(lines)), rng.choice(['c x', 'c', 'cnf', 'c 1 2 0', ' c 5', 'c p cnf 2 2', 'c\x0b9']))
    elif mu == 'tabs':
        lines = [l.replace(' ', '\t') for l in lines]
    elif mu == 'percent':
        lines.extend(['%', '0'])
    elif mu == 'truncate':
        t = '\n'.join(lines)
        t = t[:rng.randint(0, len(t))]
        lines = t.split('\n')
    elif mu == 'delete-line' and lines:
        del lines[rng.randrange(len(lines))]
    elif mu == 'swap-lines' and len(lines) >= 2:
        i = rng.randrange(len(lines) - 1)
        lines[i], lines[i + 1] = lines[i + 1], lines[i]
    elif mu == 'p-variant' and si is not None:
        m = len(clauses)
        lines[si] = rng.choice(['p  cnf %d %d' % (n, m), 'p cnf %d' % n, 'p cnf %d %d 7' % (n, m), 'pcnf %d %d' % (n, m),
                                'p opb %d %d' % (n, m), 'P cnf %d %d' % (n, m), ' p cnf %d %d ' % (n, m), 'p cnf -1 %d' % m,
                                'p cnf %d -1' % n, 'p cnf %d.0 %d' % (n, m), 'pq r %d %d' % (n, m), 'p cnf +%d %d' % (n, m),
                                'p cnf %d_0 %d' % (n, m), 'p', 'p cnf', 'p cnf x y', 'p cnf %d %d' % (m, n), 'p\tcnf\t%d\t%d' % (n, m),
                                'p cnf 0%d 00%d' % (n, m), 'p cnf -0 %d' % m])
    elif mu == 'huge':
        k = rng.choice([4299, 4300, 4301, 5000])
        z = rng.choice(['0' * (k - 1) + '1', '1' * k, '-' + '0' * (k - 1) + '1', '1_' * (k // 2) + '1'])
        if rng.random() < 0.5 and si is not None:
            toks = lines[si].split()
            if len(toks) == 4:
                toks[2] = z
                lines[si] = ' '.join(toks)
        else:
            edit_tokens(lambda t: [z] + t)
    elif mu == 'data-before-p':
        lines.insert(0, rng.choice(['1 0', '0', 'x', '-1']))
    elif mu == 'c-glued':
        edit_tokens(lambda t: ['c' + t[0]] + t[1:] if t else t)
    elif mu == 'no-p' and si is not None:
        del lines[si]
    elif mu == 'extra-0':
        edit_tokens(lambda t: t + ['0'])
    elif mu == 'p-late' and si is not None:
        l = lines.pop(si)
        lines.append(l)
    elif mu == 'insert-ws-char' and lines:
        i = rng.randrange(len(lines))
        j = rng.randint(0, len(lines[i]))
        lines[i] = lines[i][:j] + rng.choice(['\x0b', '\x0c', '\x1c', '\x1d', '\x1e', '\x1f', '\x85', '\xa0', '\r', ' ', '\t']) + lines[i][j:]
    return mu, lines


ALPHA = list('0123456789') * 3 + list('   \n\n\n--') + list('+_pc') + list('\t\r\x0b\x0c\x1c\x85\xa0nfx%') + ['\x00', '\xb2', 'P', '.']


def random_text(rng):
    k = rng.choice([0, 1, 2, 5, 10, 20, 40, 80])
    t = ''.join(rng.choice(ALPHA) for _ in range(k))
    r = rng.random()
    if r < 0.6:
        t = 'p cnf %d %d\n' % (rng.randint(0, 12), rng.randint(0, 4)) + t
    elif r < 0.7:
        t = 'p cnf' + t
    return t


def compare_texts(ctx, CNF, stream, items):
    """items: [(text, meta)].  Runs model and implementation on each text under both conventions."""
    reqs = []
    for t, _ in items:
        reqs.append(cmd('parse_dimacs', False, t))
        reqs.append(cmd('parse_dimacs', True, t))
    reps = []
    k = 0
    while k < len(reqs):          # one driver call per 2 MB of text
        j, size = k, 0
        while j < len(reqs) and (j == k or size + len(reqs[j][2]) <= 2000000):
            size += len(reqs[j][2])
            j += 1
        reps.extend(ctx.model.batch(reqs[k:j]))
        k = j
    for i, (t, meta) in enumerate(items):
        nontrivial = any(l.strip() and not l.strip().startswith('c') for l in t.split('\n'))
        for u in (False, True):
            m = reps[2 * i + (1 if u else 0)]
            g = impl_read(CNF, t, u)
            ctx.count(stream, (t, u), nontrivial, sample=dict(text=t[:200], universal_newlines=u, meta=meta, verdict=m[:2] + ['...'] if m[0] == 'ok' else m))
            ctx.tally(stream + ' model verdict', m[0] if m[0] == 'ok' else m[1])
            if g == m:
                continue
            ctx.disagreements_checked += 1
            report_text_disagreement(ctx, CNF, stream, t, u, meta, g, m)


def disagreement_class(g, m):
    if g[0] == 'exc':
        return 'raises-' + g[1]
    if g[0] == 'ok' and m[0] == 'err':
        return 'accepts-rejected-' + str(m[1])
    if g[0] == 'ok' and m[0] == 'ok':
        return 'different-formula'
    if g[0] == 'err' and m[0] == 'ok':
        return 'rejects-accepted-' + str(g[1])
    return 'different-error'


def shrink(ctx, CNF, text, u, cls):
    """delete lines, then tokens, while the disagreement of the same class persists"""
    def candidates(t):
        ls = t.split('\n')
        for i in range(len(ls)):
            yield '\n'.join(ls[:i] + ls[i + 1:])
        for i, l in enumerate(ls):
            toks = l.split(' ')
            if len(toks) > 1:
                for j in range(len(toks)):
                    yield '\n'.join(ls[:i] + [' '.join(toks[:j] + toks[j + 1:])] + ls[i + 1:])
    cur = text
    if len(text) > 20000 or len(text.split()) > 1500:
        return text          # every candidate is sent to the model: not on the large texts of the thresholds stream
    for _ in range(60):
        cands = [c for c in dict.fromkeys(candidates(cur)) if c != cur and latin1(c)]
        if not cands:
            break
        reps = ctx.model.batch([cmd('parse_dimacs', u, c) for c in cands])
        nxt = None
        for c, m in zip(cands, reps):
            g = impl_read(CNF, c, u)
            if g != m and disagreement_class(g, m) == cls:
                nxt = c
                break
        if nxt is None:
            break
        cur = nxt
    return cur


def report_text_disagreement(ctx, CNF, stream, t, u, meta, g, m):
    cls = disagreement_class(g, m)
    try:
        small = shrink(ctx, CNF, t, u, cls)
        gs, ms = impl_read(CNF, small, u), ctx.model.call(Sym('parse_dimacs'), u, small)
    except Exception:  # noqa
        small, gs, ms = t, g, m
    def brief(v):
        return v if len(str(v)) < 4000 else [v[0], v[1], '%d clauses' % len(v[2])] if v[0] == 'ok' else str(v)[:4000]
    rp = dict(input=dict(text=small if len(small) <= 20000 else small[:10000] + '\n... (%d characters) ...\n' % len(small) + small[-2000:],
                         universal_newlines=u, original_text=t[:500], mutation=meta),
              implementation=brief(gs), model=brief(ms))
    if gs[0] == 'exc':
        ctx.violation('counterexample', 'the DIMACS reader failed with %s (not ValueError) on a text' % gs[1], rp, True,
                      site='parse_dimacs', cls=cls)
    elif gs[0] == 'ok':
        # the model's reader is proved sound and complete w.r.t. its own verdict (parse_sound): a formula the model does not
        # read from this text is not "exactly the clauses written with the declared counts and range"
        ctx.violation('counterexample', 'the DIMACS reader accepted a text as %r; the verified reader says %r' % (gs[:2], ms[:2]),
                      dict(rp, theorem='parse_sound'), True, site='parse_dimacs', cls=cls)
    else:
        ctx.violation('correspondence', 'reader verdicts differ (implementation %r, model %r); Dimacs.v parse_dimacs no longer follows the code'
                      % (brief(gs)[:3], brief(ms)[:3]), dict(rp, correspondence='Dimacs.v parse_dimacs <-> parsedimacs.parse_dimacs'), False,
                      site='parse_dimacs', cls=cls)


def run_texts(ctx, cnfgen, quick):
    CNF = cnfgen.CNF
    rng = ctx.rng
    items = []
    fixed = ['', '\n', 'c only\n', 'p cnf 0 0', 'p cnf 0 0\n', 'p cnf 0 1\n0\n', 'p cnf 1 1\n1 0', 'p cnf 1 1\n1 0\n\n\n',
             'p cnf 2 2\n1 2\n0 -1\n-2 0', 'p cnf 2 1\n1 2 0 ', 'p cnf 3 1\n1 0 2 0', 'p cnf 2 1\n1 3 0\n', 'p cnf 2 1\n1 -3 0\n',
             'c a\rp cnf 2 1\r\n1 \x0b2\x1c 0\x85\n', 'p cnf 1 1\n%\n0\n', 'p cnf 1 1\n1 0\n%\n0\n', '\xef\xbb\xbfp cnf 1 1\n1 0\n',
             'p cnf 10 1\n1_0 +3 -0\n', 'p cnf 1 1\n1\n\n0\n', 'p cnf 1 2\n1 0\n', 'p cnf 1 0\n1 0\n', 'p cnf 1 1\n1 0\np cnf 1 1\n',
             'p cnf 1 1 \n 1 0', 'pcnf 1 1\n1 0', 'p cnf 1\n1 0', 'cp cnf 1 1\n1 0', 'p cnf 1 1\nc 1 0\n-1 0']
    for t in fixed:
        items.append((t, 'fixed'))
        ctx.tally('mutation', 'fixed')
    for _ in range(700 if quick else 5000):
        lines, n, clauses = base_text(rng)
        mu, lines2 = mutate(rng, lines, n, clauses)
        t, eol = join_lines(rng, lines2)
        if not latin1(t):
            continue
        ctx.tally('mutation', mu)
        ctx.tally('line ending', eol)
        items.append((t, mu))
    compare_texts(ctx, CNF, 'texts-mutated', items)
    items = []
    for _ in range(700 if quick else 5000):
        items.append((random_text(rng), 'random'))
    compare_texts(ctx, CNF, 'texts-random', items)


# --------------------------------------------------------------------------
# primitives
# --------------------------------------------------------------------------
TOKCH = list('0123456789') * 4 + list('__+-') + list('ax. \xb2\x00')


def run_primitives(ctx, quick):
    rng = ctx.rng
    toks = ['0', '-0', '+0', '00', '1_0', '1__0', '_1', '1_', '+', '-', '', '+-1', '-+1', '0_0', '9' * 30, '-' + '9' * 30,
            '0' * 4300, '0' * 4301, '1_' * 2150 + '1', '-' + '1' * 4300, '-' + '1' * 4301, '+' + '0' * 4301]
    for _ in range(600 if quick else 6000):
        k = rng.choice([1, 1, 2, 3, 4, 6, 10])
        toks.append(''.join(rng.choice(TOKCH) for _ in range(k)))
    toks = [t for t in toks if not any(ch.isspace() for ch in t)]   # int() is only ever given tokens of split()
    reps = ctx.model.batch([cmd('parse_int', t) for t in toks])
    for t, r in zip(toks, reps):
        try:
            want = ['some', int(t)]
        except ValueError:
            want = None
        ctx.count('primitive-int', t, bool(t))
        ctx.tally('int() verdict', 'value' if want else 'ValueError')
        if r != want:
            ctx.violation('correspondence', 'parse_int (Text.v) differs from int() on a token', dict(input=dict(token=t[:80]), model=r, implementation=want),
                          False, site='Text.parse_int', cls='differs')
    strs = []
    for _ in range(400 if quick else 4000):
        k = rng.choice([0, 1, 3, 8, 20])
        strs.append(''.join(rng.choice(ALPHA) for _ in range(k)))
    reps = ctx.model.batch([cmd('split_ws', s) for s in strs] + [cmd('strip', s) for s in strs] +
                           [cmd('read_lines', False, s) for s in strs] + [cmd('read_lines', True, s) for s in strs])
    k = len(strs)
    for i, s in enumerate(strs):
        ctx.count('primitive-split', s, bool(s))
        p = tmp_path('lines.txt')
        with open(p, 'w', newline='', encoding='utf-8') as f:
            f.write(s)
        with open(p, 'r', encoding='utf-8') as f:
            uni = [l[:-1] if l.endswith('\n') else l for l in f.readlines()]
        want = [s.split(), s.strip(), [l[:-1] if l.endswith('\n') else l for l in io.StringIO(s).readlines()], uni]
        got = [reps[i], reps[k + i], reps[2 * k + i], reps[3 * k + i]]
        if want != got:
            ctx.violation('correspondence', 'split_ws / strip / read_lines (Text.v) differ from str.split / str.strip / readlines',
                          dict(input=dict(text=s), model=got, implementation=want), False, site='Text.split', cls='differs')
    zs = [0, 1, -1, 9, 10, -10, 99, 100, 12345678901234567890, -10 ** 40] + [rng.randint(-10 ** 12, 10 ** 12) for _ in range(200)]
    reps = ctx.model.batch([cmd('print_Z', z) for z in zs])
    for z, r in zip(zs, reps):
        ctx.count('primitive-str', z, True)
        if r != str(z):
            ctx.violation('correspondence', 'print_Z differs from str(int)', dict(input=dict(z=z), model=r), False, site='Text.print_Z', cls='differs')


# --------------------------------------------------------------------------
# stream (d): robustness outside the modelled alphabet (no model comparison)
# --------------------------------------------------------------------------
EXOTIC = ['\u0663', '\uff13', '\u0be7', '\xb2', '\u2003', '\u3000', '\u2028', '\u2029', '\ufeff', '\u200b', '\u2212', '\u2010', '\u0301', '\U0001f600', '\ud800', '\x00', '\xa0', '\u180e', '\u0966', '\U0001d7d8', '\u2460', '\xbd', '\x85', '\u1680']


def run_unicode(ctx, cnfgen, quick):
    CNF = cnfgen.CNF
    rng = ctx.rng
    for _ in range(300 if quick else 3000):
        lines, n, clauses = base_text(rng)
        t = '\n'.join(lines) + '\n'
        for _ in range(rng.randint(1, 3)):
            j = rng.randint(0, len(t))
            ch = rng.choice(EXOTIC)
            t = t[:j] + ch + (t[j + 1:] if rng.random() < 0.5 else t[j:])
        encodable = True
        try:
            t.encode('utf-8')
        except UnicodeEncodeError:
            encodable = False
        for u in ((False, True) if encodable else (False,)):
            g = impl_read(CNF, t, u)
            ctx.count('unicode', (t, u), True, sample=dict(text=t[:120], verdict=g[:2]))
            ctx.tally('unicode verdict', g[0] if g[0] != 'err' else 'ValueError')
            bad = None
            if g[0] == 'exc':
                bad = 'raised %s' % g[1]
            elif g[0] == 'ok' and not all(1 <= abs(l) <= g[1] for c in g[2] for l in c):
                bad = 'accepted a literal outside the declared range'
            if bad:
                ctx.violation('counterexample', 'DIMACS reader on a text with exotic Unicode: ' + bad,
                              dict(input=dict(text=t, universal_newlines=u), implementation=g), True, site='parse_dimacs',
                              cls='unicode-' + (g[1] if g[0] == 'exc' else 'range'))
    # raw bytes (possibly invalid UTF-8) in a file
    for _ in range(100 if quick else 1000):
        k = rng.choice([1, 5, 20, 60])
        b = b'p cnf 3 1\n' * rng.randint(0, 1) + bytes(rng.choice([rng.randrange(256), ord(rng.choice('0123 -\n'))]) for _ in range(k))
        p = tmp_path('raw.cnf')
        with open(p, 'wb') as f:
            f.write(b)
        try:
            F = CNF.from_file(p)
            v = 'formula'
            if not all(1 <= abs(l) <= F.number_of_variables() for c in F for l in c):
                v = 'exc'
        except ValueError:
            v = 'ValueError'
        except Exception as e:  # noqa
            v = 'exc'
            ctx.violation('counterexample', 'DIMACS reader raised %s on a file of raw bytes' % type(e).__name__,
                          dict(input=dict(bytes=list(b)), implementation=[type(e).__name__, str(e)[:100]]), True,
                          site='parse_dimacs', cls='bytes-' + type(e).__name__)
        ctx.count('raw-bytes', bytes(b).hex(), True)
        ctx.tally('raw bytes verdict', v)


def run_unicode_write(ctx, cnfgen, quick):
    """header fields and variable names outside the 8-bit alphabet of the model (implementation only): the written text
    must read back as the formula and have the documented shape, through a StringIO and through a file"""
    CNF = cnfgen.CNF
    rng = ctx.rng
    chars = [ch for ch in EXOTIC if not 0xd800 <= ord(ch) <= 0xdfff] + ['\n', '\r', '\r\n', ' ', 'c', 'p', '1', '0', 'x', '\u0085', '\u000c']
    for i in range(60 if quick else 600):
        def txt():
            return ''.join(rng.choice(chars) for _ in range(rng.choice([1, 2, 4, 7])))
        F = CNF(description=txt())
        F.header[txt()] = txt()
        for _ in range(rng.randint(1, 3)):
            try:
                F.new_variable(txt())
            except ValueError:
                pass
        if F.number_of_variables() < 2:
            F.update_variable_number(2)
        F.add_clause([1, -2])
        F.add_clause([])
        n, clauses = F.number_of_variables(), [list(c) for c in F]
        for to_file in (False, True):
            descr = dict(header=[[str(k), str(v)] for k, v in F.header.items()], names=list(F.all_variable_labels()),
                         n=n, clauses=clauses, via='file' if to_file else 'StringIO')
            ctx.count('unicode-write', (i, to_file), True, sample=descr)
            try:
                text = impl_write(F, True, True, to_file)
            except Exception as e:  # noqa
                ctx.violation('counterexample', 'writing a formula with Unicode header / names to DIMACS raised %s' % type(e).__name__,
                              dict(input=descr, implementation=[type(e).__name__, str(e)[:120]]), True, site='to_dimacs_file',
                              cls='unicode-raises-' + type(e).__name__)
                continue
            got = [impl_read(CNF, text, False), impl_read(CNF, text, True)]
            defect = shape_defect(text, n, clauses)
            if got != [['ok', n, clauses]] * 2 or defect is not None:
                ctx.disagreements_checked += 1
                ctx.violation('counterexample', 'DIMACS round trip or shape fails with Unicode header / names: %s' % (defect or got),
                              dict(input=descr, text=text[:400], read_back=got, shape=defect), True, site='to_dimacs_file', cls='unicode-roundtrip')


# --------------------------------------------------------------------------
# command line (thorough): cnfgen -q dimacs FILE
# --------------------------------------------------------------------------
def run_cli(ctx, cnfgen):
    CNF = cnfgen.CNF
    rng = ctx.rng
    texts = []
    for _ in range(12):
        lines, n, clauses = base_text(rng)
        mu, lines2 = mutate(rng, lines, n, clauses)
        t, _ = join_lines(rng, lines2)
        if latin1(t) and '\x00' not in t:
            texts.append((t, mu))
    reps = ctx.model.batch([cmd('parse_dimacs', True, t) for t, _ in texts])
    env = dict(os.environ, PYTHONPATH=lib.REPO)
    for (t, mu), m in zip(texts, reps):
        p = tmp_path('cli.cnf')
        with open(p, 'w', newline='', encoding='utf-8') as f:
            f.write(t)
        code = 'import sys; sys.argv = ["cnfgen", "-q", "dimacs", %r]; from cnfgen.clitools.cnfgen import main; main()' % p
        r = subprocess.run([lib.PY, '-c', code], cwd=lib.REPO, env=env, stdout=subprocess.PIPE, stderr=subprocess.PIPE, timeout=120)
        out = r.stdout.decode('utf-8', 'replace')
        err = r.stderr.decode('utf-8', 'replace')
        ctx.count('cli', t, True, sample=dict(text=t[:100], exit=r.returncode))
        ctx.tally('cli outcome', 'formula' if r.returncode == 0 else 'error exit')
        if m[0] == 'ok':
            g = impl_read(CNF, out, False) if r.returncode == 0 else ['exit', r.returncode, err[-200:]]
            if g != m:
                ctx.violation('correspondence', '`cnfgen -q dimacs FILE` does not reproduce the formula of the file',
                              dict(input=dict(text=t, mutation=mu), implementation=g, model=m), False, site='cli-dimacs', cls='formula')
        else:
            if r.returncode == 0 or 'Traceback' in err:
                ctx.violation('counterexample', '`cnfgen dimacs FILE` on a malformed file: exit %d %s' % (r.returncode, 'with traceback' if 'Traceback' in err else ''),
                              dict(input=dict(text=t, mutation=mu), implementation=[r.returncode, err[-300:]], model=m), True,
                              site='cli-dimacs', cls='malformed-accepted' if r.returncode == 0 else 'traceback')

# --------------------------------------------------------------------------
# command line, writing: every registered family at realistic sizes
# --------------------------------------------------------------------------
def cli_child(argv, stdin_text=None):
    """run the real command line in a fresh interpreter: (exit code, stdout bytes, stderr text)"""
    env = dict(os.environ, PYTHONPATH=lib.REPO, CNFGEN_VERIF='1')
    code = 'import sys; sys.argv = %r; from cnfgen.clitools.cnfgen import main; main()' % (argv,)
    r = subprocess.run([lib.PY, '-W', 'ignore', '-c', code], cwd=lib.REPO, env=env, stdout=subprocess.PIPE, stderr=subprocess.PIPE,
                       input=stdin_text, timeout=600)
    return r.returncode, r.stdout, r.stderr.decode('utf-8', 'replace')


def run_cli_write(ctx, cnfgen, quick):
    """`cnfgen <family> ...` with the output options that select DIMACS (default, -of dimacs, -o FILE.cnf, -o FILE -of dimacs,
    -q, --varnames), then `cnfgen dimacs FILE` on the written file: the bytes written by the real command line must be
    print_dimacs (model) of the header, names, variable count and clauses of the formula object the command line builds."""
    import importlib
    import shutil
    from concurrent.futures import ThreadPoolExecutor
    from cnfgen.clitools.cnfgen import cli as cnfgen_cli
    fams = []
    for m in ('fam_c01', 'fam_c02', 'fam_c03'):
        try:
            fams += importlib.import_module(m).FAMILIES
        except ImportError:
            ctx.note('registry %s not present' % m)
    if not fams:
        return
    per_family = 2 if quick else 4
    budget = 600000 if quick else 1500000      # clauses printed by the model over the whole stream
    cap = 60000 if quick else 200000           # per instance (the char-list model needs ~0.5 kB per clause)
    tmp = tempfile.mkdtemp(prefix='c06cli-')
    jobs = []
    ndirs = 0
    t_start = time.time()

    def formula_of(argv):
        """the formula object the command line builds (in-process, nothing is written)"""
        try:
            return cnfgen_cli(['cnfgen'] + argv, mode='formula')
        except BaseException as e:  # noqa -- CLIError, SystemExit of argparse: the command line refuses these parameters
            try:
                from cnfgen.clitools import msg
                msg._prefix = ''          # msg_prefix() does not restore its state after an exception
            except Exception:  # noqa
                pass
            return None

    for fam in fams:
        if not fam.get('cli'):
            continue
        ps = fam['params'](ctx.rng, 'quick' if quick else 'thorough')
        if quick:
            cands = [q for q in ps if q.get('big')][:1] + ps[-3:] + ps[len(ps) // 3:len(ps) // 3 + 1]
        else:
            cands = [q for q in ps if q.get('big')][:4] + ps[-8:] + ps[len(ps) // 3:len(ps) // 3 + 2]
        built = []
        for q in cands:
            ndirs += 1                      # one directory per candidate: `cli` writes graph files with fixed names
            sub = os.path.join(tmp, 'j%d' % ndirs)
            os.makedirs(sub, exist_ok=True)
            try:
                argv = fam['cli'](q, sub)
            except Exception:  # noqa
                argv = None
            if argv is None:
                continue
            argv = [str(a) for a in argv]
            F = formula_of(argv)
            if F is None:
                ctx.tally('cli-write: command line refuses the parameters', fam['name'])
                continue
            if any(b[1] == argv for b in built):
                continue
            built.append((len(F), argv, F, sub))
        if any(b[0] <= cap for b in built):
            built = [b for b in built if b[0] <= cap]
        built.sort(key=lambda b: -b[0])
        for size, argv, F, sub in built[:per_family]:
            jobs.append(dict(fam=fam['name'], argv=argv, F=F, sub=sub))
    # the variants, rotated over the jobs (all four for every job in the thorough tier)
    variants = ['default', 'of-dimacs-varnames', 'quiet-o-file.cnf', 'o-file-of-dimacs-varnames']
    runs = []
    spent = 0
    for i, j in enumerate(jobs):
        for v in ([variants[i % 4]] if quick else [variants[i % 4], variants[(i + 2) % 4]]):
            if len(j['F']) > cap or (spent + len(j['F']) > budget and len(j['F']) > 20000):
                ctx.tally('cli-write skipped (size budget of the stream)', j['fam'])
                continue
            spent += len(j['F'])
            out = os.path.join(j['sub'], 'out-%d.cnf' % len(runs)) if v == 'quiet-o-file.cnf' else os.path.join(j['sub'], 'out-%d' % len(runs))
            opts = {'default': [], 'of-dimacs-varnames': ['-of', 'dimacs', '--varnames'], 'quiet-o-file.cnf': ['-q', '-o', out],
                    'o-file-of-dimacs-varnames': ['-o', out, '-of', 'dimacs', '--varnames']}[v]
            runs.append(dict(j, variant=v, opts=opts, out=out if '-o' in opts else None,
                             header='-q' not in opts, names='--varnames' in opts))
    t_sel = time.time()
    with ThreadPoolExecutor(max_workers=4) as ex:
        results = list(ex.map(lambda r: cli_child(['cnfgen'] + r['opts'] + r['argv']), runs))
    t_run = time.time()
    reqs = []
    for r, (code, out, err) in zip(runs, results):
        F = r['F']
        r['n'], r['clauses'] = F.number_of_variables(), [list(c) for c in F]
        r['labels'] = list(F.all_variable_labels()) if r['names'] else None
        F.header['command line'] = 'cnfgen ' + ' '.join(r['opts'] + r['argv'])      # as cli() records it for this argv
        r['hdr'] = header_for_model(F) if r['header'] else None
        r['code'], r['err'] = code, err
        if r['out'] is not None:
            try:
                with open(r['out'], 'r', newline='', encoding='utf-8') as f:
                    r['text'] = f.read()
            except OSError:
                r['text'] = None
            r['stdout'] = out.decode('utf-8', 'replace')
        else:
            r['text'] = out.decode('utf-8', 'replace')
            r['stdout'] = ''
        reqs.append(cmd('print_dimacs', opt(r['hdr']), opt(r['labels']), r['n'], r['clauses']))
        reqs.append(cmd('parse_dimacs', True, r['text'] if r['text'] is not None and latin1(r['text']) else ''))
    reps = []
    for k in range(0, len(reqs), 40):          # 20 command lines per driver call
        reps.extend(ctx.model.batch(reqs[k:k + 40]))
    reread = []
    for k, r in enumerate(runs):
        mp, mr = reps[2 * k], reps[2 * k + 1]
        descr = dict(argv=['cnfgen'] + r['opts'] + r['argv'], family=r['fam'], variant=r['variant'], n=r['n'], clauses='%d clauses' % len(r['clauses']))
        ctx.count('cli-write', (r['fam'], tuple(r['opts'] + r['argv'])), len(r['clauses']) > 0, sample=descr)
        ctx.tally('cli-write family', r['fam'])
        ctx.tally('cli-write variant', r['variant'])
        ctx.tally('cli-write clauses', '0' if not r['clauses'] else '1-999' if len(r['clauses']) < 1000 else '1000-99999' if len(r['clauses']) < 100000 else '100000+')
        if r['code'] != 0 or 'Traceback' in r['err'] or r['text'] is None:
            ctx.disagreements_checked += 1
            ctx.violation('counterexample', 'the command line exits with %d%s on parameters for which it builds a formula' %
                          (r['code'], ' and a traceback' if 'Traceback' in r['err'] else ''),
                          dict(input=descr, implementation=[r['code'], r['err'][-400:]]), True, site='cli-write', cls='exit-%d' % r['code'])
            continue
        if is_error(mp) or is_error(mr):
            ctx.violation('correspondence', 'model error', dict(input=descr, model=[mp if is_error(mp) else 'ok', mr if is_error(mr) else 'ok']),
                          False, site='model-error', cls='cli-write')
            continue
        if r['out'] is not None and r['stdout'] != '':
            ctx.violation('counterexample', 'with -o FILE the command line also writes to standard output', dict(input=descr, stdout=r['stdout'][:200]),
                          True, site='cli-write', cls='stdout-not-empty')
            continue
        if mp != r['text']:
            ctx.disagreements_checked += 1
            i = next((q for q in range(min(len(mp), len(r['text']))) if mp[q] != r['text'][q]), min(len(mp), len(r['text'])))
            if mr != ['ok', r['n'], r['clauses']]:
                ctx.violation('counterexample', 'the DIMACS text written by the command line does not denote the formula it built '
                              '(verified reader: %r)' % (mr[:2],), dict(input=descr, first_difference_at=i, implementation=r['text'][max(0, i - 40):i + 80],
                                                                        model=mp[max(0, i - 40):i + 80], theorem='parse_sound'), True,
                              site='cli-write', cls='denotation')
            else:
                ctx.violation('correspondence', 'the DIMACS text written by the command line differs from the model (Dimacs.v print_dimacs)',
                              dict(input=descr, first_difference_at=i, implementation=r['text'][max(0, i - 40):i + 80], model=mp[max(0, i - 40):i + 80],
                                   correspondence='Dimacs.v print_dimacs <-> cnfgen command line output'), False, site='cli-write', cls='text-differs')
            continue
        if r['out'] is not None:
            reread.append(r)
    # `cnfgen dimacs FILE` on the files just written: the same variables and clauses, written again
    reread = reread[:6] if quick else reread[:60]
    rr = []
    for i, r in enumerate(reread):
        opts = [[], ['-q'], ['--varnames']][i % 3]
        argv = opts + ['dimacs', r['out']]
        F2 = formula_of(argv)
        rr.append(dict(r=r, argv=argv, F2=F2, header='-q' not in opts, names='--varnames' in opts))
    with ThreadPoolExecutor(max_workers=4) as ex:
        results = list(ex.map(lambda x: cli_child(['cnfgen'] + x['argv']), rr))
    reqs = []
    for x in rr:
        F2 = x['F2']
        if F2 is None:
            reqs.append(cmd('print_Z', 0))
            continue
        F2.header['command line'] = 'cnfgen ' + ' '.join(x['argv'])
        reqs.append(cmd('print_dimacs', opt(header_for_model(F2) if x['header'] else None),
                        opt(list(F2.all_variable_labels()) if x['names'] else None), F2.number_of_variables(), [list(c) for c in F2]))
    reps = ctx.model.batch(reqs) if reqs else []
    for x, (code, out, err), mp in zip(rr, results, reps):
        r = x['r']
        descr = dict(argv=['cnfgen'] + x['argv'], file_written_by=['cnfgen'] + r['opts'] + r['argv'], n=r['n'], clauses='%d clauses' % len(r['clauses']))
        ctx.count('cli-reread', tuple(x['argv']), len(r['clauses']) > 0, sample=descr)
        text = out.decode('utf-8', 'replace')
        F2 = x['F2']
        if F2 is None or code != 0 or 'Traceback' in err:
            ctx.disagreements_checked += 1
            ctx.violation('counterexample', '`cnfgen dimacs FILE` refuses (exit %d) a file that `cnfgen -o FILE` wrote' % code,
                          dict(input=descr, implementation=[code, err[-400:]]), True, site='cli-dimacs', cls='rejects-own-output')
            continue
        if [F2.number_of_variables(), [list(c) for c in F2]] != [r['n'], r['clauses']]:
            ctx.disagreements_checked += 1
            ctx.violation('counterexample', '`cnfgen dimacs FILE` reads another formula than the one `cnfgen -o FILE` wrote',
                          dict(input=descr, read=[F2.number_of_variables(), len(F2)]), True, site='cli-dimacs', cls='formula')
            continue
        if mp != text:
            ctx.disagreements_checked += 1
            i = next((q for q in range(min(len(mp), len(text))) if mp[q] != text[q]), min(len(mp), len(text)))
            ctx.violation('correspondence', 'the text written by `cnfgen dimacs FILE` differs from the model (Dimacs.v print_dimacs)',
                          dict(input=descr, first_difference_at=i, implementation=text[max(0, i - 40):i + 80], model=mp[max(0, i - 40):i + 80]),
                          False, site='cli-dimacs', cls='text-differs')
    shutil.rmtree(tmp, ignore_errors=True)
    ctx.note('cli-write: %.0f s choosing instances, %.0f s running %d command lines, %.0f s comparing'
             % (t_sel - t_start, t_run - t_sel, len(runs), time.time() - t_run))



# --------------------------------------------------------------------------
# thresholds: every size / index / width / count / length also at the values where a numeric threshold would bite
# (notes/LARGE_STREAMS.md).  Exact comparison with the model: the outputs stay small at these sizes.
# --------------------------------------------------------------------------
THRESHOLDS = [15, 16, 17, 63, 64, 65, 127, 128, 129, 255, 256, 257, 258, 300, 1000, 1025]
BLOCKS = [4095, 4096, 4097, 8191, 8192, 8193, 32768, 65535, 65536, 65537, 131071, 131072, 131073]
BIGINTS = [2 ** 15, 2 ** 16, 10 ** 6, 2 ** 31 - 1, 2 ** 31, 2 ** 31 + 1, 2 ** 32, 2 ** 40, 2 ** 53 + 1, 2 ** 63 - 1, 2 ** 63, 2 ** 64, 10 ** 18,
           10 ** 19]
QUICK_BLOCKS = [4096, 8192, 8193, 65536, 65537, 131072]
ALL_OPTS = [(h, nm, f) for h in (False, True) for nm in (False, True) for f in (False, True)]
NO_NAMES = [(h, False, f) for h in (False, True) for f in (False, True)]
BOTH_VIA = [(True, True, False), (True, True, True), (False, False, True)]


def build_thresholds(ctx, cnfgen, quick):
    """[(label, class, thunk, options)]"""
    CNF = cnfgen.CNF
    out = []

    def add(label, cls, thunk, options):
        out.append((label, cls, thunk, options))
        ctx.tally('thresholds kind', cls)

    def with_n(n, clauses):
        F = CNF()
        F.update_variable_number(n)
        for c in clauses:
            F.add_clause(c)
        return F
    # the number of variables / the value of a literal
    for t in THRESHOLDS + BLOCKS + BIGINTS:
        add('n = %d, literals +-%d and +-%d' % (t, t, t - 1), 'thr-literal',
            lambda t=t: with_n(t, [[t, -1], [-t], [t - 1, -t, t], [-(t - 1)], [1]]), NO_NAMES if t > 1025 else ALL_OPTS)
        add('n = %d, largest literal used %d' % (t + 2, t), 'thr-literal', lambda t=t: with_n(t + 2, [[-t, t], [2, -t]]), [(False, False, False), (True, False, True)])
    # the width of a clause: repeated and opposite literals far from the start
    for w in THRESHOLDS + [4096, 30000] + ([] if quick else [8192, 65536, 131073]):
        def wide(w=w):
            a = list(range(1, w))                     # w-1 distinct literals ...
            return CNF([a + [-(w - 1)], [-x for x in a] + [-1], [1, -1] * (w // 2) + [2] * (w % 2), [3]])
        add('clauses of %d literals (opposite pair at the far end, repeated literals)' % w, 'thr-width', wide, BOTH_VIA if w <= 1025 else [(False, False, True)])
    # the number of clauses, the position of an empty clause
    for m in THRESHOLDS + [4096, 8192] + ([] if quick else [65537, 131073]):
        def many(m=m):
            F = CNF()
            F.update_variable_number(7)
            for i in range(m):
                F.add_clause([] if i in (m - 1, m // 2) else [1 + i % 7, -(1 + (i * 3) % 7)])
            return F
        add('%d clauses (clause %d and the last one empty)' % (m, m // 2 + 1), 'thr-clauses', many, BOTH_VIA if m <= 1025 else [(True, False, True)])
    # the header: number of fields, length of a value / key / description, number of line breaks in a value
    for k in THRESHOLDS:
        def fields(k=k):
            F = CNF([[1, -2], [2]])
            for i in range(k - len(F.header)):
                F.header['field%d' % i] = 'v%d' % i
            return F
        add('header with %d fields' % k, 'thr-header-fields', fields, [(True, False, False), (True, True, True)])
    for t in THRESHOLDS + (QUICK_BLOCKS if quick else BLOCKS) + [100000]:
        def longval(t=t):
            F = CNF([[1, -2], [2]], description='d' * t)
            if t <= 1025 or not quick:
                F.header['k' * t] = 'v' * (t - 1) + ' '
            return F
        add('header field of %d characters' % t, 'thr-header-length', longval,
            [(True, False, False), (True, False, True)] if t <= 1025 or not quick else [(True, False, t % 2 == 0)])
    for t in THRESHOLDS + [4096, 65537] + ([] if quick else [8192, 131073]):
        add('description with %d line breaks' % t, 'thr-header-lines',
            lambda t=t: CNF([[1, -2], [2]], description='\n'.join('l%d' % i for i in range(t + 1))), [(True, False, True)] if t > 1025 else [(True, False, False), (True, False, True)])
    # variable names: length of a name, number of names
    for t in THRESHOLDS + (QUICK_BLOCKS if quick else BLOCKS) + [70000]:
        def longname(t=t):
            F = CNF()
            F.new_variable('y')
            F.new_variable('n' * t)
            if t <= 1025 or not quick:
                F.new_variable('z' * (t - 2) + ' 0')
            F.add_clause([1, -2])
            return F
        add('variable name of %d characters' % t, 'thr-name-length', longname,
            [(False, True, False), (True, True, True)] if t <= 1025 or not quick else [(False, True, t % 2 == 0)])
    for t in THRESHOLDS + [4096, 8192] + ([] if quick else [65537, 131073]):
        def manynames(t=t):
            F = CNF()
            F.new_block(t - 2, label='b_{}')
            F.new_variable('last but one')
            F.update_variable_number(t)
            F.add_clause([t, -(t - 1), 1])
            return F
        add('%d variables with names' % t, 'thr-name-count', manynames, [(False, True, False), (True, True, True)] if t <= 1025 else [(False, True, True)])
    return out


def threshold_texts(rng, quick):
    """[(text, kind)] -- reader inputs at the threshold sizes"""
    out = []
    for t in THRESHOLDS + [4096] + ([] if quick else [8192]):
        lits = [(-1) ** i * (1 + i % t) for i in range(t)]
        body = ' '.join(map(str, lits))
        out.append(('p cnf %d 1\n%s 0\n' % (t, body), 'one clause of t literals on one line'))
        out.append(('p cnf %d 1\n%s\n0\n' % (t, '\n'.join(map(str, lits))), 'one clause spread over t lines'))
        out.append(('p cnf %d %d\n%s' % (t, t, ''.join('%d 0\n' % l for l in lits)), 't unit clauses'))
        out.append(('p cnf %d %d\n%s' % (t, t, ' '.join('%d 0' % l for l in lits)), 't unit clauses on one line, no final newline'))
        out.append(('p cnf %d %d\n%s' % (t, t - 1, ''.join('%d 0\n' % l for l in lits)), 't clauses, t-1 declared'))
        out.append(('p cnf %d %d\n%s' % (t, t + 1, ''.join('%d 0\n' % l for l in lits)), 't clauses, t+1 declared'))
        out.append(('p cnf %d 2\n%d 0\n%d 0\n' % (t, t, -t), 'literal n = t'))
        out.append(('p cnf %d 2\n%d 0\n%d 0\n' % (t, t, t + 1), 'literal n+1 with n = t'))
        out.append(('p cnf %d 2\n%d 0\n%d 0\n' % (t, 1, -(t + 1)), 'literal -(n+1) with n = t'))
        out.append(('p cnf %d 1\n%s%d 0\n' % (t, '\n' * t, t), 't blank lines'))
        out.append(('%sp cnf %d 1\n%d 0\n' % ('c x\n' * t, t, t), 't comment lines'))
        out.append(('p cnf 3 1\n%sx 0\n' % ('1 0\n' * (t - 2)), 'bad literal at line t'))
        out.append(('c\n' * (t - 1) + '1 0\np cnf 1 1\n', 'data before the problem line at line t'))
        out.append(('p cnf 1 0\n' + 'c\n' * (t - 2) + 'p cnf 1 0\n', 'second problem line at line t'))
        out.append(('c\n' * (t - 1) + 'p cnf 1\n', 'bad problem line at line t'))
        out.append(('p cnf 5 1\n1%s-2%s0\n' % (' ' * t, '\t' * t), 'runs of t blanks'))
        out.append(('p cnf 5 1\n%s1 %s2 0%s\n' % (' ' * t, '0' * t, ' ' * t), 't leading zeros, line padded with t blanks'))
        out.append(('p cnf %s%d 1\n-%s3 0\n' % ('0' * t, 5, '0' * (t - 1)), 't leading zeros in the problem line'))
        out.append(('p cnf %d 1\n%s 0' % (t, ' '.join(str(t) for _ in range(t))), 'literal t repeated t times'))
    # physical lines of more than 65536 and 131072 characters
    w = 30000
    out.append(('p cnf %d 1\n%s 0\n' % (w, ' '.join(str((-1) ** i * (1 + (i * 7) % w)) for i in range(w))), 'one clause of 30000 literals on one line'))
    out.append(('c %s\np cnf 2 1\n1 -2 0\n' % ('1 0 ' * 35000), 'comment line of 140000 characters'))
    out.append(('p cnf 2 1%s\n1 -2 0\n' % (' ' * 70000), 'problem line padded to 70000 characters'))
    for t in BIGINTS:
        out.append(('p cnf %d 2\n%d -%d 0\n-%d 0\n' % (t, t, t, t - 1), 'n = literal = big'))
        out.append(('p cnf %d 1\n%d 0\n' % (t, t + 1), 'literal n+1, big'))
        out.append(('p cnf 1 %d\n1 0\n' % t, 'declared clause count big'))
    return out


def run_thresholds(ctx, cnfgen, quick):
    t0 = time.time()
    run_formulas(ctx, cnfgen, quick, formulas=build_thresholds(ctx, cnfgen, quick), stream='thresholds')
    items = threshold_texts(ctx.rng, quick)
    for _t, kind in items:
        ctx.tally('thresholds text kind', kind)
    compare_texts(ctx, cnfgen.CNF, 'thresholds-texts', items)
    ctx.note('thresholds: %.0f s' % (time.time() - t0))



# --------------------------------------------------------------------------
# huge: outputs of more than 8 MiB / 16 MiB, more than 65536 / 131072 clauses or comment lines.  The character-level
# model is too slow for these texts: the PROPERTY ITSELF is checked directly (write -> read back gives the same number
# of variables and the same clauses in order; one problem line with the true counts; every other line a comment or the
# tokens of one clause) -- the failing-input search of the framework applied to the input, in linear time.
# --------------------------------------------------------------------------
MIB = 1 << 20
VIAS = ('StringIO', 'name', 'name-by-extension', 'fileobj', 'stdout')


def write_via(F, via, header, names, path, fmt='dimacs', **kw):
    """write F (format fmt) in one of the ways to_file accepts and return the text exactly as stored;
    for 'name-by-extension' the path must carry the extension that selects fmt"""
    import sys
    if via == 'StringIO':
        s = io.StringIO()
        F.to_file(s, fileformat=fmt, export_header=header, export_varnames=names, **kw)
        return s.getvalue()
    if via == 'name':
        F.to_file(path, fileformat=fmt, export_header=header, export_varnames=names, **kw)
    elif via == 'name-by-extension':              # DIMACS is the documented default, .tex / .opb select the other two
        F.to_file(path, export_header=header, export_varnames=names, **kw)
    elif via == 'fileobj':
        with open(path, 'w', encoding='utf-8') as f:
            F.to_file(f, fileformat=fmt, export_header=header, export_varnames=names, **kw)
    elif via == 'stdout':                         # fileorname=None: the standard output of the process, here a real file
        old = sys.stdout
        try:
            with open(path, 'w', encoding='utf-8') as f:
                sys.stdout = f
                F.to_file(None, fileformat=fmt, export_header=header, export_varnames=names, **kw)
        finally:
            sys.stdout = old
    else:
        raise ValueError(via)
    with open(path, 'r', newline='', encoding='utf-8') as f:
        return f.read()


def scrambled_clauses(seed, m, w, lo, hi):
    """m clauses of w literals with absolute values in lo..hi, a fixed arithmetic scramble of (seed, i, j) (fast to build)"""
    span = hi - lo + 1
    a = (seed | 1) % 1000003
    return [[(lo + (a * (i * w + j) + 7919 * j + i) % span) * (1 if ((i + j) * a >> 3) & 1 else -1) for j in range(w)] for i in range(m)]


def direct_property(ctx, CNF, stream, descr, text, n, clauses, path=None, both=True):
    """the statement of C06 on one written text, without the model.  True when it holds.
    The text is read back from a StringIO and, when it is in a file, from the file given by name (both=False: only the latter)"""
    got = [impl_read(CNF, text, False)] if (both or path is None) else []
    if path is not None:
        try:
            G = CNF.from_file(path)
            got.append(['ok', G.number_of_variables(), [list(c) for c in G]])
        except Exception as e:  # noqa
            got.append(['exc' if not isinstance(e, ValueError) else 'err', type(e).__name__, str(e)[:120]])
    want = ['ok', n, clauses]
    defect = shape_defect(text, n, clauses)
    if all(g == want for g in got) and defect is None:
        return True
    ctx.disagreements_checked += 1
    bad = next((g for g in got if g != want), None)
    if bad is None:
        kind = 'shape'
    elif bad[0] == 'exc':
        kind = 'raises-' + bad[1]
    else:
        kind = 'roundtrip'
    where = None
    if bad is not None and bad[0] == 'ok':
        if bad[1] != n:
            where = 'number of variables %d, written %d' % (bad[1], n)
        elif len(bad[2]) != len(clauses):
            where = '%d clauses read, %d written' % (len(bad[2]), len(clauses))
        else:
            i = next(i for i, (a, b) in enumerate(zip(bad[2], clauses)) if a != b)
            where = 'clause %d read as %r..., written %r...' % (i + 1, bad[2][i][:8], clauses[i][:8])
    ctx.violation('counterexample', 'DIMACS round trip or output shape fails on a large output: %s' % (defect or where or bad[:3]),
                  dict(input=descr, text_length=len(text), text_start=text[:300], text_end=text[-300:],
                       read_back=[g[:2] if g[0] == 'ok' else g for g in got], shape=defect), True, site='dimacs-roundtrip', cls=kind)
    return False


def huge_case(ctx, cnfgen, label, make, vias, header=True, names=False, pad_to=None, both=True):
    """make() -> CNF object.  pad_to: total size of the output in bytes, reached exactly with a header field of x's"""
    CNF = cnfgen.CNF
    F = make()
    n, clauses = F.number_of_variables(), [list(c) for c in F]
    if not header:
        pad_to = None           # the padding is a header field
    if pad_to is not None:
        F.header['padding'] = ''
        s = io.StringIO()
        F.to_file(s, fileformat='dimacs', export_header=header, export_varnames=names)
        k = pad_to - len(s.getvalue().encode('utf-8'))
        if k < 0:
            ctx.note('huge: %s is already larger than the padding target' % label)
        else:
            F.header['padding'] = 'x' * k
    sizes = set()
    for via in vias:
        path = tmp_path('huge.cnf')
        descr = dict(formula=label, n=n, clauses='%d clauses' % len(clauses), export_header=header, export_varnames=names, via=via,
                     padded_to=pad_to)
        ctx.count('huge', (label, via), True, sample=descr)
        ctx.tally('huge via', via)
        try:
            text = write_via(F, via, header, names, path)
        except Exception as e:  # noqa
            ctx.disagreements_checked += 1
            ctx.violation('counterexample', 'writing a large formula to DIMACS (%s) raised %s' % (via, type(e).__name__),
                          dict(input=descr, implementation=[type(e).__name__, str(e)[:160]]), True, site='to_dimacs_file', cls='raises-' + type(e).__name__)
            continue
        sizes.add(len(text))
        lines = text.count('\n')
        ctx.tally('huge output size', '>16MiB' if len(text) > 16 * MIB else '>8MiB' if len(text) > 8 * MIB else '>1MiB' if len(text) > MIB else '<=1MiB')
        ctx.tally('huge output lines', '>131072' if lines > 131072 else '>65536' if lines > 65536 else '<=65536')
        ctx.tally('huge longest line', '>131072' if any(len(c) > 20000 for c in clauses[:3]) or any(len(str(v)) > 131072 for v in F.header.values())
                  else 'short')
        if pad_to is not None and len(text.encode('utf-8')) != pad_to and k >= 0:
            ctx.violation('correspondence', 'the size of the output does not grow by one byte per padding character',
                          dict(input=descr, size=len(text), expected=pad_to), False, site='to_dimacs_file', cls='size')
        direct_property(ctx, CNF, 'huge', descr, text, n, clauses, path if via != 'StringIO' else None, both)
    if len(sizes) > 1:
        ctx.violation('correspondence', 'the same formula written through different kinds of destination gives texts of different sizes',
                      dict(input=dict(formula=label, vias=list(vias)), sizes=sorted(sizes)), False, site='to_dimacs_file', cls='via-differs')
    return F, n, clauses


def run_huge(ctx, cnfgen, quick):
    CNF = cnfgen.CNF
    rng = ctx.rng
    t0 = time.time()
    seed = rng.randrange(1 << 30)
    N = 3000000
    big = {}

    def wide():      # > 65536 clauses, > 16 MiB
        return CNF(scrambled_clauses(seed, 67000, 29, N - 5000, N))

    def tall():      # > 131072 clauses, > 8 MiB
        return CNF(scrambled_clauses(seed + 1, 140000, 6, N - 70000, N))

    def named(k):
        def f():
            F = CNF()
            F.new_block(k // 2, 2, label='v_{{{},{}}}')
            F.update_variable_number(k + 3)
            F.add_clause([k + 3, -k, 1])
            F.add_clause([])
            F.add_clause([-(k + 2)])
            return F
        return f

    def one_line(w):  # one clause of w literals: a physical line of more than 131072 characters for w = 30000
        return lambda: CNF([[(-1) ** i * (1 + (i * 7) % w) for i in range(w)], [1]])

    def long_fields(k, j):
        def f():
            F = CNF([[1, -2], [2, 3]], description='D' * k)
            F.new_variable('N' * j)
            return F
        return f
    if quick:
        F, n, clauses = huge_case(ctx, cnfgen, '67000 clauses of 29 literals below 3000000', wide, ('name',), pad_to=16 * MIB + 1, both=False)
        big = dict(F=F, n=n, clauses=clauses)
        huge_case(ctx, cnfgen, '140000 clauses of 6 literals below 3000000', tall, ('stdout',), pad_to=8 * MIB + 1, both=False)
        huge_case(ctx, cnfgen, '140003 variables with names', named(140000), ('name-by-extension',), names=True)
        huge_case(ctx, cnfgen, 'one clause of 30000 literals', one_line(30000), ('StringIO',))
        huge_case(ctx, cnfgen, 'description of 100000 characters, name of 70000 characters', long_fields(100000, 70000), ('fileobj',), names=True)
    else:
        for i, target in enumerate((8 * MIB - 1, 8 * MIB, 8 * MIB + 1)):
            huge_case(ctx, cnfgen, '140000 clauses of 6 literals below 3000000', tall, VIAS if i == 2 else VIAS[i + 1:i + 2], pad_to=target)
        for i, target in enumerate((16 * MIB - 1, 16 * MIB, 16 * MIB + 1, 32 * MIB + 1)):
            F, n, clauses = huge_case(ctx, cnfgen, '67000 clauses of 29 literals below 3000000', wide, VIAS if i == 2 else VIAS[i:i + 1], pad_to=target,
                                      both=i == 2)
        big = dict(F=F, n=n, clauses=clauses)
        huge_case(ctx, cnfgen, '1300000 clauses of 3 literals', lambda: CNF(scrambled_clauses(seed + 2, 1300000, 3, 1, 900)), ('name', 'stdout'), both=False)
        for i, k in enumerate((65536, 131072, 140000, 300000)):
            huge_case(ctx, cnfgen, '%d variables with names' % (k + 3), named(k), VIAS[i:i + 2] or VIAS[:2], names=True)
        for i, w in enumerate((30000, 65537, 131073, 400000)):
            huge_case(ctx, cnfgen, 'one clause of %d literals' % w, one_line(w), VIAS[i:i + 2] or VIAS[:2])
        for k, j in ((100000, 70000), (131073, 131073), (2000000, 1000000)):
            huge_case(ctx, cnfgen, 'description of %d characters, name of %d characters' % (k, j), long_fields(k, j), VIAS, names=True)
        for i in range(4):
            m, w = rng.choice([(66000, 11), (132000, 5), (70000, 17), (200000, 4), (9000, 200), (500, 5000)])
            huge_case(ctx, cnfgen, '%d clauses of %d literals (random instance %d)' % (m, w, i),
                      lambda m=m, w=w, i=i: CNF(scrambled_clauses(seed + 10 + i, m, w, 1, rng.choice([9, 300, 70000, 10 ** 9]))),
                      rng.sample(VIAS, 2), header=rng.random() < 0.7,
                      pad_to=rng.choice([None, 8 * MIB + rng.randint(-2, 2), 16 * MIB + rng.randint(-2, 2), 4 * MIB, 12 * MIB + 4095]))
    # the command line on the largest file: `cnfgen -q dimacs FILE` to standard output (a pipe), `-o OUT` in the thorough tier
    src = tmp_path('huge-src.cnf')
    big['F'].to_file(src, fileformat='dimacs')
    runs = [(['-q', 'dimacs', src], None)] + ([] if quick else [(['-q', '-o', tmp_path('huge-out.cnf'), 'dimacs', src], tmp_path('huge-out.cnf')),
                                                                (['-o', tmp_path('huge-out2'), '-of', 'dimacs', 'dimacs', src], tmp_path('huge-out2'))])
    for argv, out in runs:
        code, stdout, err = cli_child(['cnfgen'] + argv)
        descr = dict(argv=['cnfgen'] + argv, file='the 67000-clause formula above (more than 16 MiB)', n=big['n'], clauses='%d clauses' % len(big['clauses']))
        ctx.count('huge-cli', tuple(argv), True, sample=descr)
        if code != 0 or 'Traceback' in err:
            ctx.disagreements_checked += 1
            ctx.violation('counterexample', '`cnfgen dimacs FILE` on a large file written by cnfgen exits with %d' % code,
                          dict(input=descr, implementation=[code, err[-400:]]), True, site='cli-dimacs', cls='rejects-own-output')
            continue
        if out is not None:
            with open(out, 'r', newline='', encoding='utf-8') as f:
                text = f.read()
        else:
            text = stdout.decode('utf-8', 'replace')
        direct_property(ctx, CNF, 'huge-cli', descr, text, big['n'], big['clauses'], out, both=not quick)
    ctx.note('huge: %.0f s' % (time.time() - t0))



# --------------------------------------------------------------------------
# shapes: rare kinds of destination and of names.
#   * the format is decided as guess_output_format documents it: an explicit request wins, else the file name ENDING in
#     '.tex' / '.opb' selects LaTeX / OPB, else DIMACS -- 'cover_vertex', 'formula_opb', 'x.latex', 'a.tex.cnf' are DIMACS;
#   * destinations: file name, open file object (named, anonymous, with a descriptor or bytes as name), write-only object,
#     standard output;
#   * variable names outside ASCII through each of them, also in a process whose locale is not UTF-8.
# The oracle for the format is written from the docstring only (no model of os.path.splitext here).
# --------------------------------------------------------------------------
DIMACS_NAMES = ['cover_vertex', 'formula_opb', 'x.latex', 'a.tex.cnf', 'opb', 'tex', 'vertex', 'xopb', 'x.cnf', 'x.dimacs', 'noext', 'a.b.c',
                'tex.', 'x.opb.bak', 'x.tex~', 'X.TEX', 'x.Opb', 'dir.tex/out', 'dir.opb/out.cnf', 'x.tex.', 'x.tex ', 'x.texx', 'x.opbb', 'x.te',
                'latex', 'x_tex', 'x-opb', 'x.ópb', 'α.cnf']
LATEX_NAMES = ['y.tex', 'a.cnf.tex', 'a.opb.tex', 'dir.opb/z.tex', 'sp ace.tex', 'cover_vertex.tex', 'é.tex', 'a..tex']
OPB_NAMES = ['y.opb', 'a.tex.opb', '.hidden.opb', 'dir.tex/z.opb', 'formula_opb.opb', 'a.cnf.opb']


def documented_format(name, request, opb_class=False):
    """the format to_file / the command line must use, read off the docstrings of guess_output_format and OPB.to_file"""
    if isinstance(name, bytes):
        name = name.decode('utf-8')
    by_name = 'latex' if name.endswith('.tex') else 'opb' if name.endswith('.opb') else 'dimacs'
    fmt = request if request is not None else by_name
    if opb_class and fmt == 'dimacs':
        fmt = 'opb'            # an OPB object has no DIMACS form: OPB is its default
    return fmt


def format_of_text(text):
    if text.startswith('%\n\\documentclass'):
        return 'latex'
    if text.startswith('* #variable= '):
        return 'opb'
    rest = [l for l in text.split('\n') if not l.startswith('c')]
    if rest and rest[0].startswith('p cnf '):
        return 'dimacs'
    return 'unknown'


class WriteOnly:
    """the least a destination can be: an object with write()"""

    def __init__(self):
        self.parts = []

    def write(self, s):
        self.parts.append(s)


def destinations(tmp, quick, extra_names=()):
    """[(label, open() -> (destination, close() -> text written), name seen by guess_output_format or None (0: a name that is not
    a string))]; extra_names: more file objects opened under these names (str or bytes)"""
    import tempfile as tf

    def named_file(name, **kw):
        def op():
            p = os.path.join(tmp, name) if not isinstance(name, bytes) else os.path.join(tmp.encode(), name)
            os.makedirs(os.path.dirname(p), exist_ok=True)
            f = open(p, 'w', encoding='utf-8', **kw)

            def close():
                f.close()
                with open(p, 'r', newline='', encoding='utf-8') as g:
                    return g.read()
            return f, close
        return op

    def seekable(mk):
        def op():
            f = mk()

            def close():
                f.flush()
                f.seek(0)
                t = f.read()
                f.close()
                return t
            return f, close
        return op

    def write_only():
        w = WriteOnly()
        return w, lambda: ''.join(w.parts)

    def string_io():
        s = io.StringIO()
        return s, s.getvalue
    out = [('StringIO', string_io, None), ('object with write() only', write_only, None),
           ('tempfile.TemporaryFile (name is a descriptor number)', seekable(lambda: tf.TemporaryFile('w+', encoding='utf-8', newline='')), 0),
           ('tempfile.SpooledTemporaryFile (name is None)', seekable(lambda: tf.SpooledTemporaryFile(mode='w+', encoding='utf-8', newline='')), 0),
           ('tempfile.NamedTemporaryFile', seekable(lambda: tf.NamedTemporaryFile('w+', encoding='utf-8', newline='', suffix='.cnf', dir=tmp)), 'x.cnf'),
           ('file object, line buffered', named_file('lb.cnf', buffering=1), 'lb.cnf'),
           ('file object, 16-byte buffer', named_file('tiny.cnf', buffering=16), 'tiny.cnf'),
           ('file object opened with a bytes path', named_file(b'bytes.cnf'), b'bytes.cnf'),
           ('file object opened with a bytes path ending in _opb', named_file(b'formula_opb'), b'formula_opb')]
    for nm in (DIMACS_NAMES[:6] if quick else DIMACS_NAMES) + ['y.tex', 'y.opb'] + list(extra_names):
        out.append(('file object named %r' % (nm,), named_file(nm), nm))
    return out


def shape_formulas(cnfgen):
    CNF = cnfgen.CNF

    def uni():
        F = CNF(description='caf\xe9 α 数')
        for nm in ('α', '\xe9_1', '数^2', 'x', 'na\xefve αβ'):
            F.new_variable(nm)
        F.add_clause([1, -2, 3])
        F.add_clause([-4, 5])
        return F

    def plain():
        F = CNF([[1, -2], [], [2, 3]], description='plain')
        F.update_variable_number(5)
        return F

    def odd_header():
        F = CNF([[1, -2]])
        F.header[None] = None
        F.header[3] = [1, 'two', (3,)]
        F.header[b'bytes'] = b'\xff\x00'
        F.header[('t', 1)] = {'k': 1.5}
        F.header[''] = ''
        return F

    def no_header():
        F = CNF([[1, -2], [2]])
        F.header.clear()
        return F
    return [('names outside ASCII', uni), ('plain', plain), ('header keys and values that are not strings', odd_header), ('header emptied', no_header)]


UNICODE_CHILD = r"""# -*- coding: utf-8 -*-
import sys, os, io, json, locale
d, fmt, mode = sys.argv[1:4]
import cnfgen
from cnfgen.formula.opb import OPB
def build(cls):
    F = cls(description='caf\xe9 α 数')
    for nm in ('α', '\xe9_1', '数^2', 'x', 'na\xefve αβ'):
        F.new_variable(nm)
    if cls is OPB:
        F.add_constraint([(2, 1), (3, -2), (1, 3), '>=', 2])
        F.add_constraint([(1, -4), (1, 5), '==', 1])
    else:
        F.add_clause([1, -2, 3])
        F.add_clause([-4, 5])
    return F
res = dict(encoding=[locale.getpreferredencoding(False), sys.stdout.encoding, sys.flags.utf8_mode])
for kind, cls in (('cnf', cnfgen.CNF), ('opb', OPB)):
    if kind == 'opb' and fmt == 'dimacs':
        continue
    F = build(cls)
    if mode == 'stdout':
        if kind == sys.argv[4]:
            F.to_file(None, fileformat=fmt, export_header=False, export_varnames=True)
        continue
    ext = {'dimacs': 'cnf', 'opb': 'opb', 'latex': 'tex'}[fmt]
    def attempt(label, f):
        try:
            f()
            res[kind + ':' + label] = 'ok'
        except Exception as e:
            res[kind + ':' + label] = [type(e).__name__, str(e)[:100]]
    attempt('name', lambda: F.to_file(os.path.join(d, kind + '-name.out'), fileformat=fmt, export_varnames=True))
    attempt('name-by-extension', lambda: F.to_file(os.path.join(d, kind + '-ext.' + ext), export_varnames=True))
    def fileobj():
        with open(os.path.join(d, kind + '-fileobj.out'), 'w', encoding='utf-8') as f:
            F.to_file(f, fileformat=fmt, export_varnames=True)
    attempt('fileobj', fileobj)
    def non_ascii_path():
        F.to_file(os.path.join(d, kind + '-α\xe9.' + ext), export_varnames=True)
    if sys.getfilesystemencoding().lower().replace('-', '') == 'utf8':     # else open() itself cannot name the file
        attempt('non-ascii-path', non_ascii_path)
    if fmt == 'dimacs':
        def readback():
            G = cnfgen.CNF.from_file(os.path.join(d, kind + '-name.out'))
            res['readback'] = [G.number_of_variables(), [list(c) for c in G]]
        attempt('read-by-name', readback)
if mode != 'stdout':
    sys.stdout.write(json.dumps(res))
"""
CHILD_ENVS = [('default', {}), ('C locale, UTF-8 mode off', {'LC_ALL': 'C', 'LANG': 'C', 'PYTHONUTF8': '0', 'PYTHONCOERCECLOCALE': '0'})]


def unicode_child(tmp, fmt, mode, envname, extra, kind='cnf'):
    env = dict(os.environ, PYTHONPATH=lib.REPO, CNFGEN_VERIF='1')
    env.update(extra)
    sub = os.path.join(tmp, 'u-%s-%s-%s-%d' % (fmt, mode, kind, [e[0] for e in CHILD_ENVS].index(envname)))
    os.makedirs(sub, exist_ok=True)
    script = os.path.join(sub, 'child.py')       # a file: a process in the C locale cannot decode a non-ASCII `-c` argument
    with open(script, 'w', encoding='utf-8') as f:
        f.write(UNICODE_CHILD)
    r = subprocess.run([lib.PY, '-W', 'ignore', script, sub, fmt, mode, kind], cwd=lib.REPO, env=env, stdout=subprocess.PIPE,
                       stderr=subprocess.PIPE, timeout=300)
    return sub, r.returncode, r.stdout, r.stderr.decode('utf-8', 'replace')


UNI_NAMES = ['α', '\xe9_1', '数^2', 'x', 'na\xefve αβ']


def run_shapes(ctx, cnfgen, quick):
    import shutil
    from concurrent.futures import ThreadPoolExecutor
    CNF = cnfgen.CNF
    t0 = time.time()
    tmp = tempfile.mkdtemp(prefix='c06shapes-')
    forms = shape_formulas(cnfgen)
    # ---- (1) every kind of destination x explicit / implicit format
    for flabel, mk in forms:
        F = mk()
        n, clauses = F.number_of_variables(), [list(c) for c in F]
        for dlabel, op, seen in destinations(tmp, quick):
            for request in (None, 'dimacs'):
                names = flabel == 'names outside ASCII'
                descr = dict(formula=flabel, destination=dlabel, fileformat=request, n=n, clauses=clauses, export_varnames=names,
                             names=list(F.all_variable_labels()) if names else None)
                expected = 'dimacs' if seen is None or seen == 0 else documented_format(seen, request)
                if expected != 'dimacs' and flabel != 'plain':
                    continue          # the OPB / LaTeX renderings are property C12 (harness/c12.py runs this table on its formulas)
                ctx.count('shapes-destination', (flabel, dlabel, request), True, sample=descr)
                ctx.tally('shapes destination', dlabel.split(' named ')[0])
                dest, close = op()
                try:
                    F.to_file(dest, fileformat=request, export_varnames=names)
                    exc = None
                except Exception as e:  # noqa
                    exc = e
                try:
                    text = close()
                except Exception as e:  # noqa
                    text, exc = None, exc or e
                if exc is not None:
                    ctx.disagreements_checked += 1
                    guessing = request is None and isinstance(exc, TypeError) and not isinstance(seen, str) and seen is not None
                    ctx.violation('counterexample', 'to_file(<%s>, fileformat=%r) raised %s: %s' % (dlabel, request, type(exc).__name__, str(exc)[:100]),
                                  dict(input=descr, implementation=[type(exc).__name__, str(exc)[:160]]), True,
                                  site='guess_output_format' if guessing else 'to_dimacs_file',
                                  cls='file-object-name-not-a-string' if guessing else 'raises-' + type(exc).__name__)
                    continue
                got = format_of_text(text)
                if got != expected:
                    ctx.disagreements_checked += 1
                    ctx.violation('counterexample', 'to_file(<%s>, fileformat=%r) wrote %s, the documented format is %s' % (dlabel, request, got, expected),
                                  dict(input=descr, text_start=text[:200], documented='guess_output_format: explicit request, else the name ends in .tex / .opb, else dimacs'),
                                  True, site='guess_output_format', cls='format-%s-instead-of-%s' % (got, expected))
                    continue
                if expected == 'dimacs':
                    direct_property(ctx, CNF, 'shapes-destination', descr, text, n, clauses)
                    if names and any(('c varname %d %s' % (i + 1, nm)) not in text.split('\n') for i, nm in enumerate(F.all_variable_labels())):
                        ctx.violation('counterexample', 'a variable name outside ASCII is not written as it is in the varname comments',
                                      dict(input=descr, text_start=text[:400]), True, site='to_dimacs_file', cls='unicode-name-changed')
    # ---- (2) file names: to_file(name) and `cnfgen -o name`, with and without an explicit format
    F = cnfgen.PigeonholePrinciple(3, 2)
    n, clauses = F.number_of_variables(), [list(c) for c in F]
    table = [(nm, 'dimacs') for nm in DIMACS_NAMES] + [(nm, 'latex') for nm in LATEX_NAMES] + [(nm, 'opb') for nm in OPB_NAMES]
    jobs = []
    for k, (nm, by_name) in enumerate(table):
        for request in (None, 'dimacs', 'latex', 'opb'):
            if request is not None and (quick and (k + len(request)) % 4):
                continue
            jobs.append((nm, request, 'to_file(name)'))
            if not quick or request is None and (k % 3 == 0 or nm in ('cover_vertex', 'formula_opb', 'x.latex', 'a.tex.cnf')):
                jobs.append((nm, request, 'cnfgen -o name'))
    sub = {}
    for how in ('to_file(name)', 'cnfgen -o name'):
        for request in (None, 'dimacs', 'latex', 'opb'):     # one directory per (way, request): the command lines run in parallel
            sub[(how, request)] = os.path.join(tmp, 'names-%s-%s' % (how[:3], request))
            for nm, _ in table:
                os.makedirs(os.path.dirname(os.path.join(sub[(how, request)], nm)), exist_ok=True)

    def do(job):
        nm, request, how = job
        p = os.path.join(sub[(how, request)], nm)
        if how == 'to_file(name)':
            try:
                F.to_file(p, fileformat=request)
                res = (0, '')
            except Exception as e:  # noqa
                res = (type(e).__name__, str(e)[:160])
        else:
            code, _out, err = cli_child(['cnfgen', '-o', p] + (['-of', request] if request else []) + ['php', '3', '2'])
            res = (code, err[-300:])
        try:
            with open(p, 'r', newline='', encoding='utf-8') as f:
                text = f.read()
        except OSError:
            text = None
        return res, text
    cli_jobs = [j for j in jobs if j[2] != 'to_file(name)']
    with ThreadPoolExecutor(max_workers=4) as ex:
        cli_res = dict(zip(cli_jobs, ex.map(do, cli_jobs)))
    for job in jobs:
        nm, request, how = job
        res, text = cli_res[job] if job in cli_res else do(job)
        expected = documented_format(nm, request)
        descr = dict(file_name=nm, fileformat=request, how=how, formula='php 3 2')
        ctx.count('shapes-file-name', job, True, sample=descr)
        ctx.tally('shapes file name: documented format', '%s%s' % (expected, ' (explicit)' if request else ' (by name)'))
        ctx.tally('shapes file name: how', how)
        if res[0] != 0 or text is None:
            ctx.disagreements_checked += 1
            ctx.violation('counterexample', '%s with the file name %r%s fails: %r' % (how, nm, ' and format %s' % request if request else '', res),
                          dict(input=descr, implementation=list(res)), True, site='guess_output_format', cls='raises-%s' % (res[0],))
            continue
        got = format_of_text(text)
        if got != expected:
            ctx.disagreements_checked += 1
            ctx.violation('counterexample', '%s with the file name %r%s wrote %s; the documented format is %s (an explicit request wins, else the '
                          'name must END in .tex / .opb)' % (how, nm, ' and format %s' % request if request else '', got, expected),
                          dict(input=descr, text_start=text[:200]), True, site='guess_output_format', cls='format-%s-instead-of-%s' % (got, expected))
            continue
        if expected == 'dimacs':
            direct_property(ctx, CNF, 'shapes-file-name', descr, text, n, clauses)
    # ---- (3) names outside ASCII written by a process whose locale is / is not UTF-8
    runs = [(fmt, mode, en, ex_) for (en, ex_) in CHILD_ENVS for fmt, mode in (('dimacs', 'files'), ('dimacs', 'stdout'))]
    with ThreadPoolExecutor(max_workers=4) as ex:
        results = list(ex.map(lambda r: unicode_child(tmp, r[0], r[1], r[2], r[3]), runs))
    Fu = forms[0][1]()
    nu, cu = Fu.number_of_variables(), [list(c) for c in Fu]
    for (fmt, mode, en, _x), (d, code, out, err) in zip(runs, results):
        descr = dict(names=UNI_NAMES, format=fmt, destination=mode, environment=en, n=nu, clauses=cu)
        ctx.count('shapes-unicode-process', (fmt, mode, en), True, sample=descr)
        if mode == 'stdout':
            if code != 0:
                if 'UnicodeEncodeError' in err and en != 'default':
                    ctx.tally('shapes unicode: standard output of a process in an ASCII locale', 'UnicodeEncodeError (the encoding of that stream is the caller\'s)')
                    continue
                ctx.violation('counterexample', 'writing names outside ASCII to the standard output (%s) fails' % en,
                              dict(input=descr, implementation=[code, err[-300:]]), True, site='to_dimacs_file', cls='unicode-stdout')
                continue
            try:
                text = out.decode('utf-8')
            except UnicodeDecodeError:
                text = None
            if text is None or not direct_property(ctx, CNF, 'shapes-unicode-process', descr, text, nu, cu) or \
                    any(('c varname %d %s' % (i + 1, nm)) not in text.split('\n') for i, nm in enumerate(UNI_NAMES)):
                if text is None or all(('c varname %d %s' % (i + 1, nm)) in text.split('\n') for i, nm in enumerate(UNI_NAMES)) is False:
                    ctx.violation('counterexample', 'names outside ASCII written to the standard output (%s) are not the names of the formula in UTF-8' % en,
                                  dict(input=descr, stdout_bytes=repr(out[:300])), True, site='to_dimacs_file', cls='unicode-name-changed')
            continue
        try:
            res = json.loads(out.decode('utf-8'))
        except Exception:  # noqa
            ctx.violation('counterexample', 'the process writing names outside ASCII (%s) died' % en, dict(input=descr, implementation=[code, err[-400:]]),
                          True, site='to_dimacs_file', cls='unicode-process')
            continue
        ctx.tally('shapes unicode: encodings of the process', '%s -> %s' % (en, res['encoding']))
        for key, fname in (('cnf:name', 'cnf-name.out'), ('cnf:name-by-extension', 'cnf-ext.cnf'), ('cnf:fileobj', 'cnf-fileobj.out'),
                           ('cnf:non-ascii-path', None)):
            d2 = dict(descr, destination=key)
            if key not in res:
                ctx.tally('shapes unicode: skipped', '%s: %s' % (en, key))
                continue
            if res.get(key) != 'ok':
                ctx.disagreements_checked += 1
                ctx.violation('counterexample', 'to_file (%s) of a formula with names outside ASCII raised %s in a process with %s' % (key, res.get(key), en),
                              dict(input=d2, implementation=res.get(key)), True, site='to_dimacs_file', cls='unicode-raises-%s' % (res.get(key) or ['none'])[0])
                continue
            if fname is None:
                cands = [f for f in os.listdir(os.fsencode(d)) if f.startswith(b'cnf-') and f.endswith(b'.cnf') and f != b'cnf-ext.cnf']
                pth = os.path.join(os.fsencode(d), cands[0]) if cands else None
            else:
                pth = os.path.join(d, fname)
            try:
                with open(pth, 'rb') as f:
                    raw = f.read()
                text = raw.decode('utf-8')
            except Exception as e:  # noqa
                ctx.disagreements_checked += 1
                ctx.violation('counterexample', 'the file written (%s) with names outside ASCII by a process with %s is not UTF-8 text' % (key, en),
                              dict(input=d2, error=str(e)[:100]), True, site='to_dimacs_file', cls='unicode-file-encoding')
                continue
            text = text.replace('\r\n', '\n')
            if not direct_property(ctx, CNF, 'shapes-unicode-process', d2, text, nu, cu):
                continue
            if any(('c varname %d %s' % (i + 1, nm)) not in text.split('\n') for i, nm in enumerate(UNI_NAMES)):
                ctx.violation('counterexample', 'a variable name outside ASCII is not written as it is (%s, process with %s)' % (key, en),
                              dict(input=d2, text_start=text[:400]), True, site='to_dimacs_file', cls='unicode-name-changed')
        if res.get('cnf:read-by-name') != 'ok' or res.get('readback') != [nu, cu]:
            ctx.violation('counterexample', 'CNF.from_file(name) on a file with names outside ASCII in its comments fails in a process with %s' % en,
                          dict(input=descr, implementation=[res.get('cnf:read-by-name'), res.get('readback')]), True, site='parse_dimacs', cls='unicode-comment')
    shutil.rmtree(tmp, ignore_errors=True)
    ctx.note('shapes: %.0f s' % (time.time() - t0))



# --------------------------------------------------------------------------
# history: ONE formula object built by a random sequence of public API calls and written again and again, with edits in
# between (clauses added, the variable count raised by several units at once, variables named, header fields set and
# deleted, the object used as the input of a transformation, the written text read back and extended), through
# destinations that are reused (the same file name for every snapshot: it must be truncated).  Each snapshot is compared
# with the model exactly as the formulas stream does.  The reader is called on a sequence of texts with repetitions.
# --------------------------------------------------------------------------
def run_history(ctx, cnfgen, quick):
    import random
    CNF = cnfgen.CNF
    t0 = time.time()
    cases = []
    path = tmp_path('history.cnf')
    for run_no in range(40 if quick else 400):
        r = random.Random(ctx.rng.randrange(1 << 30))
        F = CNF(description=r.choice(['history %d' % run_no, 'two\nlines', '']))
        log = []
        big_run = run_no % 7 == 3
        for step in range(r.randint(4, 12)):
            n = F.number_of_variables()
            op = r.choice(['add_clause', 'add_clause', 'add_clauses_from', 'raise', 'raise-to-threshold', 'new_variable', 'new_block', 'header-set',
                           'header-del', 'transform', 'reread', 'empty-clause', 'many-clauses'])
            try:
                if op == 'add_clause' and n:
                    c = [r.choice([1, -1]) * r.randint(1, n) for _ in range(r.choice([1, 2, 3, 17, 40]))]
                    F.add_clause(c)
                elif op == 'add_clauses_from' and n:
                    F.add_clauses_from([[r.choice([1, -1]) * r.randint(1, n) for _ in range(r.randint(0, 3))] for _ in range(r.randint(0, 5))])
                elif op == 'raise':
                    F.update_variable_number(n + r.choice([2, 3, 5, 10]))
                elif op == 'raise-to-threshold':
                    t = r.choice([x for x in THRESHOLDS + [4096, 65536, 65537] if x > n] or [n + 2])
                    if t <= 1025 or big_run:
                        F.update_variable_number(t)
                    op += ' %d' % t
                elif op == 'new_variable':
                    F.new_variable(r.choice(['v', 'w_%d' % step, 'line\nbreak %d' % step, 'caf\xe9 %d' % step, 'c p cnf %d 0' % step]) + str(run_no * 100 + step))
                elif op == 'new_block':
                    F.new_block(r.randint(1, 3), r.randint(1, 4), label='b%d_{{{{{{}},{{}}}}}}' % step)
                elif op == 'header-set':
                    F.header[r.choice(['note', 'k%d' % step, 'description'])] = r.choice(['v', 'x' * 300, 'a\r\nb', str(step)])
                elif op == 'header-del' and len(F.header) > 1:
                    k = r.choice([k for k in F.header if k != 'description'] or ['description'])
                    if k != 'description':
                        del F.header[k]
                elif op == 'transform' and 0 < n <= 60 and len(F) <= 60:
                    # a substitution of rank 2 turns a clause of w literals into 2^w clauses: only on narrow formulas
                    tr = r.choice(['xor', 'shuffle', 'flip'] if max([len(c) for c in F], default=0) <= 4 else ['shuffle', 'flip'])
                    {'xor': lambda: cnfgen.XorSubstitution(F, 2), 'shuffle': lambda: cnfgen.Shuffle(F), 'flip': lambda: cnfgen.FlipPolarity(F)}[tr]()
                    op += ' ' + tr
                elif op == 'reread':
                    G = CNF.from_file(io.StringIO(F.to_dimacs()))       # the formula goes on as the object the reader returned
                    G.header['description'] = 'read back at step %d' % step
                    F = G
                elif op == 'empty-clause':
                    F.add_clause([])
                elif op == 'many-clauses' and n and big_run:
                    m = r.choice([255, 256, 257, 1025])
                    F.add_clauses_from([[1 + i % n, -(1 + (i * 5) % n)] for i in range(m)])
                    op += ' %d' % m
                else:
                    continue
            except ValueError as e:
                op += ' (refused: %s)' % str(e)[:40]
            log.append(op)
            ctx.tally('history operation', op.split(' ')[0])
            if r.random() < 0.55 or step == 0:
                n = F.number_of_variables()
                clauses = [list(c) for c in F]
                labels = list(F.all_variable_labels()) if n <= 5000 else None
                header = r.random() < 0.7
                names = labels is not None and all(latin1(x) for x in labels) and r.random() < 0.5
                via = r.choice(['StringIO', 'name', 'name', 'fileobj', 'stdout'])
                c = dict(label='history %d step %d' % (run_no, step), cls='history', F=F, n=n, clauses=clauses, labels=labels, header=header,
                         names=names, to_file=via != 'StringIO', via=via + (' (same file as the previous snapshots)' if via != 'StringIO' else ''),
                         hdr_items=header_items(F), history=list(log))
                try:
                    c['text'] = write_via(F, via, header, names, path)
                    c['wexc'] = None
                except Exception as e:  # noqa
                    c['text'], c['wexc'] = None, [type(e).__name__, str(e)[:120]]
                cases.append(c)
                ctx.tally('history via', via)
    # a long file replaced by a short one under the same name, and the other way round
    big = CNF([[1 + i % 9, -(1 + (i * 2) % 9)] for i in range(3000)], description='long')
    small = CNF([[1]], description='short')
    for k, F in enumerate([big, small, big, small]):
        c = dict(label='long and short formulas written in turn to one file name (%d)' % k, cls='history', F=F, n=F.number_of_variables(),
                 clauses=[list(x) for x in F], labels=None, header=True, names=False, to_file=True, via='name (same file as the previous snapshots)',
                 hdr_items=header_items(F), history=['write %s' % ('long' if F is big else 'short')])
        c['text'], c['wexc'] = write_via(F, 'name', True, False, path), None
        cases.append(c)
    judge_cases(ctx, cnfgen, 'history', cases)
    # the reader, called again and again: the verdict on a text does not depend on the texts read before
    items = []
    pool = []
    for _ in range(10 if quick else 120):
        lines, n, clauses = base_text(ctx.rng)
        mu, lines2 = mutate(ctx.rng, lines, n, clauses)
        t, _eol = join_lines(ctx.rng, lines2)
        if latin1(t):
            pool.append((t, mu))
    for i, (t, mu) in enumerate(pool):
        items.append((t, 'history:' + mu))
        if i:
            items.append(pool[ctx.rng.randrange(i)])          # an earlier text again
    compare_texts(ctx, CNF, 'history-texts', items)
    ctx.note('history: %.0f s' % (time.time() - t0))


def run(ctx):
    cnfgen = import_impl()
    quick = ctx.tier == 'quick'
    # the large cases first, as a corpus (notes/LARGE_STREAMS.md)
    run_huge(ctx, cnfgen, quick)
    run_thresholds(ctx, cnfgen, quick)
    run_shapes(ctx, cnfgen, quick)
    run_history(ctx, cnfgen, quick)
    run_primitives(ctx, quick)
    run_formulas(ctx, cnfgen, quick)
    run_texts(ctx, cnfgen, quick)
    run_unicode(ctx, cnfgen, quick)
    run_unicode_write(ctx, cnfgen, quick)
    if not quick:
        run_cli(ctx, cnfgen)
    run_cli_write(ctx, cnfgen, quick)
    ctx.assumptions.append('integers of more than 4300 digits: Python refuses to print them; theorems carry `printable`')
    ctx.assumptions.append('characters above 255 are outside the model (robustness streams only: reader on exotic texts, writer on exotic '
                           'header fields / names; lone surrogates in variable names are excluded -- writing them to a named file raises '
                           'UnicodeEncodeError, header fields are protected by encode("ascii","replace"))')
    if TMPDIR:
        import shutil
        shutil.rmtree(TMPDIR, ignore_errors=True)


def replay(ctx, rp):
    """re-run one recorded input"""
    cnfgen = import_impl()
    CNF = cnfgen.CNF
    inp = rp.get('input', {})
    if 'text' in inp:
        compare_texts(ctx, CNF, 'replay', [(inp['text'], 'replay')])
    else:
        run(ctx)
