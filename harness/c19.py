"""C19 -- transformations leave their inputs untouched and record provenance.

Theorem side (coq/Header.v, Prop_C19.v): the header after any chain of
transformations is the old header followed by 'transformation n+1..n+k' in
order.  Correspondence: the header of real transformation chains equals
`apply_chain` of the extracted model.  Purity correspondence (what licenses
modelling the Python functions as Gallina functions; a heap property no
theorem here can carry): deep snapshots of every argument before and after
each transformation / generator / builder call, a second call giving the same
result, and mutation of the result leaving the input unmoved."""
import copy
import random

from lib import cmd, Sym, import_impl, outcome

META = dict(
    technique='Coq theorems on the provenance header (chain of k steps = old header ++ transformation n+1..n+k) and on a HEAP model of formula objects and client-held lists (separation invariant over all histories: inputs, arguments and other objects are never written) + extracted-model comparison of real headers and of real object histories + deep snapshots around every call',
    category='proof',
    text='Header: for every header and every list of k descriptions, k applications of add_description (and Shuffle\'s variant) keep every old '
         'entry in place and append one numbered entry per step; tied to the code by the headers of real chains, including headers edited by the '
         'user between the steps, headers without a description and user-made headers. Aliasing: coq/Heap.v + Alias.v model formula objects '
         'and the lists a client holds as locations of a heap; for EVERY history of builders, accessors, transformations and client-side '
         'mutations, no two formula objects share a list or a header, a transformation writes nothing but its fresh result, builders leave '
         'their argument lists unchanged (also when they raise midway), and later work on a result never reaches the input '
         '(Prop_C19_alias.v). Tied to the code by random histories run on the real objects with the client really mutating every list it '
         'passed or received, compared step by step with the extracted model. Graph and networkx arguments: deep snapshots around every call.',
    note='The code as found hands out its stored lists when a formula is iterated or sliced and keeps list-pairs given to add_constraint; '
         'the statement of C19 does not forbid that, the model carries both as switches set by probing the code, and the _as_found_refuted '
         'theorems give the witness histories. Trusted: the snapshot function sees every observable part of an argument. Coq kernel, extraction, harness.',
    design_ref='5/C19',
)
RULE = ('transformation chains: random chains (length 1-4) of the 16 transformations on formulas from 12 generators; purity: every transformation, '
        'graph-taking generator and list-taking builder called on snapshotted arguments; non-trivial = non-empty formula/graph/list; distinct = '
        'distinct (call, argument) keys')


def snap_formula(F):
    return dict(clauses=[list(c) for c in F], numvar=F.number_of_variables(), labels=list(F.all_variable_labels()),
                header=list(F.header.items()))


def snap_graph(G):
    d = {}
    for k, v in sorted(vars(G).items()):
        d[k] = copy.deepcopy(v)
    return repr(sorted((k, repr(v)) for k, v in d.items()))


def hdr_sx(items):
    out = []
    for k, v in items:
        if isinstance(k, str) and k.startswith('transformation ') and k[15:].isdigit() and str(int(k[15:])) == k[15:]:
            out.append([[Sym('t'), int(k[15:])], str(v)])
        else:
            out.append([[Sym('o'), str(k)], str(v)])
    return out


def run(ctx):
    import_impl()
    import cnfgen
    from cnfgen.formula.cnf import CNF
    from cnfgen.formula.opb import OPB
    from cnfgen import graphs
    rng = ctx.rng
    quick = ctx.tier == 'quick'

    def small_graph(n=4):
        G = cnfgen.Graph(n)
        for u in range(1, n + 1):
            for v in range(u + 1, n + 1):
                if rng.random() < 0.5:
                    G.add_edge(u, v)
        return G

    def small_bip(l=3, r=3):
        B = cnfgen.BipartiteGraph(l, r)
        for u in range(1, l + 1):
            for v in range(1, r + 1):
                if rng.random() < 0.6:
                    B.add_edge(u, v)
        return B

    def small_dag(n=4):
        D = cnfgen.DirectedGraph(n)
        for v in range(2, n + 1):
            for u in rng.sample(range(1, v), rng.randint(0, min(2, v - 1))):
                D.add_edge(u, v)
        return D

    def rand_cnf():
        n = rng.randint(0, 4)
        F = CNF([[rng.choice([1, -1]) * rng.randint(1, n) for _ in range(rng.randint(0, 3))] for _ in range(rng.randint(0, 4))] if n else [],
                description=rng.choice(['a {curly} formula', 'x', 'with % and \\ and "quotes"']))
        F.update_variable_number(n)
        return F
    gens = [
        lambda: cnfgen.PigeonholePrinciple(3, 2), lambda: cnfgen.OrderingPrinciple(3), lambda: cnfgen.TseitinFormula(small_graph(), None),
        lambda: cnfgen.RandomKCNF(2, 4, 3), lambda: cnfgen.PebblingFormula(small_dag()), lambda: cnfgen.CountingPrinciple(4, 2),
        lambda: cnfgen.GraphColoringFormula(small_graph(3), 2), lambda: cnfgen.SubsetCardinalityFormula(small_bip()),
        lambda: cnfgen.RamseyNumber(2, 2, 3), lambda: cnfgen.VanDerWaerden(4, 2, 2), rand_cnf, rand_cnf, rand_cnf,
    ]

    def transformations():
        k = rng.randint(1, 2)
        return [
            ('flip', lambda F: cnfgen.FlipPolarity(F)), ('xor', lambda F: cnfgen.XorSubstitution(F, k)),
            ('or', lambda F: cnfgen.OrSubstitution(F, k)), ('maj', lambda F: cnfgen.MajoritySubstitution(F, k)),
            ('eq', lambda F: cnfgen.AllEqualSubstitution(F, k)), ('neq', lambda F: cnfgen.NotAllEqualSubstitution(F, k)),
            ('one', lambda F: cnfgen.ExactlyOneSubstitution(F, k)), ('exact', lambda F: cnfgen.ExactlyKSubstitution(F, 2, 1)),
            ('atleast', lambda F: cnfgen.AtLeastKSubstitution(F, 2, 1)), ('atmost', lambda F: cnfgen.AtMostKSubstitution(F, 2, 1)),
            ('anybut', lambda F: cnfgen.AnythingButKSubstitution(F, 2, 1)), ('ite', lambda F: cnfgen.IfThenElseSubstitution(F)),
            ('lift', lambda F: cnfgen.FormulaLifting(F, k)), ('shuffle', lambda F: cnfgen.Shuffle(F)),
            ('xorcomp', lambda F: cnfgen.VariableCompression(F, graphs.bipartite_random_left_regular(F.number_of_variables(), 3, 2), function='xor')),
            ('majcomp', lambda F: cnfgen.VariableCompression(F, graphs.bipartite_random_left_regular(F.number_of_variables(), 3, 2), function='maj')),
        ]

    # ---------- header chains + purity of transformations ----------
    reqs, checks = [], []
    nchains = 120 if quick else 1200
    cheap = ['flip', 'shuffle', 'none-like']
    for i in range(nchains):
        F0 = rng.choice(gens)()
        if i % 7 == 0:
            F0.header['note'] = 'user entry\twith tab'
        chain = [rng.choice(transformations()) for _ in range(rng.randint(1, 3 if quick else 4))]
        if i % 20 == 3:
            # a long chain (the theorem covers every length; the numbering loop must too): size-preserving steps only
            F0 = rand_cnf()
            k1 = [t for t in transformations() if t[0] in ('flip', 'shuffle')]
            one = [('xor', lambda F: cnfgen.XorSubstitution(F, 1)), ('maj', lambda F: cnfgen.MajoritySubstitution(F, 1)),
                   ('or', lambda F: cnfgen.OrSubstitution(F, 1)), ('eq', lambda F: cnfgen.AllEqualSubstitution(F, 1))]
            chain = [rng.choice(k1 + one) for _ in range(rng.randint(11, 15))]
        F = F0
        steps = []
        ok = True
        for name, t in chain:
            before = snap_formula(F)
            if len(before['clauses']) > 400 or before['numvar'] > 60 or max([len(c) for c in before['clauses']] + [0]) > 7:   # a substitution costs 2^width per clause (long chains use size-preserving steps)
                ok = False
                break
            st = random.getstate()
            r1 = outcome(t, F)
            after = snap_formula(F)
            ctx.count('purity-transformation', (name, repr(before['clauses']), before['numvar']), nontrivial=bool(before['clauses']),
                      sample=dict(transformation=name, clauses=before['clauses'][:5], numvar=before['numvar']))
            ctx.tally('transformation', name)
            if r1[0] != 'ok':
                ok = False
                if r1[1] not in ('ValueError',):
                    ctx.violation('counterexample', 'transformation %s raised %s' % (name, r1[1]), dict(input=dict(transformation=name, formula=before), error=r1[1:]),
                                  True, site='transformation-raises', cls='%s-%s' % (name, r1[1]))
                break
            G = r1[1]
            if after != before:
                diff = [k for k in before if before[k] != after[k]]
                ctx.violation('counterexample', 'transformation %s modified its input formula (%s)' % (name, ','.join(diff)),
                              dict(input=dict(transformation=name, formula=before), after=after), True, site='input-mutated', cls=name)
            if G is F:
                ctx.violation('counterexample', 'transformation %s returned its input object' % name, dict(input=dict(transformation=name, formula=before)),
                              True, site='same-object', cls=name)
            # call twice (same generator state): same result
            random.setstate(st)
            r2 = outcome(t, F)
            if r2[0] == 'ok' and snap_formula(r2[1]) != snap_formula(G):
                ctx.violation('counterexample', 'transformation %s is not a function of its input (two calls differ)' % name,
                              dict(input=dict(transformation=name, formula=before)), True, site='not-a-function', cls=name)
            # mutate the result through the public API; the input must not move
            Gs = snap_formula(G)
            try:
                for c in r2[1] if r2[0] == 'ok' else []:
                    c.append(987654)
                if r2[0] == 'ok':
                    r2[1].header['description'] = 'scribble'
                    r2[1].add_clause([1])
            except Exception:
                pass
            if snap_formula(F) != before or snap_formula(G) != Gs:
                ctx.violation('counterexample', 'result of %s shares mutable state with its input or with a second result' % name,
                              dict(input=dict(transformation=name, formula=before)), True, site='aliasing', cls=name)
            steps.append((name, before['header'], Gs['header']))
            F = G
        if steps:
            h0 = steps[0][1]
            hk = steps[-1][2]
            texts = []
            for name, hb, ha in steps:
                new = [v for (k, v) in ha if (k, v) not in hb and str(k).startswith('transformation ')]
                texts.append((name, new[0] if new else ''))
            reqs.append(cmd('header_chain', hdr_sx(h0), [[Sym(n), t] for n, t in texts]))
            checks.append((h0, hk, [n for n, _ in chain[:len(steps)]], texts))
    replies = ctx.model.batch(reqs)
    for (h0, hk, names, texts), rep in zip(checks, replies):
        ctx.count('header-chain', (repr(h0), tuple(names)), nontrivial=True, sample=dict(chain=names, header_before=h0[:2], header_after=hk[-len(names):]))
        ctx.tally('chain length', len(names))
        want = [(('transformation %d' % k[1]) if k[0] == 't' else k[1], v) for k, v in rep]
        got = [(str(k), str(v)) for k, v in hk]
        if want != got:
            ctx.disagreements_checked += 1
            # the property itself, checked directly: old entries kept (description may gain the shuffle suffix), one numbered entry per step, in order
            problem = header_property_fails(h0, hk, names)
            if problem:
                ctx.violation('counterexample', 'header after chain %s: %s' % (names, problem), dict(input=dict(chain=names, header_before=h0), header_after=hk, model=want),
                              True, site='header', cls=problem.split(':')[0])
            else:
                ctx.violation('correspondence', 'header differs from Header.v apply_chain (theorem C19_chain no longer covers the code)',
                              dict(input=dict(chain=names, header_before=h0), header_after=hk, model=want, theorem='C19_chain'), False, site='header', cls='model-mismatch')
        if any(t == '' for _, t in texts):
            ctx.violation('counterexample', 'a transformation step added no description entry', dict(input=dict(chain=names, header_before=h0), header_after=hk),
                          True, site='header', cls='missing-entry')

    # ---------- chains whose headers are edited between the steps, headers without a description, user-made headers ----------
    reqs, checks = [], []
    size_keeping = [t for t in transformations() if t[0] in ('flip', 'shuffle')] + [
        ('xor', lambda F: cnfgen.XorSubstitution(F, 1)), ('maj', lambda F: cnfgen.MajoritySubstitution(F, 1)), ('or', lambda F: cnfgen.OrSubstitution(F, 1)),
        ('shuffle', lambda F: cnfgen.Shuffle(F)), ('shuffle', lambda F: cnfgen.Shuffle(F))]
    for i in range(60 if quick else 600):
        F = rand_cnf()
        shape = rng.choice(['plain', 'no-description', 'user-header', 'note-first'])
        if shape == 'no-description':
            del F.header['description']
        elif shape == 'user-header':
            F.header.clear()
            F.header['author'] = 'somebody'
            F.header['purpose'] = 'a user-made header'
        elif shape == 'note-first':
            F.header['note'] = 'before anything'
        ctx.tally('edited chain: initial header', shape)
        for j in range(rng.randint(2, 5)):
            name, t = rng.choice(size_keeping)
            hb = list(F.header.items())
            r = outcome(t, F)
            if r[0] != 'ok':
                break
            G = r[1]
            ha = list(G.header.items())
            if list(F.header.items()) != hb:
                ctx.violation('counterexample', 'transformation %s modified the header of its input' % name, dict(input=dict(transformation=name, header_before=hb)),
                              True, site='input-mutated', cls=name + '-header')
            new = [v for (k, v) in ha if (k, v) not in hb and str(k).startswith('transformation ')]
            reqs.append(cmd('header_chain', hdr_sx(hb), [[Sym(name), new[0] if new else '']]))
            checks.append((hb, ha, name, shape, j))
            F = G
            edit = rng.choice(['none', 'note', 'note', 'description', 'seed'])
            if edit == 'note':
                F.header['note %d' % j] = 'written by the user after step %d' % (j + 1)
            elif edit == 'description':
                F.header['description'] = 'renamed by the user'       # an existing key keeps its place, a deleted one comes back last
            elif edit == 'seed':
                F.header['random seed'] = 42
            ctx.tally('edited chain: edit after a step', edit)
    replies = ctx.model.batch(reqs)
    for (hb, ha, name, shape, j), rep in zip(checks, replies):
        ctx.count('edited-chains', (repr(hb), name), nontrivial=True, sample=dict(step=name, header_before=hb, header_after=ha[-2:]))
        want = [(('transformation %d' % k[1]) if k[0] == 't' else k[1], v) for k, v in rep]
        got = [(str(k), str(v)) for k, v in ha]
        if want == got:
            continue
        ctx.disagreements_checked += 1
        hb_s = [(str(k), str(v)) for k, v in hb]
        kept = all(any(k1 == k0 and (v1 == v0 or (k0 == 'description' and v1.startswith(v0))) for k1, v1 in got) for k0, v0 in hb_s)
        fresh = [k for k, _ in got if k.startswith('transformation ') and k not in [k0 for k0, _ in hb_s]]
        if not kept or len(fresh) != 1 or len(got) != len(hb_s) + 1:
            ctx.violation('counterexample', 'step %s on a header that %s: %s' % (name, 'was edited by the user' if j else 'is ' + shape,
                          'an earlier entry was lost or overwritten' if not kept else 'the step did not gain exactly one numbered entry'),
                          dict(input=dict(step=name, header_before=hb), header_after=ha, model=want), True, site='header', cls='edited-' + ('lost' if not kept else 'count'))
        else:
            ctx.violation('correspondence', 'header differs from Header.v add_description (theorem C19_chain no longer covers the code)',
                          dict(input=dict(step=name, header_before=hb), header_after=ha, model=want, theorem='C19_chain'), False, site='header', cls='model-mismatch')

    # ---------- networkx graphs handed to generators (attributes as a dot file gives them: strings) ----------
    import networkx as nx

    def snap_nx(H):
        return repr((sorted((repr(k), repr(sorted(d.items()))) for k, d in H.nodes(data=True)),
                     sorted((repr(u), repr(v), repr(sorted(d.items()))) for u, v, d in H.edges(data=True)), sorted(H.graph.items()), type(H).__name__))
    for i in range(10 if quick else 100):
        l, r_ = rng.randint(1, 4), rng.randint(1, 4)
        style = rng.choice(['int', 'str', 'str', 'bool'])
        enc = {'int': lambda b: b, 'str': lambda b: str(b), 'bool': lambda b: bool(b)}[style]
        H = nx.Graph(name='user graph')
        ln = ['p%d' % a for a in range(l)]
        rn = ['h%d' % b for b in range(r_)]
        order = [(x, 0) for x in ln] + [(x, 1) for x in rn]
        if rng.random() < 0.5:
            rng.shuffle(order)
        for x, side in order:
            H.add_node(x, bipartite=enc(side), color='red')
        for a in ln:
            for b in rn:
                if rng.random() < 0.6:
                    H.add_edge(a, b, weight='3')
        S = nx.Graph(name='simple user graph')
        S.add_nodes_from(['a', 'b', 'c', 'd'], shape='box')
        S.add_edges_from([e for e in [('a', 'b'), ('b', 'c'), ('c', 'd'), ('a', 'd'), ('a', 'c')] if rng.random() < 0.7], label='e')
        Dg = nx.DiGraph(name='user dag')
        Dg.add_nodes_from(['s1', 's2', 'm', 't'], rank='1')
        Dg.add_edges_from([('s1', 'm'), ('s2', 'm'), ('m', 't')])
        nxcalls = [
            ('GraphPigeonholePrinciple(networkx)', H, lambda H=H: cnfgen.GraphPigeonholePrinciple(H)),
            ('SubsetCardinalityFormula(networkx)', H, lambda H=H: cnfgen.SubsetCardinalityFormula(H)),
            ('BipartiteGraph.from_networkx', H, lambda H=H: cnfgen.BipartiteGraph.from_networkx(H)),
            ('VariableCompression(networkx)', H, lambda H=H: cnfgen.VariableCompression(CNF([list(range(1, len(ln) + 1))]), H, function='maj')),
            ('GraphColoringFormula(networkx)', S, lambda S=S: cnfgen.GraphColoringFormula(S, 2)),
            ('TseitinFormula(networkx)', S, lambda S=S: cnfgen.TseitinFormula(S)),
            ('Graph.from_networkx', S, lambda S=S: cnfgen.Graph.from_networkx(S)),
            ('PebblingFormula(networkx)', Dg, lambda Dg=Dg: cnfgen.PebblingFormula(Dg)),
            ('DirectedGraph.from_networkx', Dg, lambda Dg=Dg: cnfgen.DirectedGraph.from_networkx(Dg)),
        ]
        for name, A, f in nxcalls:
            before = snap_nx(A)
            r = outcome(f)
            ctx.count('purity-networkx', (name, before), nontrivial=True, sample=dict(call=name, graph=before[:200]))
            ctx.tally('networkx argument: bipartite attribute style', style if A is H else 'n/a')
            if snap_nx(A) != before:
                ctx.violation('counterexample', '%s modified the networkx graph it was given (node/edge attributes or structure)' % name,
                              dict(input=dict(call=name, graph=before), after=snap_nx(A)), True, site='argument-mutated', cls=name)

    # ---------- purity of generators and builders on graph / list arguments ----------
    calls = []
    for _ in range(12 if quick else 120):
        G, B, D = small_graph(rng.randint(2, 5)), small_bip(rng.randint(1, 4), rng.randint(1, 4)), small_dag(rng.randint(1, 5))
        ch = [rng.randint(0, 1) for _ in range(rng.choice([G.number_of_vertices(), G.number_of_vertices(), rng.randint(0, G.number_of_vertices()), 0, 1]))]
        pat = rng.sample(range(0, 6), rng.randint(0, 4))
        lits = [rng.choice([1, -1]) * v for v in rng.sample(range(1, 9), rng.randint(0, 5))]
        pl = [[rng.choice([1, -1]) * v for v in range(1, 5)]]
        calls += [
            ('TseitinFormula', (G, ch), lambda G=G, ch=ch: cnfgen.TseitinFormula(G, ch)),
            ('GraphColoringFormula', (G,), lambda G=G: cnfgen.GraphColoringFormula(G, 2)),
            ('EvenColoringFormula', (G,), lambda G=G: cnfgen.EvenColoringFormula(G)),
            ('DominatingSet', (G,), lambda G=G: cnfgen.DominatingSet(G, 2)),
            ('Tiling', (G,), lambda G=G: cnfgen.Tiling(G)),
            ('GraphIsomorphism', (G, G), lambda G=G: cnfgen.GraphIsomorphism(G, G)),
            ('CliqueFormula', (G,), lambda G=G: cnfgen.CliqueFormula(G, 2)),
            ('BinaryCliqueFormula', (G,), lambda G=G: cnfgen.BinaryCliqueFormula(G, 2)),
            ('RamseyWitnessFormula', (G,), lambda G=G: cnfgen.RamseyWitnessFormula(G, 2, 2)),
            ('SubgraphFormula', (G, G), lambda G=G: cnfgen.SubgraphFormula(G, G)),
            ('GraphOrderingPrinciple', (G,), lambda G=G: cnfgen.GraphOrderingPrinciple(G)),
            ('PerfectMatchingPrinciple', (G,), lambda G=G: cnfgen.PerfectMatchingPrinciple(G)),
            ('GraphPigeonholePrinciple', (B,), lambda B=B: cnfgen.GraphPigeonholePrinciple(B)),
            ('SubsetCardinalityFormula', (B,), lambda B=B: cnfgen.SubsetCardinalityFormula(B)),
            ('PebblingFormula', (D,), lambda D=D: cnfgen.PebblingFormula(D)),
            ('StoneFormula', (D,), lambda D=D: cnfgen.StoneFormula(D, 2)),
            ('SparseStoneFormula', (D, B), lambda D=D: cnfgen.SparseStoneFormula(D, small_bip(D.number_of_vertices(), 2))),
            ('bipartite_shift', (pat,), lambda pat=pat: graphs.bipartite_shift(4, 6, pat)),
            ('add_linear', (lits,), lambda lits=lits: CNF().add_linear(lits, rng.choice(['<=', '>=', '==', '!=', '<', '>']), 1)),
            ('add_parity', (lits,), lambda lits=lits: CNF().add_parity(lits, 1)),
            ('add_loose_majority', (lits,), lambda lits=lits: CNF().add_loose_majority(lits)),
            ('OPB.cardinality_neq', (lits,), lambda lits=lits: OPB().cardinality_neq(lits, 1)),
            ('OPB.add_constraint', (lits,), lambda lits=lits: OPB().add_constraint([(2, l) for l in lits] + ['<=', 1])),
            ('RandomKCNF(planted)', (pl,), lambda pl=pl: cnfgen.RandomKCNF(2, 4, 2, planted_assignments=pl)),
            ('Shuffle(explicit)', (lits,), lambda: cnfgen.Shuffle(cnfgen.PigeonholePrinciple(2, 2), [1, -1, 1, -1], [2, 1, 4, 3], [0, 1, 2, 3])),
            ('VariableCompression', (B,), lambda B=B: cnfgen.VariableCompression(CNF([[1, -2]] if B.left_order() >= 2 else [[1]]), B, function='xor')),
            ('to_networkx', (G,), lambda G=G: G.to_networkx()),
            ('writeGraph', (G,), lambda G=G: __import__('io').StringIO() and cnfgen.writeGraph(G, __import__('io').StringIO(), 'simple', 'kthlist')),
        ]
    for name, args, f in calls:
        def snap(a):
            return snap_graph(a) if hasattr(a, 'number_of_edges') else repr(a)
        before = [snap(a) for a in args]
        r = outcome(f)
        after = [snap(a) for a in args]
        ctx.count('purity-arguments', (name, tuple(before)), nontrivial=any(len(b) > 2 for b in before), sample=dict(call=name, arguments=[b[:120] for b in before]))
        ctx.tally('call with snapshotted arguments', name)
        if before != after:
            which = [i for i, (x, y) in enumerate(zip(before, after)) if x != y]
            ctx.violation('counterexample', '%s modified its argument #%s' % (name, which), dict(input=dict(call=name, arguments=before), after=after),
                          True, site='argument-mutated', cls=name)
        if r[0] != 'ok' and r[1] not in ('ValueError',):
            ctx.violation('counterexample', '%s raised %s on a valid argument' % (name, r[1]), dict(input=dict(call=name, arguments=before), error=r[1:]),
                          True, site='call-raises', cls='%s-%s' % (name, r[1]))

    import c19_alias
    c19_alias.run_alias(ctx)


def header_property_fails(h0, hk, names):
    """direct check of the property on one chain; returns a description or None"""
    h0 = [(str(k), str(v)) for k, v in h0]
    hk = [(str(k), str(v)) for k, v in hk]
    if len(hk) != len(h0) + len(names):
        return 'entry-count: %d entries before, %d after %d steps' % (len(h0), len(hk), len(names))
    for (k0, v0), (k1, v1) in zip(h0, hk):
        if k0 != k1:
            return 'old-entry-moved: %r became %r' % (k0, k1)
        if v0 != v1 and not (k0 == 'description' and v1.startswith(v0)):
            return 'old-entry-changed: %r' % k0
    n0 = len([k for k, _ in h0 if k.startswith('transformation ')])
    for j, (k, v) in enumerate(hk[len(h0):]):
        if k != 'transformation %d' % (n0 + j + 1):
            return 'numbering: expected transformation %d, found %r' % (n0 + j + 1, k)
    return None
